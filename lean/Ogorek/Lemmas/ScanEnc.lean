import Ogorek.Opcodes
import Ogorek.Encoder
import Ogorek.Lemmas.EncParse
import Ogorek.Lemmas.RoundTrip

/-!
  The encoder's output under the independent opcode table (C12): every fragment scans as table
  opcodes introduced in protocols ≤ p, none of them PROTO or STOP, whose combined effect on the
  abstract stack is "push one object".
-/
namespace Ogorek

def applyEffs : List Eff → AStack → Option AStack
  | [], s => some s
  | e :: es, s =>
    match applyEff e s with
    | some s' => applyEffs es s'
    | none => none

theorem applyEffs_append (a b : List Eff) (s : AStack) :
    applyEffs (a ++ b) s = match applyEffs a s with | some s' => applyEffs b s' | none => none := by
  induction a generalizing s with
  | nil => simp [applyEffs]
  | cons e es ih =>
    simp only [List.cons_append, applyEffs]
    cases applyEff e s with
    | none => rfl
    | some s' => exact ih s'

/-- An opcode of the table that may occur inside the body of a protocol-`p` pickle. -/
structure OpOK (p : Nat) (info : OpInfo) : Prop where
  notStop : (info.eff == .stop) = false
  notProto : (info.code == 0x80) = false
  le : info.proto ≤ p

/-- `bs` is a sequence of table opcodes (with their arguments), each `OpOK p`, with effects `effs`. -/
def Scans (p : Nat) : Bytes → List Eff → Prop
  | bs, [] => bs = []
  | bs, e :: es => ∃ b1 b2 info, bs = b1 ++ b2 ∧ info.eff = e ∧ OpOK p info ∧
      (∀ t, ∃ arg, scanOp (b1 ++ t) = .ok ((info, arg), t)) ∧ Scans p b2 es

theorem Scans.nil (p : Nat) : Scans p [] [] := rfl

theorem Scans.single {p : Nat} {b : Bytes} (info : OpInfo) (hok : OpOK p info)
    (h : ∀ t, ∃ arg, scanOp (b ++ t) = .ok ((info, arg), t)) : Scans p b [info.eff] :=
  ⟨b, [], info, by simp, rfl, hok, h, rfl⟩

theorem Scans.append {p : Nat} {b1 b2 : Bytes} {e1 e2 : List Eff} (h1 : Scans p b1 e1) (h2 : Scans p b2 e2) :
    Scans p (b1 ++ b2) (e1 ++ e2) := by
  induction e1 generalizing b1 with
  | nil => simp [Scans] at h1; subst h1; simpa using h2
  | cons e es ih =>
    obtain ⟨x, y, info, rfl, he, hok, hp, hr⟩ := h1
    exact ⟨x, y ++ b2, info, by simp, he, hok, hp, ih hr⟩

theorem Scans.length_le {p : Nat} : {effs : List Eff} → {bs : Bytes} → Scans p bs effs → effs.length ≤ bs.length
  | [], _, _ => by simp
  | e :: es, bs, h => by
    obtain ⟨b1, b2, info, rfl, _, _, hp, hr⟩ := h
    have ih := Scans.length_le hr
    have : 1 ≤ b1.length := by
      cases b1 with
      | nil =>
        obtain ⟨_, h0⟩ := hp []
        simp [scanOp] at h0
      | cons x xs => simp
    simp; omega

/-- The scanner steps through a scanned fragment. -/
theorem scanLoop_run (p : Nat) : ∀ (effs : List Eff) (bs : Bytes) (fuel : Nat) (s s' : AStack) (names : List String)
    (maxp : Nat) (firstp : Option Nat) (pcount : Nat) (t : Bytes),
    Scans p bs effs → applyEffs effs s = some s' → (effs ≠ [] → True) →
    ∃ names' maxp', scanLoop (fuel + effs.length) s names maxp firstp pcount (bs ++ t) =
        scanLoop fuel s' names' maxp' firstp pcount t ∧ maxp ≤ maxp' ∧ maxp' ≤ max maxp p ∧
        (names ≠ [] ∨ effs ≠ [] → names' ≠ []) := by
  intro effs
  induction effs with
  | nil =>
    intro bs fuel s s' names maxp firstp pcount t hs ha _
    simp [Scans] at hs; subst hs
    simp [applyEffs] at ha; subst ha
    exact ⟨names, maxp, by simp, Nat.le_refl _, Nat.le_max_left _ _, by intro h; rcases h with h | h; exact h; simp at h⟩
  | cons e es ih =>
    intro bs fuel s s' names maxp firstp pcount t hs ha _
    obtain ⟨b1, b2, info, rfl, he, hok, hp, hr⟩ := hs
    simp only [applyEffs] at ha
    cases hae : applyEff e s with
    | none => rw [hae] at ha; simp at ha
    | some s1 =>
      rw [hae] at ha
      simp only at ha
      obtain ⟨arg, hsc⟩ := hp (b2 ++ t)
      obtain ⟨names', maxp', hrun, h1, h2, h3⟩ := ih b2 fuel s1 s' (info.name :: names) (max maxp info.proto) firstp pcount t hr ha (fun _ => trivial)
      refine ⟨names', maxp', ?_, by omega, ?_, fun _ => h3 (Or.inl (by simp))⟩
      · have hlen : fuel + (e :: es).length = (fuel + es.length) + 1 := by simp; omega
        rw [hlen, scanLoop]
        simp only [List.append_assoc, hsc, he, hae, hok.notProto, Bool.false_and, if_false]
        have hns : (e == Eff.stop) = false := by rw [← he]; exact hok.notStop
        simp only [hns, Bool.false_eq_true, if_false]
        exact hrun
      · have := hok.le
        omega

end Ogorek

namespace Ogorek

/-! ### single opcodes -/

theorem scans_op (p : Nat) (k : UInt8) (info : OpInfo) (args : Bytes) (hl : opLookup k = some info) (hok : OpOK p info)
    (hs : ∀ t, skipArg info.arg (args ++ t) = .ok ((), t)) : Scans p (k :: args) [info.eff] := by
  refine Scans.single info hok fun t => ?_
  simp only [scanOp, List.cons_append, hl, hs t]
  exact ⟨_, rfl⟩

theorem skip_none (t : Bytes) : skipArg .none ([] ++ t) = .ok ((), t) := rfl
theorem skip_u1 (b : UInt8) (t : Bytes) : skipArg .u1 ([b] ++ t) = .ok ((), t) := rfl
theorem skip_u2 (a : Bytes) (h : a.length = 2) (t : Bytes) : skipArg .u2 (a ++ t) = .ok ((), t) := by
  simp [skipArg, Rd.map, Rd.bind, readFull_exact 2 a t h, Rd.pure]
theorem skip_i4 (a : Bytes) (h : a.length = 4) (t : Bytes) : skipArg .i4 (a ++ t) = .ok ((), t) := by
  simp [skipArg, Rd.map, Rd.bind, readFull_exact 4 a t h, Rd.pure]
theorem skip_f8 (a : Bytes) (h : a.length = 8) (t : Bytes) : skipArg .f8 (a ++ t) = .ok ((), t) := by
  simp [skipArg, Rd.map, Rd.bind, readFull_exact 8 a t h, Rd.pure]
theorem skip_line (l : Bytes) (h : (10 : UInt8) ∉ l) (t : Bytes) : skipArg .line ((l ++ [10]) ++ t) = .ok ((), t) := by
  have : (l ++ [10]) ++ t = l ++ 10 :: t := by simp
  simp [skipArg, Rd.map, Rd.bind, this, readLine_line l t h, Rd.pure]
theorem skip_line2 (l1 l2 : Bytes) (h1 : (10 : UInt8) ∉ l1) (h2 : (10 : UInt8) ∉ l2) (t : Bytes) :
    skipArg .line2 ((l1 ++ [10] ++ l2 ++ [10]) ++ t) = .ok ((), t) := by
  have : (l1 ++ [10] ++ l2 ++ [10]) ++ t = l1 ++ 10 :: (l2 ++ 10 :: t) := by simp
  simp [skipArg, Rd.map, Rd.bind, this, readLine_line l1 _ h1, readLine_line l2 t h2, Rd.pure]
theorem skip_counted1 (s : Bytes) (h : s.length < 256) (t : Bytes) :
    skipArg .counted1 ((UInt8.ofNat s.length :: s) ++ t) = .ok ((), t) := by
  simp [skipArg, Rd.map, Rd.bind, readCounted1_exact s t h, Rd.pure]
theorem skip_counted4 (s : Bytes) (h : s.length < 2 ^ 32) (t : Bytes) :
    skipArg .counted4 ((natLE 4 s.length ++ s) ++ t) = .ok ((), t) := by
  have : (natLE 4 s.length ++ s) ++ t = natLE 4 s.length ++ (s ++ t) := by simp
  simp [skipArg, Rd.map, Rd.bind, this, readCounted_exact 4 s t (by omega) (by omega), Rd.pure]
theorem skip_counted8 (s : Bytes) (h : s.length < 2 ^ 32) (t : Bytes) :
    skipArg .counted8 ((natLE 8 s.length ++ s) ++ t) = .ok ((), t) := by
  have : (natLE 8 s.length ++ s) ++ t = natLE 8 s.length ++ (s ++ t) := by simp
  simp [skipArg, Rd.map, Rd.bind, this, readCounted_exact 8 s t (by omega) (by omega), Rd.pure]

/-! ### fragments that push -/

/-- The fragment scans and its net effect is one more object on the abstract stack. -/
def ScansPush (p : Nat) (bs : Bytes) : Prop := ∃ effs, Scans p bs effs ∧ ∀ s, applyEffs effs s = some (true :: s)

/-- … `n` more objects. -/
def ScansPushN (p : Nat) (bs : Bytes) (n : Nat) : Prop :=
  ∃ effs, Scans p bs effs ∧ ∀ s, applyEffs effs s = some (List.replicate n true ++ s)

theorem ScansPushN.zero (p : Nat) : ScansPushN p [] 0 := ⟨[], Scans.nil p, fun s => by simp [applyEffs]⟩

theorem replicate_snoc_true (n : Nat) (s : AStack) : List.replicate n true ++ true :: s = List.replicate (n + 1) true ++ s := by
  induction n with
  | zero => simp
  | succ n ih => simp [List.replicate_succ, ih]

theorem ScansPushN.cons {p : Nat} {b1 b2 : Bytes} {n : Nat} (h1 : ScansPush p b1) (h2 : ScansPushN p b2 n) :
    ScansPushN p (b1 ++ b2) (n + 1) := by
  obtain ⟨e1, s1, a1⟩ := h1
  obtain ⟨e2, s2, a2⟩ := h2
  refine ⟨e1 ++ e2, Scans.append s1 s2, fun s => ?_⟩
  rw [applyEffs_append, a1 s]
  simp only [a2, replicate_snoc_true]

theorem ScansPush.of_op {p : Nat} {bs : Bytes} {info : OpInfo} (h : Scans p bs [info.eff]) (he : info.eff = .push) : ScansPush p bs :=
  ⟨[info.eff], h, fun s => by simp [applyEffs, he, applyEff]⟩

theorem popThroughMark_replicate (n : Nat) (s : AStack) : popThroughMark (List.replicate n true ++ false :: s) = some s := by
  induction n with
  | zero => simp [popThroughMark]
  | succ n ih => simp [List.replicate_succ, popThroughMark, ih]

theorem topObjs_replicate (n : Nat) (s : AStack) : topObjs n (List.replicate n true ++ s) = true := by
  simp [topObjs, List.take_left']

/-- `MARK items <collect-opcode>`. -/
theorem ScansPush.collect {p : Nat} {bs : Bytes} {n : Nat} (k : UInt8) (info : OpInfo) (hi : ScansPushN p bs n)
    (hl : opLookup k = some info) (hok : OpOK p info) (ha : info.arg = .none) (he : info.eff = .collect) :
    ScansPush p (40 :: bs ++ [k]) := by
  obtain ⟨effs, hs, ha'⟩ := hi
  have hm : Scans p [40] [Eff.pushMark] :=
    scans_op p 40 ⟨40, "MARK", 0, .none, .pushMark⟩ [] rfl ⟨rfl, rfl, Nat.zero_le _⟩ (fun t => skip_none t)
  have hk : Scans p [k] [info.eff] := scans_op p k info [] hl hok (fun t => by rw [ha]; exact skip_none t)
  refine ⟨[Eff.pushMark] ++ effs ++ [info.eff], ?_, fun s => ?_⟩
  · have := Scans.append (Scans.append hm hs) hk
    simpa using this
  · rw [applyEffs_append, applyEffs_append]
    simp only [applyEffs, applyEff, ha' (false :: s), he, popThroughMark_replicate, Option.map]

/-- `items <TUPLE1..3>`. -/
theorem ScansPush.tupleN {p : Nat} {bs : Bytes} {n : Nat} (k : UInt8) (info : OpInfo) (hi : ScansPushN p bs n)
    (hl : opLookup k = some info) (hok : OpOK p info) (ha : info.arg = .none) (he : info.eff = .tupleN n) :
    ScansPush p (bs ++ [k]) := by
  obtain ⟨effs, hs, ha'⟩ := hi
  have hk : Scans p [k] [info.eff] := scans_op p k info [] hl hok (fun t => by rw [ha]; exact skip_none t)
  refine ⟨effs ++ [info.eff], Scans.append hs hk, fun s => ?_⟩
  rw [applyEffs_append, ha' s]
  simp [applyEffs, applyEff, he, topObjs_replicate]

/-- Two pushes and a binary opcode (REDUCE, STACK_GLOBAL). -/
theorem ScansPush.binary {p : Nat} {b1 b2 : Bytes} (k : UInt8) (info : OpInfo) (h1 : ScansPush p b1) (h2 : ScansPush p b2)
    (hl : opLookup k = some info) (hok : OpOK p info) (ha : info.arg = .none) (he : info.eff = .binary) :
    ScansPush p (b1 ++ b2 ++ [k]) := by
  obtain ⟨e1, s1, a1⟩ := h1
  obtain ⟨e2, s2, a2⟩ := h2
  have hk : Scans p [k] [info.eff] := scans_op p k info [] hl hok (fun t => by rw [ha]; exact skip_none t)
  refine ⟨e1 ++ e2 ++ [info.eff], Scans.append (Scans.append s1 s2) hk, fun s => ?_⟩
  rw [applyEffs_append, applyEffs_append, a1 s]
  simp [a2, applyEffs, applyEff, he, topObjs]

/-- A push and a unary opcode (BINPERSID). -/
theorem ScansPush.unary {p : Nat} {b1 : Bytes} (k : UInt8) (info : OpInfo) (h1 : ScansPush p b1)
    (hl : opLookup k = some info) (hok : OpOK p info) (ha : info.arg = .none) (he : info.eff = .unary) :
    ScansPush p (b1 ++ [k]) := by
  obtain ⟨e1, s1, a1⟩ := h1
  have hk : Scans p [k] [info.eff] := scans_op p k info [] hl hok (fun t => by rw [ha]; exact skip_none t)
  refine ⟨e1 ++ [info.eff], Scans.append s1 hk, fun s => ?_⟩
  rw [applyEffs_append, a1 s]
  simp [applyEffs, applyEff, he, topObjs]

end Ogorek

namespace Ogorek

/-! ### the encoder's forms (protocols ≥ 1 for the text-free ones; numbers at every protocol) -/

section forms
variable (ip : IsPrint) (c : ECfg)

local notation "P" => c.proto.toNat

theorem flat_emit2 (a b : Bytes) : flat (emit a +> emit b) = a ++ b := by simp [flat, emit, Out.seq]

theorem scanspush_none : ScansPush P (flat (emit [78])) := by
  rw [flat_emit]
  exact ScansPush.of_op (info := ⟨78, "NONE", 0, .none, .push⟩)
    (scans_op _ 78 _ [] rfl ⟨rfl, rfl, Nat.zero_le _⟩ (fun t => skip_none t)) rfl

theorem scanspush_bool (b : Bool) : ScansPush P (flat (encodeBool c b)) := by
  unfold encodeBool
  split
  · rename_i h
    have hp : 2 ≤ P := by omega
    rw [flat_emit]
    cases b
    · exact ScansPush.of_op (info := ⟨0x89, "NEWFALSE", 2, .none, .push⟩)
        (scans_op _ 0x89 _ [] rfl ⟨rfl, rfl, hp⟩ (fun t => skip_none t)) rfl
    · exact ScansPush.of_op (info := ⟨0x88, "NEWTRUE", 2, .none, .push⟩)
        (scans_op _ 0x88 _ [] rfl ⟨rfl, rfl, hp⟩ (fun t => skip_none t)) rfl
  · rw [flat_emit]
    cases b
    · exact ScansPush.of_op (info := ⟨73, "INT", 0, .line, .push⟩)
        (scans_op _ 73 _ ([48, 48] ++ [10]) rfl ⟨rfl, rfl, Nat.zero_le _⟩ (fun t => skip_line [48, 48] (by decide) t)) rfl
    · exact ScansPush.of_op (info := ⟨73, "INT", 0, .line, .push⟩)
        (scans_op _ 73 _ ([48, 49] ++ [10]) rfl ⟨rfl, rfl, Nat.zero_le _⟩ (fun t => skip_line [48, 49] (by decide) t)) rfl

theorem scanspush_intline (l : Bytes) (h : (10 : UInt8) ∉ l) : ScansPush P (73 :: l ++ [10]) :=
  ScansPush.of_op (info := ⟨73, "INT", 0, .line, .push⟩)
    (scans_op _ 73 _ (l ++ [10]) rfl ⟨rfl, rfl, Nat.zero_le _⟩ (fun t => skip_line l h t)) rfl

theorem scanspush_int (i : Int) : ScansPush P (flat (encodeInt c i)) := by
  unfold encodeInt
  split
  · rename_i h
    have hp : 1 ≤ P := by omega
    rw [flat_emit]
    exact ScansPush.of_op (info := ⟨75, "BININT1", 1, .u1, .push⟩)
      (scans_op _ 75 _ [_] rfl ⟨rfl, rfl, hp⟩ (fun t => skip_u1 _ t)) rfl
  · split
    · rename_i h
      have hp : 1 ≤ P := by omega
      rw [flat_emit]
      exact ScansPush.of_op (info := ⟨77, "BININT2", 1, .u2, .push⟩)
        (scans_op _ 77 _ [_, _] rfl ⟨rfl, rfl, hp⟩ (fun t => skip_u2 _ rfl t)) rfl
    · split
      · rename_i h
        have hp : 1 ≤ P := by omega
        rw [flat_emit]
        exact ScansPush.of_op (info := ⟨74, "BININT", 1, .i4, .push⟩)
          (scans_op _ 74 _ (le4 _) rfl ⟨rfl, rfl, hp⟩ (fun t => skip_i4 _ (natLE_length 4 _) t)) rfl
      · rw [flat_emit]
        exact scanspush_intline c _ (fmtInt_no_lf i)

theorem scanspush_uint (u : Nat) : ScansPush P (flat (encodeUint c u)) := by
  unfold encodeUint
  split
  · exact scanspush_int c u
  · rw [flat_emit]
    exact scanspush_intline c _ (natDigits_no u 10 (by decide))

theorem scanspush_long (i : Int) : ScansPush P (flat (encodeLong i)) := by
  unfold encodeLong
  rw [flat_emit]
  have hl : (10 : UInt8) ∉ fmtInt i ++ [76] := by simp; exact fmtInt_no_lf i
  have e : (76 :: fmtInt i ++ [76, 10]) = 76 :: ((fmtInt i ++ [76]) ++ [10]) := by simp
  rw [e]
  exact ScansPush.of_op (info := ⟨76, "LONG", 0, .line, .push⟩)
    (scans_op _ 76 _ _ rfl ⟨rfl, rfl, Nat.zero_le _⟩ (fun t => skip_line _ hl t)) rfl

theorem scanspush_float (f : F64) (hf : c.proto ≥ 1 ∨ (10 : UInt8) ∉ F64.fmtG f) : ScansPush P (flat (encodeFloat c f)) := by
  by_cases hp : c.proto ≥ 1
  · have hp' : 1 ≤ P := by omega
    simp only [encodeFloat, hp, if_true, flat_emit]
    exact ScansPush.of_op (info := ⟨71, "BINFLOAT", 1, .f8, .push⟩)
      (scans_op _ 71 _ (natBE 8 f.toNat) rfl ⟨rfl, rfl, hp'⟩ (fun t => skip_f8 _ (by simp [natBE, natLE_length]) t)) rfl
  · simp only [encodeFloat, hp, if_false, flat_emit]
    exact ScansPush.of_op (info := ⟨70, "FLOAT", 0, .line, .push⟩)
      (scans_op _ 70 _ (F64.fmtG f ++ [10]) rfl ⟨rfl, rfl, Nat.zero_le _⟩ (fun t => skip_line _ (hf.resolve_left hp) t)) rfl

/-- A counted payload: 1-byte or 4-byte length. -/
theorem scanspush_counted (short long : UInt8) (is il : OpInfo) (s : Bytes) (useShort : Prop) [Decidable useShort]
    (hls : opLookup short = some is) (hll : opLookup long = some il)
    (hoks : useShort → OpOK P is) (hokl : OpOK P il)
    (has : is.arg = .counted1) (hal : il.arg = .counted4) (hes : is.eff = .push) (hel : il.eff = .push)
    (hu : useShort → s.length < 256) (hlen : s.length < 2 ^ 32) :
    ScansPush P (flat ((if useShort then emit [short, UInt8.ofNat s.length] else emit (long :: le4 s.length)) +> emit s)) := by
  by_cases h : useShort
  · simp only [h, if_true, flat_emit2]
    exact ScansPush.of_op (info := is)
      (scans_op _ short is (UInt8.ofNat s.length :: s) hls (hoks h) (fun t => by rw [has]; exact skip_counted1 s (hu h) t)) hes
  · simp only [h, if_false, flat_emit2]
    have e : (long :: le4 s.length) ++ s = long :: (natLE 4 s.length ++ s) := by simp [le4]
    rw [e]
    exact ScansPush.of_op (info := il)
      (scans_op _ long il _ hll hokl (fun t => by rw [hal]; exact skip_counted4 s hlen t)) hel

theorem scanspush_bytestring (hip : ip 10 = false) (s : Bytes) (hl : s.length < 2 ^ 32) : ScansPush P (flat (encodeByteString ip c s)) := by
  by_cases hp : c.proto ≥ 1
  · have hp' : 1 ≤ P := by omega
    simp only [encodeByteString, hp, if_true]
    exact scanspush_counted c 85 84 ⟨85, "SHORT_BINSTRING", 1, .counted1, .push⟩ ⟨84, "BINSTRING", 1, .counted4, .push⟩ s _
      rfl rfl (fun _ => ⟨rfl, rfl, hp'⟩) ⟨rfl, rfl, hp'⟩ rfl rfl rfl rfl id hl
  · simp only [encodeByteString, hp, if_false, flat_emit]
    exact ScansPush.of_op (info := ⟨83, "STRING", 0, .line, .push⟩)
      (scans_op _ 83 _ (pyquote ip s ++ [10]) rfl ⟨rfl, rfl, Nat.zero_le _⟩ (fun t => skip_line _ (pyquote_no_lf ip hip s) t)) rfl

theorem scanspush_unicode (s : Bytes) (hl : s.length < 2 ^ 32) (he : (encodeUnicode c s).err = none) :
    ScansPush P (flat (encodeUnicode c s)) := by
  by_cases hp : c.proto ≥ 1
  · have hp' : 1 ≤ P := by omega
    simp only [encodeUnicode, hp, if_true]
    exact scanspush_counted c 0x8c 88 ⟨0x8c, "SHORT_BINUNICODE", 4, .counted1, .push⟩ ⟨88, "BINUNICODE", 1, .counted4, .push⟩ s _
      rfl rfl (fun h => ⟨rfl, rfl, by have := h.2; show 4 ≤ P; omega⟩) ⟨rfl, rfl, hp'⟩ rfl rfl rfl rfl (·.1) hl
  · simp only [encodeUnicode, hp, if_false] at he ⊢
    cases hu : pyencodeRawUnicodeEscape s with
    | none => rw [hu] at he; simp [failWith] at he
    | some u =>
      simp only [flat_emit]
      exact ScansPush.of_op (info := ⟨86, "UNICODE", 0, .line, .push⟩)
        (scans_op _ 86 _ (u ++ [10]) rfl ⟨rfl, rfl, Nat.zero_le _⟩ (fun t => skip_line _ (rue_no_lf s u hu) t)) rfl

theorem scanspush_string (hip : ip 10 = false) (s : Bytes) (hl : s.length < 2 ^ 32) (he : (encodeString ip c s).err = none) :
    ScansPush P (flat (encodeString ip c s)) := by
  unfold encodeString at he ⊢
  split
  · rename_i h; simp only [h, if_true] at he
    exact scanspush_unicode c s hl he
  · exact scanspush_bytestring ip c hip s hl

theorem not_mem_of_containsLF {l : Bytes} (h : containsLF l = false) : (10 : UInt8) ∉ l := by
  unfold containsLF at h
  intro hm
  simp at h
  exact h 10 hm rfl

theorem scanspush_class (hip : ip 10 = false) (m n : Bytes) (hm : m.length < 2 ^ 32) (hn : n.length < 2 ^ 32)
    (he : (encodeClass ip c m n).err = none) : ScansPush P (flat (encodeClass ip c m n)) := by
  unfold encodeClass at he ⊢
  split
  · rename_i h4
    simp only [h4, if_true] at he
    obtain ⟨h12, _⟩ := seq_err_none he
    obtain ⟨h1, h2⟩ := seq_err_none h12
    rw [flat_seq _ _ h12, flat_seq _ _ h1, flat_emit]
    exact ScansPush.binary 0x93 ⟨0x93, "STACK_GLOBAL", 4, .none, .binary⟩ (scanspush_string ip c hip m hm h1)
      (scanspush_string ip c hip n hn h2) rfl ⟨rfl, rfl, by show 4 ≤ P; omega⟩ rfl rfl
  · rename_i h4
    simp only [h4, if_false] at he
    split
    · rename_i hlf; simp [hlf, failWith] at he
    · rename_i hlf
      simp only [Bool.or_eq_true, not_or, Bool.not_eq_true] at hlf
      rw [flat_emit]
      have e : (99 :: m ++ [10] ++ n ++ [10]) = 99 :: (m ++ [10] ++ n ++ [10]) := by simp
      rw [e]
      exact ScansPush.of_op (info := ⟨99, "GLOBAL", 0, .line2, .push⟩)
        (scans_op _ 99 _ _ rfl ⟨rfl, rfl, Nat.zero_le _⟩
          (fun t => skip_line2 m n (not_mem_of_containsLF hlf.1) (not_mem_of_containsLF hlf.2) t)) rfl

theorem scanspush_tupleOf (l : Nat) (items : Out) (he : items.err = none) (hl0 : l = 0 → flat items = [])
    (hi : ScansPushN P (flat items) l) : ScansPush P (flat (encodeTupleOf c l items)) := by
  unfold encodeTupleOf
  split
  · rename_i h
    obtain ⟨h2, h1, h3⟩ := h
    have hp : 2 ≤ P := by omega
    rw [flat_seq _ _ he, flat_emit]
    have : l = 1 ∨ l = 2 ∨ l = 3 := by omega
    rcases this with rfl | rfl | rfl
    · exact ScansPush.tupleN 0x85 ⟨0x85, "TUPLE1", 2, .none, .tupleN 1⟩ hi rfl ⟨rfl, rfl, hp⟩ rfl rfl
    · exact ScansPush.tupleN 0x86 ⟨0x86, "TUPLE2", 2, .none, .tupleN 2⟩ hi rfl ⟨rfl, rfl, hp⟩ rfl rfl
    · exact ScansPush.tupleN 0x87 ⟨0x87, "TUPLE3", 2, .none, .tupleN 3⟩ hi rfl ⟨rfl, rfl, hp⟩ rfl rfl
  · split
    · rename_i h
      have hp : 1 ≤ P := by omega
      rw [flat_emit]
      exact ScansPush.of_op (info := ⟨41, "EMPTY_TUPLE", 1, .none, .push⟩)
        (scans_op _ 41 _ [] rfl ⟨rfl, rfl, hp⟩ (fun t => skip_none t)) rfl
    · have h1 : (emit [40] +> items).err = none := by simp [Out.seq, emit, he]
      rw [flat_seq _ _ h1, flat_seq _ _ (by simp [emit]), flat_emit, flat_emit]
      have := ScansPush.collect 116 ⟨116, "TUPLE", 0, .none, .collect⟩ hi rfl ⟨rfl, rfl, Nat.zero_le _⟩ rfl rfl
      simpa using this

end forms

end Ogorek

namespace Ogorek

section composite
variable (ip : IsPrint) (c : ECfg)

local notation "P" => c.proto.toNat

theorem scanspush_reduce (clsOut argsOut : Out) (h1 : clsOut.err = none) (h2 : argsOut.err = none)
    (hc : ScansPush P (flat clsOut)) (ha : ScansPush P (flat argsOut)) :
    ScansPush P (flat (clsOut +> argsOut +> emit [82])) := by
  have h12 : (clsOut +> argsOut).err = none := by simp [Out.seq, h1, h2]
  rw [flat_seq _ _ h12, flat_seq _ _ h1, flat_emit]
  exact ScansPush.binary 82 ⟨82, "REDUCE", 0, .none, .binary⟩ hc ha rfl ⟨rfl, rfl, Nat.zero_le _⟩ rfl rfl

theorem scanspush_bytes (hip : ip 10 = false) (s : Bytes) (hl : s.length < 2 ^ 31) (he : (encodeBytes ip c s).err = none) :
    ScansPush P (flat (encodeBytes ip c s)) := by
  by_cases h3 : c.proto ≥ 3
  · simp only [encodeBytes, h3, if_true]
    exact scanspush_counted c 67 66 ⟨67, "SHORT_BINBYTES", 3, .counted1, .push⟩ ⟨66, "BINBYTES", 3, .counted4, .push⟩ s _
      rfl rfl (fun _ => ⟨rfl, rfl, by show 3 ≤ P; omega⟩) ⟨rfl, rfl, by show 3 ≤ P; omega⟩ rfl rfl rfl rfl id (by omega)
  · have e : encodeBytes ip c s = encodeClass ip c (sb "_codecs") (sb "encode")
        +> encodeTupleOf c 2 (encodeUnicode c (latin1ToUtf8 s) +> encodeByteString ip c (sb "latin1")) +> emit [82] := by
      simp [encodeBytes, h3, latin1ToUtf8]
    rw [e] at he ⊢
    obtain ⟨h12, _⟩ := seq_err_none he
    obtain ⟨hce, hte⟩ := seq_err_none h12
    have hie := encodeTupleOf_err_inv 2 _ (by omega) hte
    obtain ⟨hue, hbe⟩ := seq_err_none hie
    have hul : (latin1ToUtf8 s).length < 2 ^ 32 := by have := latin1ToUtf8_length_le s; omega
    have hitems : ScansPushN P (flat (encodeUnicode c (latin1ToUtf8 s) +> encodeByteString ip c (sb "latin1"))) 2 := by
      rw [flat_seq _ _ hue]
      have := ScansPushN.cons (scanspush_unicode c (latin1ToUtf8 s) hul hue)
        (ScansPushN.cons (scanspush_bytestring ip c hip (sb "latin1") (by decide)) (ScansPushN.zero P))
      simpa using this
    exact scanspush_reduce c _ _ hce hte
      (scanspush_class ip c hip _ _ (by decide) (by decide) hce)
      (scanspush_tupleOf c 2 _ hie (by omega) hitems)

theorem scanspush_bytearray (hip : ip 10 = false) (s : Bytes) (hl : s.length < 2 ^ 31) (he : (encodeByteArray ip c s).err = none) :
    ScansPush P (flat (encodeByteArray ip c s)) := by
  by_cases h5 : c.proto ≥ 5
  · simp only [encodeByteArray, h5, if_true, flat_emit2]
    have e : (0x96 :: le8 s.length) ++ s = 0x96 :: (natLE 8 s.length ++ s) := by simp [le8]
    rw [e]
    exact ScansPush.of_op (info := ⟨0x96, "BYTEARRAY8", 5, .counted8, .push⟩)
      (scans_op _ 0x96 _ _ rfl ⟨rfl, rfl, by show 5 ≤ P; omega⟩ (fun t => skip_counted8 s (by omega) t)) rfl
  · have e : encodeByteArray ip c s = encodeClass ip c (pybuiltinModuleE c.proto) (sb "bytearray")
        +> encodeTupleOf c 1 (encodeBytes ip c s) +> emit [82] := by
      simp [encodeByteArray, h5]
    rw [e] at he ⊢
    obtain ⟨h12, _⟩ := seq_err_none he
    obtain ⟨hce, hte⟩ := seq_err_none h12
    have hbe := encodeTupleOf_err_inv 1 _ (by omega) hte
    have hitems : ScansPushN P (flat (encodeBytes ip c s)) 1 := by
      have := ScansPushN.cons (scanspush_bytes ip c hip s hl hbe) (ScansPushN.zero P)
      simpa using this
    exact scanspush_reduce c _ _ hce hte
      (scanspush_class ip c hip _ _ (pybuiltinModuleE_len _) (by decide) hce)
      (scanspush_tupleOf c 1 _ hbe (by omega) hitems)

theorem encodeInt_err (i : Int) : (encodeInt c i).err = none := by
  unfold encodeInt
  split
  · rfl
  · split
    · rfl
    · split <;> rfl

mutual
/-- Payload sizes the 4-byte length forms can carry. -/
def sizesOK : GoVal → Bool
  | .str s | .bytestr s => decide (s.length < 2 ^ 32)
  | .bytes s | .bytearray s => decide (s.length < 2 ^ 31)
  | .cls m n => decide (m.length < 2 ^ 32) && decide (n.length < 2 ^ 32)
  | .list xs | .tuple xs => sizesOKList xs
  | .call m n args => decide (m.length < 2 ^ 32) && decide (n.length < 2 ^ 32) && sizesOKList args
  | .ref p => sizesOK p
  | .map kvs | .dict kvs => sizesOKPairs kvs
  | _ => true
def sizesOKList : List GoVal → Bool
  | [] => true
  | x :: xs => sizesOK x && sizesOKList xs
def sizesOKPairs : List (GoVal × GoVal) → Bool
  | [] => true
  | (k, v) :: r => sizesOK k && sizesOK v && sizesOKPairs r
end

theorem encList_err_of_tuple {xs : List GoVal} (h : (encodeTupleOf c xs.length (encList ip c xs)).err = none) :
    (encList ip c xs).err = none := by
  cases xs with
  | nil => rfl
  | cons x xs' =>
    unfold encodeTupleOf at h
    split at h
    · exact (seq_err_none h).1
    · split at h
      · rename_i hh; simp at hh
      · exact (seq_err_none (seq_err_none h).1).2

theorem flat_encList_nil {xs : List GoVal} (h : xs.length = 0) : flat (encList ip c xs) = [] := by
  have := List.length_eq_zero_iff.mp h; subst this; simp [encList, flat, Out.nil]

/-- `EMPTY_X`, or `MARK items <collect>` as the encoder chooses between them. -/
theorem scanspush_container (kEmpty kColl : UInt8) (iE iC : OpInfo) (n : Nat) (len : Nat) (items : Out) (he : items.err = none)
    (hlE : opLookup kEmpty = some iE) (hlC : opLookup kColl = some iC)
    (hokE : c.proto ≥ 1 → OpOK P iE) (hokC : OpOK P iC) (haE : iE.arg = .none) (haC : iC.arg = .none)
    (heE : iE.eff = .push) (heC : iC.eff = .collect) (hi : ScansPushN P (flat items) n) :
    ScansPush P (flat (if c.proto ≥ 1 ∧ len = 0 then emit [kEmpty] else emit [40] +> items +> emit [kColl])) := by
  split
  · rename_i h
    rw [flat_emit]
    exact ScansPush.of_op (info := iE) (scans_op _ kEmpty iE [] hlE (hokE h.1) (fun t => by rw [haE]; exact skip_none t)) heE
  · have h1 : (emit [40] +> items).err = none := by simp [Out.seq, emit, he]
    rw [flat_seq _ _ h1, flat_seq _ _ (by simp [emit]), flat_emit, flat_emit]
    have := ScansPush.collect kColl iC hi hlC hokC haC heC
    simpa using this

/-- What the scanner theorem asks of the floats of a value at protocol 0: newline-free `%g` text. -/
def FloatsLF (c : ECfg) (fs : List F64) : Prop := ∀ f ∈ fs, c.proto ≥ 1 ∨ (10 : UInt8) ∉ F64.fmtG f

theorem FloatsLF.left {c : ECfg} {a b : List F64} (h : FloatsLF c (a ++ b)) : FloatsLF c a :=
  fun f hf => h f (List.mem_append_left _ hf)
theorem FloatsLF.right {c : ECfg} {a b : List F64} (h : FloatsLF c (a ++ b)) : FloatsLF c b :=
  fun f hf => h f (List.mem_append_right _ hf)

mutual
theorem scans_val (hip : ip 10 = false) (hp0 : 0 ≤ c.proto) : (v : GoVal) → sizesOK v = true → FloatsLF c (floatsOf v) →
    (enc ip c v).err = none → ScansPush P (flat (enc ip c v))
  | .none, _, _, _ | .nil, _, _, _ => by simpa [enc] using scanspush_none c
  | .bool b, _, _, _ => by simpa [enc] using scanspush_bool c b
  | .int i, _, _, _ => by simpa [enc] using scanspush_int c i
  | .uint u, _, _, _ => by simpa [enc] using scanspush_uint c u
  | .big _ i, _, _, _ => by simpa [enc] using scanspush_long c i
  | .float f, _, hf, _ => by simpa [enc] using scanspush_float c f (hf f (by simp [floatsOf]))
  | .complex _ _, _, _, he => by simp [enc, failWith] at he
  | .str s, hs, _, he => by simpa [enc] using scanspush_string ip c hip s (by simpa [sizesOK] using hs) (by simpa [enc] using he)
  | .bytestr s, hs, _, _ => by simpa [enc] using scanspush_bytestring ip c hip s (by simpa [sizesOK] using hs)
  | .bytes s, hs, _, he => by simpa [enc] using scanspush_bytes ip c hip s (by simpa [sizesOK] using hs) (by simpa [enc] using he)
  | .bytearray s, hs, _, he => by
    simpa [enc] using scanspush_bytearray ip c hip s (by simpa [sizesOK] using hs) (by simpa [enc] using he)
  | .cls m n, hs, _, he => by
    simp only [sizesOK, Bool.and_eq_true, decide_eq_true_eq] at hs
    simpa [enc] using scanspush_class ip c hip m n hs.1 hs.2 (by simpa [enc] using he)
  | .list xs, hs, hf, he => by
    simp only [sizesOK] at hs
    simp only [floatsOf] at hf
    simp only [enc] at he ⊢
    have hie : (encList ip c xs).err = none := by
      by_cases h : c.proto ≥ 1 ∧ xs.length = 0
      · have := List.length_eq_zero_iff.mp h.2; subst this; rfl
      · simp only [h, if_false] at he
        exact (seq_err_none (seq_err_none he).1).2
    exact scanspush_container c 93 108 ⟨93, "EMPTY_LIST", 1, .none, .push⟩ ⟨108, "LIST", 0, .none, .collect⟩ xs.length xs.length _ hie
      rfl rfl (fun h => ⟨rfl, rfl, by show 1 ≤ P; omega⟩) ⟨rfl, rfl, Nat.zero_le _⟩ rfl rfl rfl rfl (scans_list hip hp0 xs hs hf hie)
  | .tuple xs, hs, hf, he => by
    simp only [sizesOK] at hs
    simp only [floatsOf] at hf
    simp only [enc] at he ⊢
    have hie := encList_err_of_tuple ip c he
    exact scanspush_tupleOf c xs.length _ hie (flat_encList_nil ip c) (scans_list hip hp0 xs hs hf hie)
  | .map kvs, hs, hf, he => by
    simp only [sizesOK] at hs
    simp only [floatsOf] at hf
    simp only [enc] at he ⊢
    have hie : (encPairs ip c kvs).err = none := by
      by_cases h : c.proto ≥ 1 ∧ kvs.length = 0
      · have := List.length_eq_zero_iff.mp h.2; subst this; rfl
      · simp only [h, if_false] at he
        exact (seq_err_none (seq_err_none he).1).2
    exact scanspush_container c 125 100 ⟨125, "EMPTY_DICT", 1, .none, .push⟩ ⟨100, "DICT", 0, .none, .collect⟩ _ kvs.length _ hie
      rfl rfl (fun h => ⟨rfl, rfl, by show 1 ≤ P; omega⟩) ⟨rfl, rfl, Nat.zero_le _⟩ rfl rfl rfl rfl (scans_pairs hip hp0 kvs hs hf hie)
  | .dict kvs, hs, hf, he => by
    simp only [sizesOK] at hs
    simp only [floatsOf] at hf
    simp only [enc] at he ⊢
    have hie : (encPairs ip c kvs).err = none := by
      by_cases h : c.proto ≥ 1 ∧ kvs.length = 0
      · have := List.length_eq_zero_iff.mp h.2; subst this; rfl
      · simp only [h, if_false] at he
        exact (seq_err_none (seq_err_none he).1).2
    exact scanspush_container c 125 100 ⟨125, "EMPTY_DICT", 1, .none, .push⟩ ⟨100, "DICT", 0, .none, .collect⟩ _ kvs.length _ hie
      rfl rfl (fun h => ⟨rfl, rfl, by show 1 ≤ P; omega⟩) ⟨rfl, rfl, Nat.zero_le _⟩ rfl rfl rfl rfl (scans_pairs hip hp0 kvs hs hf hie)
  | .call m n args, hs, hf, he => by
    simp only [sizesOK, Bool.and_eq_true, decide_eq_true_eq] at hs
    simp only [floatsOf] at hf
    simp only [enc] at he ⊢
    obtain ⟨h12, _⟩ := seq_err_none he
    obtain ⟨h1, h2⟩ := seq_err_none h12
    have hie := encList_err_of_tuple ip c h2
    exact scanspush_reduce c _ _ h1 h2 (scanspush_class ip c hip m n hs.1.1 hs.1.2 h1)
      (scanspush_tupleOf c args.length _ hie (flat_encList_nil ip c) (scans_list hip hp0 args hs.2 hf hie))
  | .ref pid, hs, hf, he => by
    simp only [sizesOK] at hs
    simp only [floatsOf] at hf
    simp only [enc] at he ⊢
    by_cases h0 : c.proto = 0
    · simp only [h0, if_true] at he ⊢
      cases pid with
      | str s =>
        simp only at he ⊢
        by_cases hlf : containsLF s = true
        · simp [hlf, failWith] at he
        · have hlf' : containsLF s = false := by simpa using hlf
          simp only [hlf', Bool.false_eq_true, if_false, flat_emit]
          exact ScansPush.of_op (info := ⟨80, "PERSID", 0, .line, .push⟩)
            (scans_op _ 80 _ (s ++ [10]) rfl ⟨rfl, rfl, Nat.zero_le _⟩ (fun t => skip_line _ (not_mem_of_containsLF hlf') t)) rfl
      | _ => simp [failWith] at he
    · simp only [h0, if_false] at he ⊢
      obtain ⟨h1, _⟩ := seq_err_none he
      rw [flat_seq _ _ h1, flat_emit]
      exact ScansPush.unary 81 ⟨81, "BINPERSID", 1, .none, .unary⟩ (scans_val hip hp0 pid hs hf h1) rfl
        ⟨rfl, rfl, by show 1 ≤ P; omega⟩ rfl rfl
  | .user n, _, _, he => by
    simp only [enc] at he ⊢
    obtain ⟨h123, _⟩ := seq_err_none he
    obtain ⟨h12, _⟩ := seq_err_none h123
    obtain ⟨_, hse⟩ := seq_err_none h12
    rw [flat_seq _ _ h123, flat_seq _ _ h12, flat_seq _ _ rfl, flat_emit, flat_emit]
    have hitems : ScansPushN P (flat (encodeString ip c (sb "N")) ++ flat (encodeInt c n)) 2 := by
      have := ScansPushN.cons (scanspush_string ip c hip (sb "N") (by decide) hse)
        (ScansPushN.cons (scanspush_int c n) (ScansPushN.zero P))
      simpa using this
    have := ScansPush.collect 100 ⟨100, "DICT", 0, .none, .collect⟩ hitems rfl ⟨rfl, rfl, Nat.zero_le _⟩ rfl rfl
    simpa using this
  | .mark, _, _, _ => by
    simp only [enc]
    rw [flat_seq _ _ rfl, flat_emit, flat_emit]
    have := ScansPush.collect 100 ⟨100, "DICT", 0, .none, .collect⟩ (ScansPushN.zero P) rfl ⟨rfl, rfl, Nat.zero_le _⟩ rfl rfl
    simpa using this
  | .href _, _, _, he | .cycle, _, _, he => by simp [enc, failWith] at he
theorem scans_list (hip : ip 10 = false) (hp0 : 0 ≤ c.proto) : (xs : List GoVal) → sizesOKList xs = true → FloatsLF c (floatsOfList xs) →
    (encList ip c xs).err = none → ScansPushN P (flat (encList ip c xs)) xs.length
  | [], _, _, _ => by simpa [encList, flat, Out.nil] using ScansPushN.zero P
  | x :: xs, hs, hf, he => by
    simp only [sizesOKList, Bool.and_eq_true] at hs
    simp only [floatsOfList] at hf
    simp only [encList] at he ⊢
    obtain ⟨h1, h2⟩ := seq_err_none he
    rw [flat_seq _ _ h1]
    exact ScansPushN.cons (scans_val hip hp0 x hs.1 hf.left h1) (scans_list hip hp0 xs hs.2 hf.right h2)
theorem scans_pairs (hip : ip 10 = false) (hp0 : 0 ≤ c.proto) : (kvs : List (GoVal × GoVal)) → sizesOKPairs kvs = true →
    FloatsLF c (floatsOfPairs kvs) → (encPairs ip c kvs).err = none → ScansPushN P (flat (encPairs ip c kvs)) (2 * kvs.length)
  | [], _, _, _ => by simpa [encPairs, flat, Out.nil] using ScansPushN.zero P
  | (k, v) :: kvs, hs, hf, he => by
    simp only [sizesOKPairs, Bool.and_eq_true] at hs
    simp only [floatsOfPairs] at hf
    simp only [encPairs] at he ⊢
    obtain ⟨h12, h3⟩ := seq_err_none he
    obtain ⟨h1, h2⟩ := seq_err_none h12
    rw [flat_seq _ _ h12, flat_seq _ _ h1]
    have := ScansPushN.cons (scans_val hip hp0 k hs.1.1 hf.left.left h1)
      (ScansPushN.cons (scans_val hip hp0 v hs.1.2 hf.left.right h2) (scans_pairs hip hp0 kvs hs.2 hf.right h3))
    have e : 2 * (kvs.length + 1) = 2 * kvs.length + 1 + 1 := by omega
    simpa [e, List.append_assoc] using this
end

end composite

end Ogorek
