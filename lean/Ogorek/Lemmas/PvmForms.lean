import Ogorek.Lemmas.PvmRep

/-! The scalar forms of the encoder on the Python machine. -/
namespace Ogorek

theorem pyUtf8ValidAux_of_runes (sp : Bool) : ∀ (fuel : Nat) (s : Bytes), s.length ≤ fuel →
    ((runesAux fuel s).all fun (r, w) => !(r == runeError && w == 1)) = true → pyUtf8ValidAux sp fuel s = true
  | 0, s, hl, _ => by
    have : s = [] := List.length_eq_zero_iff.mp (by omega)
    subst this; rfl
  | fuel + 1, s, hl, h => by
    unfold pyUtf8ValidAux
    unfold runesAux at h
    cases hd : decodeRune s with
    | mk r w =>
      rw [hd] at h
      cases w with
      | zero => rfl
      | succ w' =>
        simp only [List.all_cons, Bool.and_eq_true] at h
        obtain ⟨h1, h2⟩ := h
        simp only []
        have hne : (r == runeError && (w' + 1 == 1)) = false := by
          cases hx : (r == runeError && (w' + 1 == 1)) with
          | false => rfl
          | true => rw [hx] at h1; simp at h1
        rw [hne]
        simp only [Bool.false_eq_true, if_false]
        exact pyUtf8ValidAux_of_runes sp fuel (s.drop (w' + 1)) (by simp; omega) h2

/-- Go-valid UTF-8 is accepted by CPython's decoder, strict or with `surrogatepass`. -/
theorem pyUtf8Valid_of_valid (sp : Bool) (s : Bytes) (h : validUtf8 s = true) : pyUtf8Valid sp s = true :=
  pyUtf8ValidAux_of_runes sp s.length s (Nat.le_refl _) h

section forms
variable {c : ECfg} (ip : IsPrint)

theorem ppushes_none : PPushes c (flat (emit [78])) (fun _ r => r = .none) :=
  PPushes.one .none (by simpa [flat_emit] using parses_op 78 .pushNone rfl parseArg_78) (fun _ => rfl) (fun _ => rfl)

theorem ppushes_bool (b : Bool) : PPushes c (flat (encodeBool c b)) (fun _ r => r = .bool b) :=
  PPushes.one (.bool b) (parses_bool' c b) (fun _ => rfl) (fun _ => rfl)

theorem ppushes_int (i : Int) (hi : inInt64 i = true) : PPushes c (flat (encodeInt c i)) (fun _ r => r = .int i) :=
  PPushes.one (.int i) (parses_int c i hi) (fun _ => rfl) (fun _ => rfl)

theorem ppushes_long (i : Int) : PPushes c (flat (encodeLong i)) (fun _ r => r = .int i) :=
  PPushes.one (.int i) (parses_long i) (fun _ => rfl) (fun _ => rfl)

theorem ppushes_float (f : F64) (hf : c.proto ≥ 1 ∨ FloatTextOK f) : PPushes c (flat (encodeFloat c f)) (fun _ r => r = .float f) := by
  by_cases hp : c.proto ≥ 1
  · exact PPushes.one (.float f) (parses_float_bin c f hp) (fun _ => rfl) (fun _ => rfl)
  · exact PPushes.one (.float f) (parses_float_txt c f hp (hf.resolve_left hp)) (fun _ => rfl) (fun _ => rfl)

theorem pexec_pushStr (s : Bytes) (hv : validUtf8 s = true) (st : PState) : pexec (.pushStr s) st = .ok (ppush st (.str s)) := by
  simp [pexec, pyStr, pyUtf8Valid_of_valid true s hv, bind, Except.bind, pure, Except.pure]

theorem ppushes_unicode (s : Bytes) (hv : validUtf8 s = true) (hl : s.length < 2 ^ 32) (he : (encodeUnicode c s).err = none) :
    PPushes c (flat (encodeUnicode c s)) (fun _ r => r = .str s) := by
  by_cases hp : c.proto ≥ 1
  · exact PPushes.one (.str s) (parses_unicode_bin c s hp hl) (pexec_pushStr s hv) (fun _ => rfl)
  · exact PPushes.one (.str s) (parses_unicode_txt c s hp he) (pexec_pushStr s hv) (fun _ => rfl)

theorem ppushes_bytestring (hip : ip 10 = false) (s : Bytes) (hl : s.length < 2 ^ 32) :
    PPushes c (flat (encodeByteString ip c s)) (fun _ r => r = .str2 s) := by
  by_cases hp : c.proto ≥ 1
  · exact PPushes.one (.str2 s) (parses_bytestring_bin ip c s hp hl) (fun _ => rfl) (fun _ => rfl)
  · exact PPushes.one (.str2 s) (parses_bytestring_txt ip hip c s hp) (fun _ => rfl) (fun _ => rfl)

/-- What a Go `string` needs to be for CPython: valid UTF-8 where it is written as unicode. -/
def strOK (c : ECfg) (s : Bytes) : Bool := decide (s.length < 2 ^ 32) && (!(decide (c.su ∨ c.proto ≥ 3)) || validUtf8 s)

theorem ppushes_string (hip : ip 10 = false) (s : Bytes) (hs : strOK c s = true) (he : (encodeString ip c s).err = none) :
    PPushes c (flat (encodeString ip c s)) (fun _ r => r = pyStrOf c s) := by
  unfold strOK at hs
  simp only [Bool.and_eq_true, decide_eq_true_eq, Bool.or_eq_true, Bool.not_eq_true', decide_eq_false_iff_not] at hs
  unfold encodeString pyStrOf at *
  split
  · rename_i h
    simp only [h, if_true] at he
    exact ppushes_unicode s (hs.2.resolve_left (fun hn => hn h)) hs.1 he
  · exact ppushes_bytestring ip hip s hs.1

end forms

end Ogorek
