import Ogorek.Lemmas.RoundTrip
import Ogorek.Props.C01Pvm

/-!
  The round trip for values that are NOT canonical: unsigned integers and application structs have no
  counterpart among the types `Decode` produces; `Encode` writes them and `Decode` returns their documented
  normal form (`norm`: a uint64 becomes the int64 of the same value, or a `*big.Int` above 2^63-1; a pointer to
  the application struct `UserObj{N}` becomes the map / Dict of its fields) — at any depth inside lists, tuples,
  calls, persistent ids, and as keys or values of maps and Dicts.
-/
namespace Ogorek

mutual
/-- The documented normal form of a value: what `Decode(Encode(v))` stands for. -/
def norm : GoVal → GoVal
  | .uint u => if (u : Int) ≤ maxInt64 then .int u else .big 0 u
  | .user n => .map [(.str (sb "N"), .int n)]
  | .list xs => .list (normList xs)
  | .tuple xs => .tuple (normList xs)
  | .call m n args => .call m n (normList args)
  | .ref p => .ref (norm p)
  | .map kvs => .map (normPairs kvs)
  | .dict kvs => .dict (normPairs kvs)
  | .mark => .mark
  | .none => .none
  | .bool b => .bool b
  | .int i => .int i
  | .big id i => .big id i
  | .float f => .float f
  | .complex re im => .complex re im
  | .str s => .str s
  | .bytestr s => .bytestr s
  | .bytes s => .bytes s
  | .bytearray s => .bytearray s
  | .href id => .href id
  | .cls m n => .cls m n
  | .cycle => .cycle
  | .nil => .nil
def normList : List GoVal → List GoVal
  | [] => []
  | x :: xs => norm x :: normList xs
def normPairs : List (GoVal × GoVal) → List (GoVal × GoVal)
  | [] => []
  | (k, v) :: r => (norm k, norm v) :: normPairs r
end

theorem normList_length : (xs : List GoVal) → (normList xs).length = xs.length
  | [] => rfl
  | _ :: xs => by simp [normList, normList_length xs]

theorem normPairs_length : (kvs : List (GoVal × GoVal)) → (normPairs kvs).length = kvs.length
  | [] => rfl
  | (_, _) :: r => by simp [normPairs, normPairs_length r]

section main
variable {ρ : GoVal → GoVal} {rk : Bool}
variable {mc : MCfg} {hook : Hook} {c : ECfg} (ip : IsPrint)

theorem pushes_uint (u : Nat) : Pushes mc hook c (flat (encodeUint c u)) (fun h r => Rep mc ρ h r (norm (.uint u))) := by
  unfold encodeUint norm
  split
  · rename_i h
    have := pushes_int (mc := mc) (hook := hook) (c := c) (u : Int) (by unfold inInt64 minInt64; simp; exact h)
    simpa [Rep] using this
  · rename_i h
    refine Runs.one (parses_uint_big u h) fun _ st _ => ?_
    exact ⟨push { st with nbig := st.nbig + 1 } (.big st.nbig u), rfl, ⟨rfl, rfl, [], by simp [push]⟩, .big st.nbig u, rfl,
      by simp only [Rep]; exact ⟨st.nbig, rfl⟩⟩

mutual
theorem rtn_val (hh : HookFor hook ρ) (hρ : rk = true → ∀ p, ρ p = .ref p) (hip : ip 10 = false) (hsu : mc.cfg.su = c.su) (hlr : mc.listRef = false) :
    (v : GoVal) → canon mc.cfg rk (norm v) = true → FloatsOK c (floatsOf v) → (enc ip c v).err = none →
    Pushes mc hook c (flat (enc ip c v)) (fun h r => Rep mc ρ h r (norm v))
  | .none, hc, hf, he => by simpa [norm] using rt_val ip hh hρ hip hsu hlr .none (by simpa [norm] using hc) hf he
  | .nil, hc, hf, he => by simpa [norm] using rt_val ip hh hρ hip hsu hlr .nil (by simpa [norm] using hc) hf he
  | .bool b, hc, hf, he => by simpa [norm] using rt_val ip hh hρ hip hsu hlr (.bool b) (by simpa [norm] using hc) hf he
  | .int i, hc, hf, he => by simpa [norm] using rt_val ip hh hρ hip hsu hlr (.int i) (by simpa [norm] using hc) hf he
  | .big id i, hc, hf, he => by simpa [norm] using rt_val ip hh hρ hip hsu hlr (.big id i) (by simpa [norm] using hc) hf he
  | .float f, hc, hf, he => by simpa [norm] using rt_val ip hh hρ hip hsu hlr (.float f) (by simpa [norm] using hc) hf he
  | .str s, hc, hf, he => by simpa [norm] using rt_val ip hh hρ hip hsu hlr (.str s) (by simpa [norm] using hc) hf he
  | .bytestr s, hc, hf, he => by simpa [norm] using rt_val ip hh hρ hip hsu hlr (.bytestr s) (by simpa [norm] using hc) hf he
  | .bytes s, hc, hf, he => by simpa [norm] using rt_val ip hh hρ hip hsu hlr (.bytes s) (by simpa [norm] using hc) hf he
  | .bytearray s, hc, hf, he => by simpa [norm] using rt_val ip hh hρ hip hsu hlr (.bytearray s) (by simpa [norm] using hc) hf he
  | .cls m n, hc, hf, he => by simpa [norm] using rt_val ip hh hρ hip hsu hlr (.cls m n) (by simpa [norm] using hc) hf he
  | .uint u, _, _, _ => by simpa [enc] using pushes_uint (mc := mc) (hook := hook) (c := c) (ρ := ρ) u
  | .user n, hc, _, he => by
    simp only [norm, canon, canonPairs, Bool.and_eq_true, Bool.and_true] at hc
    obtain ⟨⟨_, hn⟩, hk⟩ := hc
    simp only [enc] at he ⊢
    obtain ⟨h123, _⟩ := seq_err_none he
    obtain ⟨h12, h3⟩ := seq_err_none h123
    obtain ⟨_, h2⟩ := seq_err_none h12
    have pk := pushes_string (mc := mc) (hook := hook) (c := c) ip hip hsu (sb "N") (by decide) h2
    have pv := pushes_int (mc := mc) (hook := hook) (c := c) (n : Int) hn
    have hitems : PushesN mc hook c (flat (encodeString ip c (sb "N") +> encodeInt c n)) (flatE [(GoVal.str (sb "N"), GoVal.int n)]).length
        (fun h rs => RepList mc ρ h rs (flatE [(GoVal.str (sb "N"), GoVal.int n)])) := by
      rw [flat_seq _ _ h2]
      refine Runs.weaken (Runs.seq pk pv) ?_
      intro st st' _ ⟨st1, _, _, ⟨a, ha, pa⟩, ⟨b, hb, pb⟩⟩
      subst pa; subst pb
      exact ⟨[.str (sb "N"), .int n], by simp [hb, ha], by simp [flatE], by simp [isMark], by simp [flatE, RepList, Rep]⟩
    have hd := pushes_dictform (mc := mc) (hook := hook) (c := c) (ρ := ρ) (rk := rk) hρ [(.str (sb "N"), .int n)]
      (encodeString ip c (sb "N") +> encodeInt c n) hk (by rw [seq_err h2]; exact h3) hitems
    have e : (emit [40] +> encodeString ip c (sb "N") +> encodeInt c ↑n +> emit [100])
        = (emit [40] +> (encodeString ip c (sb "N") +> encodeInt c ↑n) +> emit [100]) := by
      simp [Out.seq, emit, h2]
    rw [e]
    have hne : ¬ (c.proto ≥ 1 ∧ [(GoVal.str (sb "N"), GoVal.int ↑n)].length = 0) := by simp
    simp only [hne, if_false] at hd
    simpa only [norm, Rep] using hd
  | .list xs, hc, hf, he => by
    simp only [norm, canon] at hc
    simp only [floatsOf] at hf
    simp only [enc] at he ⊢
    split
    · rename_i h
      have hx : xs = [] := List.length_eq_zero_iff.mp h.2
      subst hx
      rw [flat_emit]
      refine Pushes.one (fun _ => .list []) (parses_op 93 .emptyList rfl parseArg_93) (fun _ st => ?_) (fun _ => ?_)
      · simp [exec, mkList, hlr]
      · simp [norm, normList, Rep, RepList]
    · rename_i h
      simp only [h, if_false] at he
      obtain ⟨h12, _⟩ := seq_err_none he
      obtain ⟨_, h2⟩ := seq_err_none h12
      rw [flat_seq _ _ h12, flat_seq _ _ rfl, flat_emit, flat_emit]
      have hm := Runs.mark_then (rtn_list hh hρ hip hsu hlr xs hc hf h2)
      refine Runs.snoc (by simpa using hm) (parses_op 108 .list rfl parseArg_108) ?_
      intro pos st st' _ _ ⟨rs, hst, _, hnm, hPL⟩
      refine ⟨{ st' with stack := .list rs :: st.stack }, ?_, ⟨rfl, rfl, [], by simp⟩, .list rs, rfl, ?_⟩
      · have hsp : splitAtMark st'.stack = some (rs.reverse, st.stack) := by
          rw [hst]; simp only [push]
          exact splitAtMark_append rs.reverse st.stack (fun r hr => hnm r (by simpa using hr))
        simp [exec, hsp, mkList, hlr]
      · simp only [norm, Rep]; exact ⟨rs, rfl, hPL⟩
  | .tuple xs, hc, hf, he => by
    simp only [norm, canon] at hc
    simp only [floatsOf] at hf
    simp only [enc] at he ⊢
    have hie : (encList ip c xs).err = none := by
      cases xs with
      | nil => rfl
      | cons x xs' => exact encodeTupleOf_err_inv _ _ (by simp) he
    have hl0 : xs.length = 0 → flat (encList ip c xs) = [] := by
      intro h; have := List.length_eq_zero_iff.mp h; subst this; simp [encList, flat, Out.nil]
    have := pushes_tupleOf (mc := mc) (hook := hook) (c := c) xs.length (encList ip c xs) (fun h rs => RepList mc ρ h rs (normList xs)) hie hl0
      (rtn_list hh hρ hip hsu hlr xs hc hf hie)
    simpa only [norm, Rep] using this
  | .map kvs, hc, hf, he => by
    simp only [norm, canon, Bool.and_eq_true] at hc
    simp only [floatsOf] at hf
    simp only [enc] at he ⊢
    have hie : (encPairs ip c kvs).err = none := by
      cases kvs with
      | nil => rfl
      | cons x xs' =>
        have : ¬ (c.proto ≥ 1 ∧ (x :: xs').length = 0) := by simp
        simp only [this, if_false] at he
        exact (seq_err_none (seq_err_none he).1).2
    have hi := rtn_pairs hh hρ hip hsu hlr kvs hc.1 hf hie
    have := pushes_dictform (mc := mc) (hook := hook) (c := c) hρ (normPairs kvs) (encPairs ip c kvs) hc.2 hie
      (by simpa [flatE_length, normPairs_length] using hi)
    simp only [normPairs_length] at this
    simpa only [norm, Rep] using this
  | .dict kvs, hc, hf, he => by
    simp only [norm, canon, Bool.and_eq_true] at hc
    simp only [floatsOf] at hf
    simp only [enc] at he ⊢
    have hie : (encPairs ip c kvs).err = none := by
      cases kvs with
      | nil => rfl
      | cons x xs' =>
        have : ¬ (c.proto ≥ 1 ∧ (x :: xs').length = 0) := by simp
        simp only [this, if_false] at he
        exact (seq_err_none (seq_err_none he).1).2
    have hi := rtn_pairs hh hρ hip hsu hlr kvs hc.1 hf hie
    have := pushes_dictform (mc := mc) (hook := hook) (c := c) hρ (normPairs kvs) (encPairs ip c kvs) hc.2 hie
      (by simpa [flatE_length, normPairs_length] using hi)
    simp only [normPairs_length] at this
    simpa only [norm, Rep] using this
  | .call m n args, hc, hf, he => by
    simp only [norm, canon, Bool.and_eq_true, decide_eq_true_eq, Bool.not_eq_true'] at hc
    simp only [floatsOf] at hf
    obtain ⟨⟨⟨hm, hn⟩, hres⟩, hargs⟩ := hc
    simp only [enc] at he ⊢
    obtain ⟨h12, _⟩ := seq_err_none he
    obtain ⟨h1, h2⟩ := seq_err_none h12
    have hie : (encList ip c args).err = none := by
      cases args with
      | nil => rfl
      | cons x xs' => exact encodeTupleOf_err_inv _ _ (by simp) h2
    have hl0 : args.length = 0 → flat (encList ip c args) = [] := by
      intro h; have := List.length_eq_zero_iff.mp h; subst this; simp [encList, flat, Out.nil]
    have htup := pushes_tupleOf (mc := mc) (hook := hook) (c := c) args.length (encList ip c args) (fun h rs => RepList mc ρ h rs (normList args)) hie hl0
      (rtn_list hh hρ hip hsu hlr args hargs hf hie)
    refine pushes_reduce m n _ _ _ _ h1 h2 (pushes_class ip hip hsu m n hm hn h1) htup ?_
    intro st rs _ hPL
    refine ⟨.call m n rs, ?_, ?_⟩
    · simp [reduceRes, handleCall_none st.proto m n rs hres]
    · simp only [norm, Rep]; exact ⟨rs, rfl, hPL⟩
  | .ref pid, hc, hf, he => by
    simp only [norm, canon] at hc
    simp only [floatsOf] at hf
    simp only [enc] at he ⊢
    by_cases h0 : c.proto = 0
    · simp only [h0, if_true] at he ⊢
      cases pid with
      | str s =>
        simp only at he ⊢
        by_cases hlf : containsLF s = true
        · simp [hlf, failWith] at he
        · have hlf' : containsLF s = false := by simpa using hlf
          simp only [hlf', Bool.false_eq_true, if_false]
          simpa [norm] using pushes_persid (mc := mc) (c := c) hh s hlf'
      | _ => simp [failWith] at he
    · simp only [h0, if_false] at he ⊢
      obtain ⟨h1, _⟩ := seq_err_none he
      rw [flat_seq _ _ h1, flat_emit]
      have := pushes_ref (mc := mc) (c := c) hh (norm pid) _ (rtn_val hh hρ hip hsu hlr pid hc hf h1)
      simpa only [norm] using this
  | .complex _ _, hc, _, _ | .mark, hc, _, _ | .href _, hc, _, _ | .cycle, hc, _, _ => by simp [norm, canon] at hc
theorem rtn_list (hh : HookFor hook ρ) (hρ : rk = true → ∀ p, ρ p = .ref p) (hip : ip 10 = false) (hsu : mc.cfg.su = c.su) (hlr : mc.listRef = false) :
    (xs : List GoVal) → canonList mc.cfg rk (normList xs) = true → FloatsOK c (floatsOfList xs) → (encList ip c xs).err = none →
    PushesN mc hook c (flat (encList ip c xs)) xs.length (fun h rs => RepList mc ρ h rs (normList xs))
  | [], _, _, _ => by
    simp only [encList, flat, Out.nil, List.flatten_nil, List.length_nil]
    exact Runs.weaken Runs.nil fun st st' _ e => ⟨[], by simp [e], rfl, by simp, by simp [normList, RepList]⟩
  | x :: xs, hc, hf, he => by
    simp only [normList, canonList, Bool.and_eq_true] at hc
    simp only [floatsOfList] at hf
    simp only [encList] at he ⊢
    obtain ⟨h1, h2⟩ := seq_err_none he
    rw [flat_seq _ _ h1]
    refine Runs.weaken (Runs.seq (rtn_val hh hρ hip hsu hlr x hc.1 hf.left h1) (rtn_list hh hρ hip hsu hlr xs hc.2 hf.right h2)) ?_
    intro st st2 _ ⟨st1, _, f2, ⟨r, hs1, hr⟩, ⟨rs, hs2, hlen, hnm, hPL⟩⟩
    obtain ⟨t, ht⟩ := f2.heap
    refine ⟨r :: rs, by simp [hs2, hs1], by simp [hlen], ?_, ?_⟩
    · intro y hy
      rcases List.mem_cons.mp hy with rfl | hy
      · exact hr.not_mark
      · exact hnm y hy
    · simp only [normList, RepList]
      exact ⟨by rw [ht]; exact Rep.mono mc ρ _ t r _ hr, hPL⟩
theorem rtn_pairs (hh : HookFor hook ρ) (hρ : rk = true → ∀ p, ρ p = .ref p) (hip : ip 10 = false) (hsu : mc.cfg.su = c.su) (hlr : mc.listRef = false) :
    (kvs : List (GoVal × GoVal)) → canonPairs mc.cfg rk (normPairs kvs) = true → FloatsOK c (floatsOfPairs kvs) → (encPairs ip c kvs).err = none →
    PushesN mc hook c (flat (encPairs ip c kvs)) (2 * kvs.length) (fun h rs => RepList mc ρ h rs (flatE (normPairs kvs)))
  | [], _, _, _ => by
    simp only [encPairs, flat, Out.nil, List.flatten_nil, List.length_nil]
    exact Runs.weaken Runs.nil fun st st' _ e => ⟨[], by simp [e], rfl, by simp, by simp [normPairs, flatE, RepList]⟩
  | (k, v) :: kvs, hc, hf, he => by
    simp only [normPairs, canonPairs, Bool.and_eq_true] at hc
    simp only [floatsOfPairs] at hf
    simp only [encPairs] at he ⊢
    obtain ⟨h12, h3⟩ := seq_err_none he
    obtain ⟨h1, h2⟩ := seq_err_none h12
    rw [flat_seq _ _ h12, flat_seq _ _ h1]
    refine Runs.weaken (Runs.seq (Runs.seq (rtn_val hh hρ hip hsu hlr k hc.1.1 hf.left.left h1) (rtn_val hh hρ hip hsu hlr v hc.1.2 hf.left.right h2))
      (rtn_pairs hh hρ hip hsu hlr kvs hc.2 hf.right h3)) ?_
    intro st st3 _ ⟨st2, _, f3, ⟨st1, _, f2, ⟨rk', hs1, hrk⟩, ⟨rv, hs2, hrv⟩⟩, ⟨rs, hs3, hlen, hnm, hPL⟩⟩
    obtain ⟨t2, ht2⟩ := f2.heap
    obtain ⟨t3, ht3⟩ := f3.heap
    have hrk2 : Rep mc ρ st2.heap rk' (norm k) := by rw [ht2]; exact Rep.mono mc ρ _ t2 rk' _ hrk
    refine ⟨rk' :: rv :: rs, by simp [hs3, hs2, hs1], by simp [hlen]; omega, ?_, ?_⟩
    · intro y hy
      simp only [List.mem_cons] at hy
      rcases hy with rfl | rfl | hy
      · exact hrk.not_mark
      · exact hrv.not_mark
      · exact hnm y hy
    · simp only [normPairs, flatE, RepList]
      exact ⟨by rw [ht3]; exact Rep.mono mc ρ _ t3 rk' _ hrk2, by rw [ht3]; exact Rep.mono mc ρ _ t3 rv _ hrv, hPL⟩
end

end main

end Ogorek
