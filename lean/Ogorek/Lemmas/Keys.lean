import Ogorek.Decoder

/-! `parseArg` at each concrete opcode byte (by evaluation). Generated from the definition. -/
namespace Ogorek

theorem parseArg_40 : parseArg 40 = (Rd.pure .mark) := by rfl
theorem parseArg_46 : parseArg 46 = (Rd.pure .stop) := by rfl
theorem parseArg_48 : parseArg 48 = (Rd.pure .pop) := by rfl
theorem parseArg_49 : parseArg 49 = (Rd.pure .popMark) := by rfl
theorem parseArg_50 : parseArg 50 = (Rd.pure .dup) := by rfl
theorem parseArg_70 : parseArg 70 = (readLine.mapE parseFloatArg) := by rfl
theorem parseArg_73 : parseArg 73 = (readLine.mapE parseIntArg) := by rfl
theorem parseArg_74 : parseArg 74 = ((readFull 4).map fun b => .pushInt (toSigned 32 (leNat b))) := by rfl
theorem parseArg_75 : parseArg 75 = (readByte.map fun b => .pushInt b.toNat) := by rfl
theorem parseArg_76 : parseArg 76 = (readLine.mapE parseLongArg) := by rfl
theorem parseArg_77 : parseArg 77 = ((readFull 2).map fun b => .pushInt (leNat b)) := by rfl
theorem parseArg_78 : parseArg 78 = (Rd.pure .pushNone) := by rfl
theorem parseArg_80 : parseArg 80 = (readLine.map .persid) := by rfl
theorem parseArg_81 : parseArg 81 = (Rd.pure .binpersid) := by rfl
theorem parseArg_82 : parseArg 82 = (Rd.pure .reduce) := by rfl
theorem parseArg_83 : parseArg 83 = (readLine.mapE fun l => .pushByteString <$> parseStringArg l) := by rfl
theorem parseArg_84 : parseArg 84 = ((readCounted 4).map .pushByteString) := by rfl
theorem parseArg_85 : parseArg 85 = (readCounted1.map .pushByteString) := by rfl
theorem parseArg_86 : parseArg 86 = (readLine.mapE parseUnicodeArg) := by rfl
theorem parseArg_88 : parseArg 88 = ((readCounted 4).map .pushStr) := by rfl
theorem parseArg_97 : parseArg 97 = (Rd.pure .append) := by rfl
theorem parseArg_98 : parseArg 98 = (Rd.pure .build) := by rfl
theorem parseArg_99 : parseArg 99 = (readLine.bind fun m => readLine.map fun n => .global m n) := by rfl
theorem parseArg_100 : parseArg 100 = (Rd.pure .dict) := by rfl
theorem parseArg_125 : parseArg 125 = (Rd.pure .emptyDict) := by rfl
theorem parseArg_101 : parseArg 101 = (Rd.pure .appends) := by rfl
theorem parseArg_103 : parseArg 103 = (readLine.map .get) := by rfl
theorem parseArg_104 : parseArg 104 = (readByte.map fun b => .get (memoKey b.toNat)) := by rfl
theorem parseArg_105 : parseArg 105 = (Rd.pure .inst) := by rfl
theorem parseArg_138 : parseArg 0x8a = (readCounted1.map fun s => .pushBig (decodeLong s)) := by rfl
theorem parseArg_137 : parseArg 0x89 = (Rd.pure (.pushBool false)) := by rfl
theorem parseArg_136 : parseArg 0x88 = (Rd.pure (.pushBool true)) := by rfl
theorem parseArg_106 : parseArg 106 = ((readFull 4).map fun b => .get (memoKey (leNat b))) := by rfl
theorem parseArg_108 : parseArg 108 = (Rd.pure .list) := by rfl
theorem parseArg_93 : parseArg 93 = (Rd.pure .emptyList) := by rfl
theorem parseArg_111 : parseArg 111 = (Rd.pure .obj) := by rfl
theorem parseArg_112 : parseArg 112 = (readLine.map .put) := by rfl
theorem parseArg_113 : parseArg 113 = (readByte.map fun b => .put (memoKey b.toNat)) := by rfl
theorem parseArg_114 : parseArg 114 = ((readFull 4).map fun b => .put (memoKey (leNat b))) := by rfl
theorem parseArg_115 : parseArg 115 = (Rd.pure .setitem) := by rfl
theorem parseArg_116 : parseArg 116 = (Rd.pure .tuple) := by rfl
theorem parseArg_133 : parseArg 0x85 = (Rd.pure (.tupleN 1)) := by rfl
theorem parseArg_134 : parseArg 0x86 = (Rd.pure (.tupleN 2)) := by rfl
theorem parseArg_135 : parseArg 0x87 = (Rd.pure (.tupleN 3)) := by rfl
theorem parseArg_41 : parseArg 41 = (Rd.pure .emptyTuple) := by rfl
theorem parseArg_117 : parseArg 117 = (Rd.pure .setitems) := by rfl
theorem parseArg_71 : parseArg 71 = ((readFull 8).map fun b => .pushFloat (UInt64.ofNat (beNat b))) := by rfl
theorem parseArg_66 : parseArg 66 = ((readCounted 4).map .pushBytes) := by rfl
theorem parseArg_67 : parseArg 67 = (readCounted1.map .pushBytes) := by rfl
theorem parseArg_149 : parseArg 0x95 = ((readFull 8).map fun _ => .frame) := by rfl
theorem parseArg_140 : parseArg 0x8c = (readCounted1.map .pushStr) := by rfl
theorem parseArg_147 : parseArg 0x93 = (Rd.pure .stackGlobal) := by rfl
theorem parseArg_148 : parseArg 0x94 = (Rd.pure .memoize) := by rfl
theorem parseArg_150 : parseArg 0x96 = ((readCounted 8).map .pushBytearray) := by rfl
theorem parseArg_151 : parseArg 0x97 = (Rd.pure .nextBuffer) := by rfl
theorem parseArg_152 : parseArg 0x98 = (Rd.pure .readonlyBuffer) := by rfl
theorem parseArg_128 : parseArg 0x80 = (readByte.map fun v => .proto v.toNat) := by rfl

end Ogorek
