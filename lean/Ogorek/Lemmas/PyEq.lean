import Ogorek.Pvm
import Ogorek.Props.C07

/-!
  Python equality of dict keys in the model of CPython's unpickler (`pyEq`): symmetric, transitive, and — on the
  keys both sides can hold without a Python-2 string — the same relation as og-rek's `equal` (`goEqual`).
-/
namespace Ogorek

theorem exactRealEq_trans (a b c : ExactReal) (h1 : exactRealEq a b = true) (h2 : exactRealEq b c = true) : exactRealEq a c = true := by
  cases a <;> cases b <;> cases c <;> simp_all [exactRealEq]

theorem exactEq_trans (a b c : ExactReal × ExactReal) (h1 : exactEq a b = true) (h2 : exactEq b c = true) : exactEq a c = true := by
  unfold exactEq at *
  simp only [Bool.and_eq_true] at *
  exact ⟨exactRealEq_trans _ _ _ h1.1 h2.1, exactRealEq_trans _ _ _ h1.2 h2.2⟩

theorem numEq_trans (x y z : Num) (hx : NumWF x) (hy : NumWF y) (hz : NumWF z) (h1 : numEq x y = true) (h2 : numEq y z = true) :
    numEq x z = true := by
  rw [C07_exact_num x y hx hy] at h1
  rw [C07_exact_num y z hy hz] at h2
  rw [C07_exact_num x z hx hz]
  exact exactEq_trans _ _ _ h1 h2

/-- The numbers of the Python side (bool, int as an unbounded integer, float) carry no range invariant. -/
theorem pyNum_wf {v : PyVal} {x : Num} (h : pyNum? v = some x) : NumWF x := by
  cases v <;> simp [pyNum?] at h <;> subst h <;> trivial

theorem pyEq_num {a : PyVal} {x : Num} (h : pyNum? a = some x) (b : PyVal) :
    pyEq a b = (match pyNum? b with | some y => numEq x y | none => false) := by
  cases a <;> simp [pyNum?] at h <;> subst h <;> simp only [pyEq] <;> (cases pyNum? b <;> rfl)

theorem pyEq_num_right {b : PyVal} {y : Num} (h : pyNum? b = some y) (a : PyVal) :
    pyEq a b = (match pyNum? a with | some x => numEq x y | none => false) := by
  cases b <;> simp [pyNum?] at h <;> subst h <;> cases a <;> simp [pyEq, pyNum?]

mutual
theorem pyEq_symm : ∀ a b : PyVal, pyEq a b = pyEq b a
  | .tuple xs, b => by
    cases b <;> simp only [pyEq, pyNum?]
    case tuple ys => exact pyEqList_symm xs ys
  | .call f xs, b => by
    cases b <;> simp only [pyEq, pyNum?]
    case call g ys => rw [pyEq_symm f g, pyEqList_symm xs ys]
  | .pers p, b => by
    cases b <;> simp only [pyEq, pyNum?]
    case pers q => exact pyEq_symm p q
  | .str x, b => by cases b <;> simp [pyEq, pyNum?] <;> exact Bool.beq_comm
  | .str2 x, b => by cases b <;> simp [pyEq, pyNum?] <;> exact Bool.beq_comm
  | .bytes x, b => by cases b <;> simp [pyEq, pyNum?] <;> exact Bool.beq_comm
  | .glob m n, b => by
    cases b <;> simp [pyEq, pyNum?]
    rename_i m' n'
    rw [Bool.beq_comm (a := m), Bool.beq_comm (a := n)]
  | .none, b => by cases b <;> simp [pyEq, pyNum?]
  | .obj x, b => by cases b <;> simp [pyEq, pyNum?] <;> exact Bool.beq_comm
  | .bool x, b => by cases b <;> simp [pyEq, pyNum?, numEq_symm]
  | .int x, b => by cases b <;> simp [pyEq, pyNum?, numEq_symm]
  | .float x, b => by cases b <;> simp [pyEq, pyNum?, numEq_symm]
  | .list _, b => by cases b <;> simp [pyEq, pyNum?]
  | .dict _, b => by cases b <;> simp [pyEq, pyNum?]
  | .bytearray _, b => by cases b <;> simp [pyEq, pyNum?]
  | .cycle, b => by cases b <;> simp [pyEq, pyNum?]
theorem pyEqList_symm : ∀ xs ys : List PyVal, pyEqList xs ys = pyEqList ys xs
  | [], [] => rfl
  | [], _ :: _ => by simp [pyEqList]
  | _ :: _, [] => by simp [pyEqList]
  | x :: xs, y :: ys => by
    simp only [pyEqList]
    rw [pyEq_symm x y, pyEqList_symm xs ys]
end

theorem pyEq_trans_num {a : PyVal} {x : Num} (ha : pyNum? a = some x) (b c : PyVal) (h1 : pyEq a b = true) (h2 : pyEq b c = true) :
    pyEq a c = true := by
  rw [pyEq_num ha] at h1 ⊢
  cases hb : pyNum? b with
  | none => rw [hb] at h1; simp at h1
  | some y =>
    rw [hb] at h1
    rw [pyEq_num hb] at h2
    cases hc : pyNum? c with
    | none => rw [hc] at h2; simp at h2
    | some z =>
      rw [hc] at h2
      simp only at h1 h2 ⊢
      exact numEq_trans x y z (pyNum_wf ha) (pyNum_wf hb) (pyNum_wf hc) h1 h2

mutual
theorem pyEq_trans : ∀ a b c : PyVal, pyEq a b = true → pyEq b c = true → pyEq a c = true
  | .tuple xs, b, c, h1, h2 => by
    cases b with
    | tuple ys =>
      cases c with
      | tuple zs => simp only [pyEq] at h1 h2 ⊢; exact pyEqList_trans xs ys zs h1 h2
      | _ => simp [pyEq] at h2
    | _ => simp [pyEq] at h1
  | .call f xs, b, c, h1, h2 => by
    cases b with
    | call g ys =>
      cases c with
      | call k zs =>
        simp only [pyEq, Bool.and_eq_true] at h1 h2 ⊢
        exact ⟨pyEq_trans f g k h1.1 h2.1, pyEqList_trans xs ys zs h1.2 h2.2⟩
      | _ => simp [pyEq] at h2
    | _ => simp [pyEq] at h1
  | .pers p, b, c, h1, h2 => by
    cases b with
    | pers q =>
      cases c with
      | pers r => simp only [pyEq] at h1 h2 ⊢; exact pyEq_trans p q r h1 h2
      | _ => simp [pyEq] at h2
    | _ => simp [pyEq] at h1
  | .str x, b, c, h1, h2 => by
    cases b <;> simp [pyEq, pyNum?] at h1
    subst h1
    exact h2
  | .str2 x, b, c, h1, h2 => by
    cases b <;> simp [pyEq, pyNum?] at h1
    subst h1
    exact h2
  | .bytes x, b, c, h1, h2 => by
    cases b <;> simp [pyEq, pyNum?] at h1
    subst h1
    exact h2
  | .glob m n, b, c, h1, h2 => by
    cases b <;> simp [pyEq, pyNum?] at h1
    obtain ⟨rfl, rfl⟩ := h1
    exact h2
  | .none, b, c, h1, h2 => by
    cases b <;> simp [pyEq, pyNum?] at h1
    exact h2
  | .obj x, b, c, h1, h2 => by
    cases b <;> simp [pyEq, pyNum?] at h1
    subst h1
    exact h2
  | .bool x, b, c, h1, h2 => pyEq_trans_num (a := .bool x) rfl b c h1 h2
  | .int x, b, c, h1, h2 => pyEq_trans_num (a := .int x) rfl b c h1 h2
  | .float x, b, c, h1, h2 => pyEq_trans_num (a := .float x) rfl b c h1 h2
  | .list _, b, _, h1, _ => by cases b <;> simp [pyEq, pyNum?] at h1
  | .dict _, b, _, h1, _ => by cases b <;> simp [pyEq, pyNum?] at h1
  | .bytearray _, b, _, h1, _ => by cases b <;> simp [pyEq, pyNum?] at h1
  | .cycle, b, _, h1, _ => by cases b <;> simp [pyEq, pyNum?] at h1
theorem pyEqList_trans : ∀ xs ys zs : List PyVal, pyEqList xs ys = true → pyEqList ys zs = true → pyEqList xs zs = true
  | [], [], zs, _, h2 => h2
  | [], _ :: _, _, h1, _ => by simp [pyEqList] at h1
  | _ :: _, [], _, h1, _ => by simp [pyEqList] at h1
  | _ :: _, _ :: _, [], _, h2 => by simp [pyEqList] at h2
  | x :: xs, y :: ys, z :: zs, h1, h2 => by
    simp only [pyEqList, Bool.and_eq_true] at h1 h2 ⊢
    exact ⟨pyEq_trans x y z h1.1 h2.1, pyEqList_trans xs ys zs h1.2 h2.2⟩
end

end Ogorek
