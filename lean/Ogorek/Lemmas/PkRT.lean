import Ogorek.Lemmas.PkCont

/-!
  CPython's unpickler on CPython's pickler: strings, globals, the REDUCE forms of bytes / bytearray,
  lists and dicts, and the induction over the object.
-/
namespace Ogorek

mutual
/-- The Python value of an object (resolved: lists, dicts and bytearrays by content). -/
def pyOf : PyObj → PyVal
  | .none => .none
  | .bool b => .bool b
  | .int i => .int i
  | .float f => .float f
  | .str s => .str s
  | .bytes s => .bytes s
  | .bytearray s => .bytearray s
  | .tuple xs => .tuple (pyOfList xs)
  | .list xs => .list (pyOfList xs)
  | .dict kvs => .dict (pyDictOf (pyOfPairs kvs))
def pyOfList : List PyObj → List PyVal
  | [] => []
  | x :: xs => pyOf x :: pyOfList xs
def pyOfPairs : List (PyObj × PyObj) → List (PyVal × PyVal)
  | [] => []
  | (k, v) :: r => (pyOf k, pyOf v) :: pyOfPairs r
end

mutual
/-- What CPython asks of the object: text is valid UTF-8, dict keys are hashable (at most one holding a NaN, see
    `keysPyOK`); and at protocol 0 the float-text hypothesis. -/
def pyOKp (p : Nat) : PyObj → Prop
  | .none => True
  | .bool _ => True
  | .int _ => True
  | .float f => p ≥ 1 ∨ PyFloatTextOK f
  | .str s => validUtf8 s = true
  | .bytes _ => True
  | .bytearray s => s.length < 2 ^ 32
  | .tuple xs => pyOKpList p xs
  | .list xs => pyOKpList p xs
  | .dict kvs => pyOKpPairs p kvs ∧ ((pyOfPairs kvs).all fun e => pyHashable e.1) = true ∧ nanKeys (pyOfPairs kvs) ≤ 1
def pyOKpList (p : Nat) : List PyObj → Prop
  | [] => True
  | x :: xs => pyOKp p x ∧ pyOKpList p xs
def pyOKpPairs (p : Nat) : List (PyObj × PyObj) → Prop
  | [] => True
  | (k, v) :: r => pyOKp p k ∧ pyOKp p v ∧ pyOKpPairs p r
end

mutual
/-- The decidable part of `pyOKp` (everything but the protocol-0 float text). -/
def pyOKb : PyObj → Bool
  | .none => true
  | .bool _ => true
  | .int _ => true
  | .float _ => true
  | .str s => validUtf8 s
  | .bytes _ => true
  | .bytearray s => decide (s.length < 2 ^ 32)
  | .tuple xs => pyOKbList xs
  | .list xs => pyOKbList xs
  | .dict kvs => pyOKbPairs kvs && ((pyOfPairs kvs).all fun e => pyHashable e.1) && decide (nanKeys (pyOfPairs kvs) ≤ 1)
def pyOKbList : List PyObj → Bool
  | [] => true
  | x :: xs => pyOKb x && pyOKbList xs
def pyOKbPairs : List (PyObj × PyObj) → Bool
  | [] => true
  | (k, v) :: r => pyOKb k && pyOKb v && pyOKbPairs r
end

mutual
theorem pyOKp_of_b (p : Nat) (hp : p ≥ 1) : (v : PyObj) → pyOKb v = true → pyOKp p v
  | .none, _ | .bool _, _ | .int _, _ | .bytes _, _ => by simp [pyOKp]
  | .float _, _ => by simp only [pyOKp]; exact Or.inl hp
  | .str s, h => by simpa [pyOKp, pyOKb] using h
  | .bytearray s, h => by simpa [pyOKp, pyOKb] using h
  | .tuple xs, h => by simp only [pyOKp]; exact pyOKpList_of_b p hp xs (by simpa [pyOKb] using h)
  | .list xs, h => by simp only [pyOKp]; exact pyOKpList_of_b p hp xs (by simpa [pyOKb] using h)
  | .dict kvs, h => by
    simp only [pyOKb, Bool.and_eq_true, decide_eq_true_eq] at h
    simp only [pyOKp]
    exact ⟨pyOKpPairs_of_b p hp kvs h.1.1, h.1.2, h.2⟩
theorem pyOKpList_of_b (p : Nat) (hp : p ≥ 1) : (xs : List PyObj) → pyOKbList xs = true → pyOKpList p xs
  | [], _ => by simp [pyOKpList]
  | x :: xs, h => by
    simp only [pyOKbList, Bool.and_eq_true] at h
    simp only [pyOKpList]
    exact ⟨pyOKp_of_b p hp x h.1, pyOKpList_of_b p hp xs h.2⟩
theorem pyOKpPairs_of_b (p : Nat) (hp : p ≥ 1) : (kvs : List (PyObj × PyObj)) → pyOKbPairs kvs = true → pyOKpPairs p kvs
  | [], _ => by simp [pyOKpPairs]
  | (k, v) :: r, h => by
    simp only [pyOKbPairs, Bool.and_eq_true] at h
    simp only [pyOKpPairs]
    exact ⟨pyOKp_of_b p hp k h.1.1, pyOKp_of_b p hp v h.1.2, pyOKpPairs_of_b p hp r h.2⟩
end

/-! ### what the scalar forms parse as -/

theorem parses_long1 (k : Nat) (i : Int) (hk : 0 < k) (hk2 : k < 256) (hf : fitsTwos k i = true) :
    Parses (0x8a :: UInt8.ofNat k :: twos k i) [.pushBig i] := by
  apply Parses.single rfl
  intro t
  simp only [fitsTwos, Bool.and_eq_true, decide_eq_true_eq] at hf
  have hl : (twos k i).length = k := by unfold twos; exact natLE_length _ _
  have hkb : (UInt8.ofNat k).toNat = k := by simp [UInt8.toNat_ofNat']; omega
  have hc := copyN_exact (twos k i) t
  rw [hl] at hc
  simp [parseInsn, Rd.bind, readByte, parseArg_138, Rd.map, Rd.pure, readCounted1, hkb, hc, decodeLong_twos k i hk hf.1 hf.2]

/-- `save_long`: some instruction that pushes the integer. -/
theorem parses_cpInt (p : Nat) (i : Int) (b : Bytes) (h : cpInt p i = some b) :
    Parses b [.pushInt i] ∨ Parses b [.pushBig i] := by
  unfold cpInt at h
  by_cases hf : fits32 i = true
  · simp only [hf, if_true, Option.some.injEq] at h
    subst h
    exact Or.inl (parses_int (ecfg p) i (fits32_inInt64 hf))
  · simp only [hf, Bool.false_eq_true, if_false] at h
    by_cases h2 : p ≥ 2
    · simp only [h2, if_true] at h
      by_cases hk : long1Width i < 256
      · simp only [hk, if_true, Option.some.injEq] at h
        subst h
        obtain ⟨hfit, hpos⟩ := long1Width_fits i
        exact Or.inr (parses_long1 _ i hpos hk hfit)
      · simp [hk] at h
    · simp only [h2, if_false, Option.some.injEq] at h
      subst h
      exact Or.inr (parses_long i)

theorem parses_cpFloat (p : Nat) (f : F64) (hok : p ≥ 1 ∨ PyFloatTextOK f) : Parses (cpFloat p f) [.pushFloat f] := by
  unfold cpFloat
  by_cases hp : p ≥ 1
  · simp only [hp, if_true]
    have hp' : (ecfg p).proto ≥ 1 := (ecfg_ge p 1).mpr hp
    have := parses_float_bin (ecfg p) f hp'
    simpa [encodeFloat, hp', flat_emit] using this
  · simp only [hp, if_false]
    obtain ⟨hparse, hlf⟩ := hok.resolve_left hp
    apply Parses.single rfl
    intro t
    have e : (70 :: pyFloatRepr f ++ [10]) ++ t = 70 :: (pyFloatRepr f ++ 10 :: t) := by simp
    rw [e]
    simp only [parseInsn, Rd.bind, readByte, parseArg_70, Rd.mapE, readLine_line _ _ hlf, hparse, Rd.pure]

theorem parses_cpBytes (p : Nat) (s b : Bytes) (h : cpBytes p s = some b) : Parses b [.pushBytes s] := by
  unfold cpBytes at h
  by_cases hc : p ≥ 3 ∧ s.length < 2 ^ 32
  · simp only [hc, and_self, if_true, Option.some.injEq] at h
    subst h
    have hp' : (ecfg p).proto ≥ 3 := (ecfg_ge p 3).mpr hc.1
    have hpar := parses_bytes_hi (fun _ => false) (ecfg p) s hp' hc.2
    have e : flat (encodeBytes (fun _ => false) (ecfg p) s) =
        (if s.length < 256 then [67, UInt8.ofNat s.length] else 66 :: le4 s.length) ++ s := by
      simp only [encodeBytes, hp', if_true]
      split <;> simp [flat, Out.seq, emit]
    rw [e] at hpar
    exact hpar
  · simp [hc] at h

theorem parses_cpBytearray (p : Nat) (s b : Bytes) (hl : s.length < 2 ^ 32) (h : cpBytearray p s = some b) :
    Parses b [.pushBytearray s] := by
  unfold cpBytearray at h
  by_cases hc : p ≥ 5
  · simp only [hc, if_true, Option.some.injEq] at h
    subst h
    have hp' : (ecfg p).proto ≥ 5 := (ecfg_ge p 5).mpr hc
    have hpar := parses_bytearray_hi (fun _ => false) (ecfg p) s hp' hl
    have e : flat (encodeByteArray (fun _ => false) (ecfg p) s) = 0x96 :: le8 s.length ++ s := by
      simp [encodeByteArray, hp', flat, Out.seq, emit]
    rw [e] at hpar
    exact hpar
  · simp [hc] at h

section
variable {c : ECfg} {mz : Option PKey → Bool}

/-- The fragment pushes one value for which `P` holds in the (unchanged) heap. -/
def PPushesV (c : ECfg) (p : Nat) (bs : Bytes) (P : List PObj → PyVal → Prop) (s s' : PSt) : Prop :=
  PRunsP c bs (PMemoInv p s) (fun st st' => PMemoInv p s' st' ∧ (∃ v, st'.stack = v :: st.stack ∧ P st.heap v) ∧
    st'.metas = st.metas ∧ st'.heap = st.heap)

theorem PPushesV.toG {p : Nat} {bs : Bytes} {P : List PObj → PyVal → Prop} {v : PyVal} {s s' : PSt} (h : PPushesV c p bs P s s')
    (hr : ∀ n hp r, P hp r → PRepG n hp r v) : PPushesG c p bs v s s' := by
  refine PRunsP.weaken h (fun _ h => h) ?_
  intro st st' _ _ ⟨hj, ⟨r, hs, hP⟩, hm, hh⟩
  exact ⟨hj, r, hs, hm, by rw [hh]; exact hr _ _ _ hP, PKeepsH.of_eq hh⟩

theorem PPushesV.put {p : Nat} {bs pb : Bytes} {P : List PObj → PyVal → Prop} {s s1 s2 : PSt} {vp : List PObj → PyVal → Prop}
    (h : PPushesV c p bs P s s1) (hput : PPutOK c p pb vp s1 s2) (hv : ∀ hp r, P hp r → vp hp r) :
    PPushesV c p (bs ++ pb) P s s2 := by
  refine PRunsP.weaken (PRunsP.seq h hput ?_) (fun _ h => h) ?_
  · intro st st1 _ _ ⟨hj, ⟨r, hs, hP⟩, _, hh⟩
    exact ⟨hj, r, st.stack, hs, by rw [hh]; exact hv _ _ hP⟩
  · intro st st2 _ _ ⟨st1, _, ⟨_, ⟨r, hs, hP⟩, hm, hh⟩, hj2, hs2, hm2, hh2⟩
    exact ⟨hj2, ⟨r, by rw [hs2, hs], hP⟩, by rw [hm2, hm], by rw [hh2, hh]⟩

theorem PPushesV.one {p : Nat} {bs : Bytes} {i : Insn} (r : PyVal) (P : List PObj → PyVal → Prop) (s : PSt)
    (hp : Parses bs [i]) (he : ∀ st, pexec i st = .ok (ppush st r)) (hr : ∀ h, P h r)
    (hnf : i.isFrame = false := by rfl) : PPushesV c p bs P s s := by
  refine PRunsP.one hp ?_ hnf
  intro st _ hj
  exact ⟨ppush st r, he st, rfl, hj.stable rfl (KeepsBA.refl _), ⟨r, rfl, hr _⟩, rfl, rfl⟩

theorem pexec_str (txt : Bytes) (hv : validUtf8 txt = true) (st : PState) : pexec (.pushStr txt) st = .ok (ppush st (.str txt)) :=
  pexec_pushStr txt hv st

/-- `save_unicode` with the memo, on the Python machine. -/
theorem psaveStrS_okV (p : Nat) (s s' : PSt) (key putKey : Option PKey) (txt b : Bytes) (hv : validUtf8 txt = true)
    (hkey : ∀ k, key = some k → ∀ h r, PHolds p h k r ↔ r = .str txt)
    (hpk : ∀ k, putKey = some k → ∀ h r, PHolds p h k r ↔ r = .str txt) (h : saveStrS mz p s key putKey txt = some (b, s')) :
    PPushesV c p b (fun _ r => r = .str txt) s s' := by
  unfold saveStrS at h
  cases hfind : key.bind s.find with
  | some idx =>
    simp only [hfind, Option.some.injEq, Prod.mk.injEq] at h
    obtain ⟨rfl, rfl⟩ := h
    cases key with
    | none => simp at hfind
    | some k =>
      simp only [Option.bind_some] at hfind
      refine PRunsP.weaken (pruns_get (c := c) p s k idx hfind) (fun _ h => h) ?_
      intro st st' _ _ ⟨hj, ⟨v, hs, hh⟩, hm, hhp⟩
      exact ⟨hj, ⟨v, hs, (hkey k rfl _ _).mp hh⟩, hm, hhp⟩
  | none =>
    simp only [hfind] at h
    cases hcs : cpStr p txt with
    | none => simp [hcs] at h
    | some b0 =>
      simp only [hcs] at h
      cases hput : putS mz p s putKey with
      | none => simp [hput] at h
      | some r =>
        obtain ⟨pb, s1⟩ := r
        simp only [hput, Option.some.injEq, Prod.mk.injEq] at h
        obtain ⟨rfl, rfl⟩ := h
        have hvv : PPushesV c p b0 (fun _ r => r = .str txt) s s :=
          PPushesV.one (.str txt) _ s (parses_cpStr p txt b0 hcs) (pexec_str txt hv) (fun _ => rfl)
        exact hvv.put (pputOK_S p s s1 putKey pb hput) (fun hp r hr k hk => (hpk k hk hp r).mpr hr)

theorem pyUtf8Valid_const (m : Bytes) (h : validUtf8 m = true) : pyUtf8Valid false m = true := pyUtf8Valid_of_valid false m h

/-- `save_global` of one of the builtins, on the Python machine. -/
theorem psaveGlobalS_ok (p : Nat) (s s' : PSt) (key : PKey) (m n b : Bytes)
    (hkey : ∀ h r, PHolds p h key r ↔ r = .glob m n)
    (hm : (10 : UInt8) ∉ m) (hn : (10 : UInt8) ∉ n) (hvm : validUtf8 m = true) (hvn : validUtf8 n = true)
    (h : saveGlobalS mz p s key m n = some (b, s')) :
    PPushesV c p b (fun _ r => r = .glob m n) s s' := by
  unfold saveGlobalS at h
  cases hfind : s.find key with
  | some idx =>
    simp only [hfind, Option.some.injEq, Prod.mk.injEq] at h
    obtain ⟨rfl, rfl⟩ := h
    refine PRunsP.weaken (pruns_get (c := c) p s key idx hfind) (fun _ h => h) ?_
    intro st st' _ _ ⟨hj, ⟨v, hs, hh⟩, hm', hhp⟩
    exact ⟨hj, ⟨v, hs, (hkey _ _).mp hh⟩, hm', hhp⟩
  | none =>
    simp only [hfind] at h
    by_cases h4 : p ≥ 4
    · simp only [h4, if_true] at h
      cases h1 : saveStrS mz p s none none m with
      | none => simp [h1] at h
      | some r1 =>
        obtain ⟨b1, s1⟩ := r1
        simp only [h1] at h
        cases h2 : saveStrS mz p s1 none none n with
        | none => simp [h2] at h
        | some r2 =>
          obtain ⟨b2, s2⟩ := r2
          simp only [h2] at h
          cases hput : putS mz p s2 (some key) with
          | none => simp [hput] at h
          | some r3 =>
            obtain ⟨pb, s3⟩ := r3
            simp only [hput, Option.some.injEq, Prod.mk.injEq] at h
            obtain ⟨rfl, rfl⟩ := h
            have hs1 := psaveStrS_okV (c := c) p s s1 none none m b1 hvm (fun _ hk => by cases hk) (fun _ hk => by cases hk) h1
            have hs2 := psaveStrS_okV (c := c) p s1 s2 none none n b2 hvn (fun _ hk => by cases hk) (fun _ hk => by cases hk) h2
            have hsg : PPushesV c p (b1 ++ b2 ++ [0x93]) (fun _ r => r = .glob m n) s s2 := by
              refine PRunsP.snoc (PRunsP.seq hs1 hs2 (fun _ _ _ _ q => q.1)) (parses_op 0x93 .stackGlobal rfl parseArg_147) ?_
              intro st st2 _ _ _ ⟨st1, _, ⟨_, ⟨r1, hst1, e1⟩, hm1, hh1⟩, hj2, ⟨r2, hst2, e2⟩, hm2, hh2⟩
              subst e1; subst e2
              have hst : st2.stack = .str n :: .str m :: st.stack := by rw [hst2, hst1]
              refine ⟨{ st2 with stack := .glob m n :: st.stack }, ?_, rfl, hj2.stable rfl (KeepsBA.refl _), ⟨_, rfl, rfl⟩,
                by rw [← hm1, ← hm2], by rw [← hh1, ← hh2]⟩
              simp [pexec, hst, pyUtf8Valid_const m hvm, pyUtf8Valid_const n hvn]
            exact hsg.put (pputOK_S p s2 s3 (some key) pb hput)
              (fun hp r hr k hk => by injection hk with hk; subst hk; exact (hkey hp r).mpr hr)
    · simp only [h4, if_false] at h
      cases hput : putS mz p s (some key) with
      | none => simp [hput] at h
      | some r3 =>
        obtain ⟨pb, s3⟩ := r3
        simp only [hput, Option.some.injEq, Prod.mk.injEq] at h
        obtain ⟨rfl, rfl⟩ := h
        have hg : PPushesV c p (99 :: m ++ [10] ++ n ++ [10]) (fun _ r => r = .glob m n) s s :=
          PPushesV.one (.glob m n) _ s (parses_global m n hm hn)
            (fun st => by simp [pexec, pyUtf8Valid_const m hvm, pyUtf8Valid_const n hvn]) (fun _ => rfl)
        exact hg.put (pputOK_S p s s3 (some key) pb hput)
          (fun hp r hr k hk => by injection hk with hk; subst hk; exact (hkey hp r).mpr hr)

end


/-! ### REDUCE of the three callables CPython executes -/

section
variable {c : ECfg}

theorem prepGList_nil {n : Nat} {h : List PObj} {rs : List PyVal} (hr : PRepGList n h rs []) : rs = [] := by
  cases rs with
  | nil => rfl
  | cons _ _ => simp [PRepGList] at hr

/-- `global, argument tuple, REDUCE` for a call CPython executes; the call may allocate (bytearray). -/
theorem ppushesG_reduce {p : Nat} {g ab : Bytes} {m n : Bytes} {xs : List PyVal} {res : PyVal} {s s1 s2 : PSt}
    (hg : PPushesV c p g (fun _ r => r = .glob m n) s s1) (ha : PPushesG c p ab (.tuple xs) s1 s2)
    (hcall : ∀ (st : PState) rs nn, PProtoOK c st → PRepGList nn st.heap rs xs →
      ∃ t rv, pyCallGlob st m n rs = .ok ({ st with heap := st.heap ++ t }, rv) ∧ ∀ n', PRepG n' (st.heap ++ t) rv res) :
    PPushesG c p (g ++ ab ++ [82]) res s s2 := by
  refine PRunsP.snoc (PRunsP.seq hg ha (fun _ _ _ _ q => q.1)) (parses_op 82 .reduce rfl parseArg_82) ?_
  intro st st2 hpo _ _ ⟨st1, _, ⟨_, ⟨r1, hs1, e1⟩, hm1, hh1⟩, hj2, r, hs2, hm2, hr, hk⟩
  subst e1
  simp only [PRepG] at hr
  obtain ⟨rs, rfl, hrl⟩ := hr
  have hst : st2.stack = .tuple rs :: .glob m n :: st.stack := by rw [hs2, hs1]
  obtain ⟨t, rv, hc, hrv⟩ := hcall st2 rs _ hpo hrl
  refine ⟨{ st2 with heap := st2.heap ++ t, stack := rv :: st.stack }, ?_, rfl, hj2.stable rfl (KeepsBA.append _ _),
    rv, rfl, by rw [← hm1]; exact hm2, hrv _, ?_⟩
  · simp [pexec, hst, pyArgs, pyCall, hc, bind, Except.bind, pure, Except.pure]
  · have hk' : PKeepsH st st2 := by
      unfold PKeepsH at hk ⊢
      rw [hh1] at hk; exact hk
    exact hk'.trans (PKeepsH.of_append (st := st2) rfl)

theorem pprotoOK_mod {p : Nat} {st : PState} (h : PProtoOK (ecfg p) st) : pyExecModule st.proto = pybuiltinModuleE p := h

theorem ppushesG_emptyTuple (p : Nat) (s : PSt) : PPushesG c p (emptyTupleBytes p) (.tuple []) s s := by
  unfold emptyTupleBytes
  split
  · exact PPushesG.one (.tuple []) _ s (parses_op 41 .emptyTuple rfl parseArg_41) (fun _ => rfl)
      (fun _ _ => by simp only [PRepG]; exact ⟨[], rfl, by simp [PRepGList]⟩)
  · exact ppushesG_tupleMark [] [] (PPushesGN.nil p s)

theorem pyExecModule_valid (p : Int) : validUtf8 (pybuiltinModuleE p) = true := by
  unfold pybuiltinModuleE; split <;> decide

theorem pyExecModule_noLF (p : Int) : (10 : UInt8) ∉ pybuiltinModuleE p := by
  unfold pybuiltinModuleE; split <;> decide

end

section
variable {p : Nat} {mz : Option PKey → Bool}

/-- `save_bytes` with the memo, on the Python machine. -/
theorem psaveBytesS_ok (s s' : PSt) (key : Option PKey) (d b : Bytes)
    (hkey : ∀ k, key = some k → ∀ h r, PHolds p h k r ↔ r = .bytes d) (h : saveBytesS mz p s key d = some (b, s')) :
    PPushesG (ecfg p) p b (.bytes d) s s' := by
  have hvp : ∀ (n : Nat) (hp : List PObj) (r : PyVal), PRepG n hp r (.bytes d) → ∀ k, key = some k → PHolds p hp k r := by
    intro n hp r hr k hk
    simp only [PRepG] at hr
    exact (hkey k hk hp r).mpr hr
  unfold saveBytesS at h
  cases hfind : key.bind s.find with
  | some idx =>
    simp only [hfind, Option.some.injEq, Prod.mk.injEq] at h
    obtain ⟨rfl, rfl⟩ := h
    cases key with
    | none => simp at hfind
    | some k =>
      simp only [Option.bind_some] at hfind
      have hv : PPushesV (ecfg p) p (cpGet p idx) (fun _ r => r = .bytes d) s s := by
        refine PRunsP.weaken (pruns_get (c := ecfg p) p s k idx hfind) (fun _ h => h) ?_
        intro st st' _ _ ⟨hj, ⟨v, hs, hh⟩, hm, hhp⟩
        exact ⟨hj, ⟨v, hs, (hkey k rfl _ _).mp hh⟩, hm, hhp⟩
      exact hv.toG (fun n hp r hr => by simp only [PRepG]; exact hr)
  | none =>
    simp only [hfind] at h
    by_cases h3 : p ≥ 3
    · simp only [h3, if_true] at h
      cases hcb : cpBytes p d with
      | none => simp [hcb] at h
      | some b0 =>
        simp only [hcb] at h
        cases hput : putS mz p s key with
        | none => simp [hput] at h
        | some r =>
          obtain ⟨pb, s1⟩ := r
          simp only [hput, Option.some.injEq, Prod.mk.injEq] at h
          obtain ⟨rfl, rfl⟩ := h
          exact (PPushesG.one (.bytes d) _ s (parses_cpBytes p d b0 hcb) (fun _ => rfl) (fun _ _ => by simp [PRepG])).put
            (pputOK_S p s s1 key pb hput) hvp
    · simp only [h3, if_false] at h
      by_cases hemp : d.isEmpty = true
      · have hd : d = [] := List.isEmpty_iff.mp hemp
        subst hd
        simp only [List.isEmpty_nil, if_true] at h
        cases hg : saveGlobalS mz p s .gBytes (pybuiltinModuleE p) (sb "bytes") with
        | none => simp [hg] at h
        | some r1 =>
          obtain ⟨g, s1⟩ := r1
          simp only [hg] at h
          cases hput : putS mz p s1 key with
          | none => simp [hput] at h
          | some r2 =>
            obtain ⟨pb, s2⟩ := r2
            simp only [hput, Option.some.injEq, Prod.mk.injEq] at h
            obtain ⟨rfl, rfl⟩ := h
            have hgv := psaveGlobalS_ok (c := ecfg p) p s s1 .gBytes (pybuiltinModuleE p) (sb "bytes") g (fun _ _ => Iff.rfl)
              (pyExecModule_noLF _) (by decide) (pyExecModule_valid _) (by decide) hg
            have hred := ppushesG_reduce (res := .bytes []) hgv (ppushesG_emptyTuple p s1) (by
              intro st rs nn hpo hrl
              have := prepGList_nil hrl; subst this
              refine ⟨[], .bytes [], ?_, fun _ => by simp [PRepG]⟩
              rw [← pprotoOK_mod hpo]
              simp [pyCallGlob, pyExecModule_ne_codecs])
            exact hred.put (pputOK_S p s1 s2 key pb hput) hvp
      · simp only [hemp, Bool.false_eq_true, if_false] at h
        cases hg : saveGlobalS mz p s .gEncode (sb "_codecs") (sb "encode") with
        | none => simp [hg] at h
        | some r1 =>
          obtain ⟨g, s1⟩ := r1
          simp only [hg] at h
          cases h1 : saveStrS mz p s1 none none (latin1ToUtf8 d) with
          | none => simp [h1] at h
          | some r2 =>
            obtain ⟨b1, s2⟩ := r2
            simp only [h1] at h
            cases h2 : saveStrS mz p s2 (some .sLatin1) (some .sLatin1) (sb "latin1") with
            | none => simp [h2] at h
            | some r3 =>
              obtain ⟨b2, s3⟩ := r3
              simp only [h2] at h
              cases hpt : putS mz p s3 none with
              | none => simp [hpt] at h
              | some r4 =>
                obtain ⟨pt, s4⟩ := r4
                simp only [hpt] at h
                cases hput : putS mz p s4 key with
                | none => simp [hput] at h
                | some r5 =>
                  obtain ⟨pb, s5⟩ := r5
                  simp only [hput, Option.some.injEq, Prod.mk.injEq] at h
                  obtain ⟨rfl, rfl⟩ := h
                  have hgv := psaveGlobalS_ok (c := ecfg p) p s s1 .gEncode (sb "_codecs") (sb "encode") g (fun _ _ => Iff.rfl)
                    (by decide) (by decide) (by decide) (by decide) hg
                  have hs1 := (psaveStrS_okV (c := ecfg p) p s1 s2 none none (latin1ToUtf8 d) b1 (validUtf8_latin1 d) (fun _ hk => by cases hk) (fun _ hk => by cases hk) h1).toG
                    (v := .str (latin1ToUtf8 d)) (fun n hp r hr => by simp only [PRepG]; exact hr)
                  have hs2 := (psaveStrS_okV (c := ecfg p) p s2 s3 (some .sLatin1) (some .sLatin1) (sb "latin1") b2 (by decide)
                    (fun k hk => by injection hk with hk; subst hk; exact fun _ _ => Iff.rfl)
                    (fun k hk => by injection hk with hk; subst hk; exact fun _ _ => Iff.rfl) h2).toG
                    (v := .str (sb "latin1")) (fun n hp r hr => by simp only [PRepG]; exact hr)
                  have hitems : PPushesGN (ecfg p) p (b1 ++ b2) [.str (latin1ToUtf8 d), .str (sb "latin1")] s1 s3 := by
                    simpa using PPushesGN.append hs1.toN hs2.toN
                  have hargs : PPushesG (ecfg p) p
                      ((if p ≥ 2 then [] else [40]) ++ (b1 ++ b2) ++ [if p ≥ 2 then 0x86 else 116] ++ pt)
                      (.tuple [.str (latin1ToUtf8 d), .str (sb "latin1")]) s1 s4 := by
                    by_cases h2' : p ≥ 2
                    · simp only [h2', if_true, List.nil_append]
                      have := (ppushesG_tupleN [.str (latin1ToUtf8 d), .str (sb "latin1")] (by simp) (by simp) _ hitems).put
                        (pputOK_S p s3 s4 none pt hpt) (fun _ _ _ _ k hk => by cases hk)
                      exact ppushesG_of_eq this (by simp)
                    · simp only [h2', if_false]
                      have := (ppushesG_tupleMark [.str (latin1ToUtf8 d), .str (sb "latin1")] _ hitems).put
                        (pputOK_S p s3 s4 none pt hpt) (fun _ _ _ _ k hk => by cases hk)
                      exact ppushesG_of_eq this (by simp)
                  have hred := ppushesG_reduce (res := .bytes d) hgv hargs (by
                    intro st rs nn hpo hrl
                    have hrs : rs = [.str (latin1ToUtf8 d), .str (sb "latin1")] := by
                      match rs, hrl with
                      | [a, b], hrl =>
                        simp only [PRepGList, PRepG] at hrl
                        rw [hrl.1, hrl.2.1]
                      | [], hrl => simp [PRepGList] at hrl
                      | [_], hrl => simp [PRepGList] at hrl
                      | _ :: _ :: _ :: _, hrl => simp [PRepGList] at hrl
                    subst hrs
                    refine ⟨[], .bytes d, ?_, fun _ => by simp [PRepG]⟩
                    simp [pyCallGlob, pyCodecsEncode, pyTextOf, isLatin1Name, pyLatin1Encode_latin1])
                  exact ppushesG_of_eq (hred.put (pputOK_S p s4 s5 key pb hput) hvp) (by simp)

/-- `save_bytearray` with the memo, on the Python machine: a new heap object, or the one memoized. -/
theorem psaveBytearrayS_ok (s s' : PSt) (key : Option PKey) (d b : Bytes) (hl : d.length < 2 ^ 32)
    (hkey : ∀ k, key = some k → ∀ h r, PHolds p h k r ↔ ∃ id, r = .obj id ∧ h[id]? = some (.bytearray d))
    (h : saveBytearrayS mz p s key d = some (b, s')) :
    PPushesG (ecfg p) p b (.bytearray d) s s' := by
  have hvp : ∀ (n : Nat) (hp : List PObj) (r : PyVal), PRepG n hp r (.bytearray d) → ∀ k, key = some k → PHolds p hp k r := by
    intro n hp r hr k hk
    simp only [PRepG] at hr
    exact (hkey k hk hp r).mpr hr
  unfold saveBytearrayS at h
  cases hfind : key.bind s.find with
  | some idx =>
    simp only [hfind, Option.some.injEq, Prod.mk.injEq] at h
    obtain ⟨rfl, rfl⟩ := h
    cases key with
    | none => simp at hfind
    | some k =>
      simp only [Option.bind_some] at hfind
      have hv : PPushesV (ecfg p) p (cpGet p idx) (fun h r => ∃ id, r = .obj id ∧ h[id]? = some (.bytearray d)) s s := by
        refine PRunsP.weaken (pruns_get (c := ecfg p) p s k idx hfind) (fun _ h => h) ?_
        intro st st' _ _ ⟨hj, ⟨v, hs, hh⟩, hm, hhp⟩
        exact ⟨hj, ⟨v, hs, (hkey k rfl _ _).mp hh⟩, hm, hhp⟩
      exact hv.toG (fun n hp r hr => by simp only [PRepG]; exact hr)
  | none =>
    simp only [hfind] at h
    by_cases h5 : p ≥ 5
    · simp only [h5, if_true] at h
      cases hcb : cpBytearray p d with
      | none => simp [hcb] at h
      | some b0 =>
        simp only [hcb] at h
        cases hput : putS mz p s key with
        | none => simp [hput] at h
        | some r =>
          obtain ⟨pb, s1⟩ := r
          simp only [hput, Option.some.injEq, Prod.mk.injEq] at h
          obtain ⟨rfl, rfl⟩ := h
          have hnat : PPushesG (ecfg p) p b0 (.bytearray d) s s := by
            refine PRunsP.one (parses_cpBytearray p d b0 hl hcb) ?_
            intro st _ hj
            refine ⟨ppush { st with heap := st.heap ++ [.bytearray d] } (.obj st.heap.length), by simp [pexec, palloc], rfl,
              hj.stable rfl (KeepsBA.append _ _), .obj st.heap.length, rfl, rfl, ?_, PKeepsH.of_append (t := [.bytearray d]) rfl⟩
            simp only [PRepG]
            exact ⟨st.heap.length, rfl, by simp [ppush]⟩
          exact hnat.put (pputOK_S p s s1 key pb hput) hvp
    · simp only [h5, if_false] at h
      cases hg : saveGlobalS mz p s .gBytearray (pybuiltinModuleE p) (sb "bytearray") with
      | none => simp [hg] at h
      | some r1 =>
        obtain ⟨g, s1⟩ := r1
        simp only [hg] at h
        have hgv := psaveGlobalS_ok (c := ecfg p) p s s1 .gBytearray (pybuiltinModuleE p) (sb "bytearray") g (fun _ _ => Iff.rfl)
          (pyExecModule_noLF _) (by decide) (pyExecModule_valid _) (by decide) hg
        have hcallBA : ∀ (args : List PyVal) (dd : Bytes), pyBytearrayOf args = .ok dd → ∀ (st : PState), PProtoOK (ecfg p) st →
            pyCallGlob st (pybuiltinModuleE p) (sb "bytearray") args =
              .ok ({ st with heap := st.heap ++ [.bytearray dd] }, .obj st.heap.length) := by
          intro args dd hba st hpo
          rw [← pprotoOK_mod hpo]
          have hne2 : (sb "bytearray" == sb "bytes") = false := by decide
          simp [pyCallGlob, pyExecModule_ne_codecs, hne2, hba, palloc]
        by_cases hemp : d.isEmpty = true
        · have hd : d = [] := List.isEmpty_iff.mp hemp
          subst hd
          simp only [List.isEmpty_nil, if_true] at h
          cases hput : putS mz p s1 key with
          | none => simp [hput] at h
          | some r2 =>
            obtain ⟨pb, s2⟩ := r2
            simp only [hput, Option.some.injEq, Prod.mk.injEq] at h
            obtain ⟨rfl, rfl⟩ := h
            have hred := ppushesG_reduce (res := .bytearray []) hgv (ppushesG_emptyTuple p s1) (by
              intro st rs nn hpo hrl
              have := prepGList_nil hrl; subst this
              refine ⟨[.bytearray []], .obj st.heap.length, hcallBA [] [] rfl st hpo, fun _ => ?_⟩
              simp only [PRepG]
              exact ⟨st.heap.length, rfl, by simp⟩)
            exact hred.put (pputOK_S p s1 s2 key pb hput) hvp
        · simp only [hemp, Bool.false_eq_true, if_false] at h
          cases hb : saveBytesS mz p s1 none d with
          | none => simp [hb] at h
          | some r2 =>
            obtain ⟨bb, s2⟩ := r2
            simp only [hb] at h
            cases hpt : putS mz p s2 none with
            | none => simp [hpt] at h
            | some r3 =>
              obtain ⟨pt, s3⟩ := r3
              simp only [hpt] at h
              cases hput : putS mz p s3 key with
              | none => simp [hput] at h
              | some r4 =>
                obtain ⟨pb, s4⟩ := r4
                simp only [hput, Option.some.injEq, Prod.mk.injEq] at h
                obtain ⟨rfl, rfl⟩ := h
                have hbi := psaveBytesS_ok (p := p) s1 s2 none d bb (fun _ hk => by cases hk) hb
                have hargs : PPushesG (ecfg p) p
                    ((if p ≥ 2 then [] else [40]) ++ bb ++ [if p ≥ 2 then 0x85 else 116] ++ pt) (.tuple [.bytes d]) s1 s3 := by
                  by_cases h2' : p ≥ 2
                  · simp only [h2', if_true, List.nil_append]
                    have := (ppushesG_tupleN [.bytes d] (by simp) (by simp) _ hbi.toN).put
                      (pputOK_S p s2 s3 none pt hpt) (fun _ _ _ _ k hk => by cases hk)
                    exact ppushesG_of_eq this (by simp)
                  · simp only [h2', if_false]
                    have := (ppushesG_tupleMark [.bytes d] _ hbi.toN).put
                      (pputOK_S p s2 s3 none pt hpt) (fun _ _ _ _ k hk => by cases hk)
                    exact ppushesG_of_eq this (by simp)
                have hred := ppushesG_reduce (res := .bytearray d) hgv hargs (by
                  intro st rs nn hpo hrl
                  have hrs : rs = [.bytes d] := by
                    match rs, hrl with
                    | [a], hrl =>
                      simp only [PRepGList, PRepG] at hrl
                      rw [hrl.1]
                    | [], hrl => simp [PRepGList] at hrl
                    | _ :: _ :: _, hrl => simp [PRepGList] at hrl
                  subst hrs
                  refine ⟨[.bytearray d], .obj st.heap.length, hcallBA [.bytes d] d rfl st hpo, fun _ => ?_⟩
                  simp only [PRepG]
                  exact ⟨st.heap.length, rfl, by simp⟩)
                exact ppushesG_of_eq (hred.put (pputOK_S p s3 s4 key pb hput) hvp) (by simp)

end

end Ogorek
