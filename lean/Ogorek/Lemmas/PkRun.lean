import Ogorek.Lemmas.PvmDict
import Ogorek.Lemmas.PvmForms2
import Ogorek.CPickleS
import Ogorek.Lemmas.CPickleRun

/-!
  What the model of CPython's unpickler (`Ogorek/Pvm.lean`) makes of what the model of CPython's pickler
  (`Ogorek/CPickleS.lean`) writes: the run framework on the Python machine — straight-line runs with a
  precondition, and the representation relation with locality (lists and dicts are heap objects there, both
  filled in place by APPEND(S) / SETITEM(S)).  Mirrors `Lemmas/CPickleRun.lean` for og-rek's decoder.
-/
namespace Ogorek

def PRunsP (c : ECfg) (bs : Bytes) (Pre : PState → Prop) (Q : PState → PState → Prop) : Prop :=
  ∃ is, Parses bs is ∧ noFrame is = true ∧ ∀ st, PProtoOK c st → Pre st →
    ∃ st', prunFrom is st = .ok st' ∧ st'.proto = st.proto ∧ Q st st'

theorem PProtoOK.of_proto {c : ECfg} {st st' : PState} (h : PProtoOK c st) (e : st'.proto = st.proto) : PProtoOK c st' := by
  unfold PProtoOK at *; rw [e]; exact h

section
variable {c : ECfg}

theorem PRunsP.of_runs {bs : Bytes} {Q : PState → PState → Prop} (h : PRuns c bs Q) :
    PRunsP c bs (fun _ => True) (fun st st' => PFrame st st' ∧ Q st st') := by
  obtain ⟨is, hp, hnf, hr⟩ := h
  refine ⟨is, hp, hnf, fun st hpo _ => ?_⟩
  obtain ⟨st', e, f, q⟩ := hr st hpo
  exact ⟨st', e, f.proto, f, q⟩

theorem PRunsP.weaken {bs : Bytes} {P P' : PState → Prop} {Q Q' : PState → PState → Prop}
    (h : PRunsP c bs P Q) (hp : ∀ st, P' st → P st)
    (hq : ∀ st st', P' st → st'.proto = st.proto → Q st st' → Q' st st') : PRunsP c bs P' Q' := by
  obtain ⟨is, hpar, hnf, hr⟩ := h
  refine ⟨is, hpar, hnf, fun st hpo hpre => ?_⟩
  obtain ⟨st', e, f, q⟩ := hr st hpo (hp st hpre)
  exact ⟨st', e, f, hq st st' hpre f q⟩

theorem PRunsP.seq {b1 b2 : Bytes} {P1 P2 : PState → Prop} {Q1 Q2 : PState → PState → Prop}
    (h1 : PRunsP c b1 P1 Q1) (h2 : PRunsP c b2 P2 Q2)
    (hmid : ∀ st st1, P1 st → st1.proto = st.proto → Q1 st st1 → P2 st1) :
    PRunsP c (b1 ++ b2) P1 (fun st st2 => ∃ st1, st1.proto = st.proto ∧ Q1 st st1 ∧ Q2 st1 st2) := by
  obtain ⟨is1, hp1, hn1, hr1⟩ := h1
  obtain ⟨is2, hp2, hn2, hr2⟩ := h2
  refine ⟨is1 ++ is2, Parses.append hp1 hp2, by simp [noFrame_append, hn1, hn2], fun st hpo hpre => ?_⟩
  obtain ⟨st1, e1, f1, q1⟩ := hr1 st hpo hpre
  obtain ⟨st2, e2, f2, q2⟩ := hr2 st1 (hpo.of_proto f1) (hmid st st1 hpre f1 q1)
  refine ⟨st2, ?_, f2.trans f1, st1, f1, q1, q2⟩
  rw [prunFrom_append is1 is2 st st1 e1, e2]

theorem PRunsP.one {bs : Bytes} {i : Insn} {P : PState → Prop} {Q : PState → PState → Prop}
    (hp : Parses bs [i])
    (he : ∀ st, PProtoOK c st → P st → ∃ st', pexec i st = .ok st' ∧ st'.proto = st.proto ∧ Q st st')
    (hnf : i.isFrame = false := by rfl) :
    PRunsP c bs P Q := by
  refine ⟨[i], hp, by simp [noFrame, hnf], fun st hpo hpre => ?_⟩
  obtain ⟨st', e, f, q⟩ := he st hpo hpre
  exact ⟨st', by simp [prunFrom, e], f, q⟩

theorem PRunsP.nil {P : PState → Prop} : PRunsP c [] P (fun st st' => st' = st) :=
  ⟨[], Parses.nil, rfl, fun st _ _ => ⟨st, rfl, rfl, rfl⟩⟩

/-- A fragment followed by one instruction whose success depends on what the fragment established. -/
theorem PRunsP.snoc {b1 b2 : Bytes} {i : Insn} {P : PState → Prop} {Q1 Q : PState → PState → Prop}
    (h1 : PRunsP c b1 P Q1) (hp : Parses b2 [i])
    (he : ∀ st st', PProtoOK c st' → P st → st'.proto = st.proto → Q1 st st' →
      ∃ st'', pexec i st' = .ok st'' ∧ st''.proto = st'.proto ∧ Q st st'')
    (hnf : i.isFrame = false := by rfl) :
    PRunsP c (b1 ++ b2) P Q := by
  obtain ⟨is1, hp1, hn1, hr1⟩ := h1
  refine ⟨is1 ++ [i], Parses.append hp1 hp, by simp [noFrame_append, hn1, noFrame, hnf], fun st hpo hpre => ?_⟩
  obtain ⟨st1, e1, f1, q1⟩ := hr1 st hpo hpre
  obtain ⟨st2, e2, f2, q2⟩ := he st st1 (hpo.of_proto f1) hpre f1 q1
  refine ⟨st2, ?_, f2.trans f1, q2⟩
  rw [prunFrom_append is1 [i] st st1 e1]
  simp [prunFrom, e2]

/-- MARK, then a fragment: it runs in a fresh segment, the old one saved on the metastack. -/
theorem PRunsP.mark_then {b : Bytes} {P : PState → Prop} {Q : PState → PState → Prop} (h : PRunsP c b P Q) :
    PRunsP c (40 :: b) (fun st => P { st with stack := [], metas := st.stack :: st.metas })
      (fun st st' => Q { st with stack := [], metas := st.stack :: st.metas } st') := by
  obtain ⟨is, hp, hnf, hr⟩ := h
  refine ⟨.mark :: is, ?_, by simp [noFrame, hnf, Insn.isFrame], fun st hpo hpre => ?_⟩
  · have := Parses.append (parses_op 40 .mark rfl parseArg_40) hp
    simpa using this
  · obtain ⟨st', e, f, q⟩ := hr { st with stack := [], metas := st.stack :: st.metas } (hpo.of_proto rfl) hpre
    exact ⟨st', by simp [prunFrom, pexec, e], f, q⟩

end

/-! ### representation with locality -/

def PAgreeFrom (n : Nat) (h h' : List PObj) : Prop := ∀ i, n ≤ i → i < h.length → h'[i]? = h[i]?

theorem PAgreeFrom.refl (n : Nat) (h : List PObj) : PAgreeFrom n h h := fun _ _ _ => rfl

theorem PAgreeFrom.trans {n : Nat} {h1 h2 h3 : List PObj} (a : PAgreeFrom n h1 h2) (b : PAgreeFrom n h2 h3)
    (hl : h1.length ≤ h2.length) : PAgreeFrom n h1 h3 :=
  fun i hn hi => (b i hn (by omega)).trans (a i hn hi)

theorem PAgreeFrom.mono {n m : Nat} {h h' : List PObj} (a : PAgreeFrom n h h') (hm : n ≤ m) : PAgreeFrom m h h' :=
  fun i hn hi => a i (by omega) hi

theorem PAgreeFrom.set {n : Nat} (h : List PObj) (id : Nat) (o : PObj) (hid : id < n) : PAgreeFrom n h (h.set id o) := by
  intro i hn _
  rw [List.getElem?_set]
  have : ¬ id = i := by omega
  simp [this]

theorem PAgreeFrom.append (n : Nat) (h t : List PObj) : PAgreeFrom n h (h ++ t) :=
  fun i _ hi => List.getElem?_append_left hi

/-- Bytearray objects stay what they are (the machine never changes one; a bytearray fetched from the memo
    may be older than the container it is put into, so locality exempts them). -/
def KeepsBA (h h' : List PObj) : Prop := ∀ (i : Nat) (d : Bytes), h[i]? = some (PObj.bytearray d) → h'[i]? = some (PObj.bytearray d)

theorem KeepsBA.refl (h : List PObj) : KeepsBA h h := fun _ _ e => e

theorem KeepsBA.trans {h1 h2 h3 : List PObj} (a : KeepsBA h1 h2) (b : KeepsBA h2 h3) : KeepsBA h1 h3 :=
  fun i d e => b i d (a i d e)

theorem KeepsBA.append (h t : List PObj) : KeepsBA h (h ++ t) :=
  fun _ _ e => getElem?_append_of_some t e

theorem KeepsBA.set_list (h : List PObj) (id : Nat) (o : PObj) (ho : ∀ d, h[id]? ≠ some (.bytearray d)) : KeepsBA h (h.set id o) := by
  unfold KeepsBA
  intro i d e
  rw [List.getElem?_set]
  by_cases hi : id = i
  · subst hi; exact absurd e (ho d)
  · simp [hi, e]

mutual
/-- `PRep` with locality: every heap object the value refers to lies at an index `≥ n`. -/
def PRepG (n : Nat) (heap : List PObj) (r : PyVal) : PyVal → Prop
  | .none => r = .none
  | .bool b => r = .bool b
  | .int i => r = .int i
  | .float f => r = .float f
  | .str s => r = .str s
  | .str2 s => r = .str2 s
  | .bytes s => r = .bytes s
  | .glob m n' => r = .glob m n'
  | .tuple xs => ∃ rs, r = .tuple rs ∧ PRepGList n heap rs xs
  | .call _ _ => False
  | .pers _ => False
  | .list xs => ∃ id rs, r = .obj id ∧ n ≤ id ∧ heap[id]? = some (.list rs) ∧ PRepGList n heap rs xs
  | .dict kvs => ∃ id es, r = .obj id ∧ n ≤ id ∧ heap[id]? = some (.dict es) ∧ PRepGEntries n heap es kvs
  | .bytearray s => ∃ id, r = .obj id ∧ heap[id]? = some (.bytearray s)
  | .obj _ | .cycle => False
def PRepGList (n : Nat) (heap : List PObj) : List PyVal → List PyVal → Prop
  | [], [] => True
  | r :: rs, x :: xs => PRepG n heap r x ∧ PRepGList n heap rs xs
  | _, _ => False
def PRepGEntries (n : Nat) (heap : List PObj) : List (PyVal × PyVal) → List (PyVal × PyVal) → Prop
  | [], [] => True
  | (rk, rv) :: es, (k, v) :: kvs => rk = k ∧ PRepG n heap rv v ∧ PRepGEntries n heap es kvs
  | _, _ => False
end

mutual
theorem PRepG.congr {n m : Nat} {h h' : List PObj} (a : PAgreeFrom n h h') (hb : KeepsBA h h') (hm : m ≤ n) (r : PyVal) :
    (v : PyVal) → PRepG n h r v → PRepG m h' r v
  | .none, hr | .bool _, hr | .int _, hr | .float _, hr | .str _, hr | .str2 _, hr | .bytes _, hr | .glob _ _, hr => by
    simpa [PRepG] using hr
  | .obj _, hr | .cycle, hr | .call _ _, hr | .pers _, hr => by simp [PRepG] at hr
  | .tuple xs, hr => by
    simp only [PRepG] at hr ⊢
    obtain ⟨rs, e, hl⟩ := hr
    exact ⟨rs, e, PRepGList.congr a hb hm rs xs hl⟩
  | .list xs, hr => by
    simp only [PRepG] at hr ⊢
    obtain ⟨id, rs, e, hge, hg, hl⟩ := hr
    exact ⟨id, rs, e, by omega, (a id hge (getElem?_lt_of_some hg)).trans hg, PRepGList.congr a hb hm rs xs hl⟩
  | .dict kvs, hr => by
    simp only [PRepG] at hr ⊢
    obtain ⟨id, es, e, hge, hg, hp⟩ := hr
    exact ⟨id, es, e, by omega, (a id hge (getElem?_lt_of_some hg)).trans hg, PRepGEntries.congr a hb hm es kvs hp⟩
  | .bytearray s, hr => by
    simp only [PRepG] at hr ⊢
    obtain ⟨id, e, hg⟩ := hr
    exact ⟨id, e, hb id s hg⟩
theorem PRepGList.congr {n m : Nat} {h h' : List PObj} (a : PAgreeFrom n h h') (hb : KeepsBA h h') (hm : m ≤ n) :
    (rs xs : List PyVal) → PRepGList n h rs xs → PRepGList m h' rs xs
  | [], [], _ => by simp [PRepGList]
  | [], _ :: _, hr => by simp [PRepGList] at hr
  | _ :: _, [], hr => by simp [PRepGList] at hr
  | r :: rs, x :: xs, hr => by
    simp only [PRepGList] at hr ⊢
    exact ⟨PRepG.congr a hb hm r x hr.1, PRepGList.congr a hb hm rs xs hr.2⟩
theorem PRepGEntries.congr {n m : Nat} {h h' : List PObj} (a : PAgreeFrom n h h') (hb : KeepsBA h h') (hm : m ≤ n) :
    (es kvs : List (PyVal × PyVal)) → PRepGEntries n h es kvs → PRepGEntries m h' es kvs
  | [], [], _ => by simp [PRepGEntries]
  | [], _ :: _, hr => by simp [PRepGEntries] at hr
  | _ :: _, [], hr => by simp [PRepGEntries] at hr
  | (rk, rv) :: es, (k, v) :: kvs, hr => by
    simp only [PRepGEntries] at hr ⊢
    exact ⟨hr.1, PRepG.congr a hb hm rv v hr.2.1, PRepGEntries.congr a hb hm es kvs hr.2.2⟩
end

mutual
theorem PRepG.toRep {n : Nat} {h : List PObj} (r : PyVal) : (v : PyVal) → PRepG n h r v → PRep h r v
  | .none, hr | .bool _, hr | .int _, hr | .float _, hr | .str _, hr | .str2 _, hr | .bytes _, hr | .glob _ _, hr => by
    simpa [PRepG, PRep] using hr
  | .obj _, hr | .cycle, hr | .call _ _, hr | .pers _, hr => by simp [PRepG] at hr
  | .tuple xs, hr => by
    simp only [PRepG] at hr
    simp only [PRep]
    obtain ⟨rs, e, hl⟩ := hr
    exact ⟨rs, e, PRepGList.toRep rs xs hl⟩
  | .list xs, hr => by
    simp only [PRepG] at hr
    simp only [PRep]
    obtain ⟨id, rs, e, _, hg, hl⟩ := hr
    exact ⟨id, rs, e, hg, PRepGList.toRep rs xs hl⟩
  | .dict kvs, hr => by
    simp only [PRepG] at hr
    simp only [PRep]
    obtain ⟨id, es, e, _, hg, hp⟩ := hr
    exact ⟨id, es, e, hg, PRepGEntries.toRep es kvs hp⟩
  | .bytearray s, hr => by
    simp only [PRepG] at hr
    simp only [PRep]
    obtain ⟨id, e, hg⟩ := hr
    exact ⟨id, e, hg⟩
theorem PRepGList.toRep {n : Nat} {h : List PObj} : (rs xs : List PyVal) → PRepGList n h rs xs → PRepList h rs xs
  | [], [], _ => by simp [PRepList]
  | [], _ :: _, hr => by simp [PRepGList] at hr
  | _ :: _, [], hr => by simp [PRepGList] at hr
  | r :: rs, x :: xs, hr => by
    simp only [PRepGList] at hr
    simp only [PRepList]
    exact ⟨PRepG.toRep r x hr.1, PRepGList.toRep rs xs hr.2⟩
theorem PRepGEntries.toRep {n : Nat} {h : List PObj} : (es kvs : List (PyVal × PyVal)) → PRepGEntries n h es kvs → PRepEntries h es kvs
  | [], [], _ => by simp [PRepEntries]
  | [], _ :: _, hr => by simp [PRepGEntries] at hr
  | _ :: _, [], hr => by simp [PRepGEntries] at hr
  | (rk, rv) :: es, (k, v) :: kvs, hr => by
    simp only [PRepGEntries] at hr
    simp only [PRepEntries]
    exact ⟨hr.1, PRepG.toRep rv v hr.2.1, PRepGEntries.toRep es kvs hr.2.2⟩
end

theorem PRepGList.length {n : Nat} {h : List PObj} {rs xs : List PyVal} (hr : PRepGList n h rs xs) : rs.length = xs.length :=
  PRepList.length (PRepGList.toRep rs xs hr)

theorem PRepGList.append {n : Nat} {h : List PObj} : {rs1 rs2 xs1 xs2 : List PyVal} →
    PRepGList n h rs1 xs1 → PRepGList n h rs2 xs2 → PRepGList n h (rs1 ++ rs2) (xs1 ++ xs2)
  | [], _, [], _, _, h2 => by simpa using h2
  | [], _, _ :: _, _, h1, _ => by simp [PRepGList] at h1
  | _ :: _, _, [], _, h1, _ => by simp [PRepGList] at h1
  | _ :: _, _, _ :: _, _, h1, h2 => by
    simp only [PRepGList, List.cons_append] at h1 ⊢
    exact ⟨h1.1, PRepGList.append h1.2 h2⟩

end Ogorek
