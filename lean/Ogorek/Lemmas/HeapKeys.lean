import Ogorek.Decoder
import Ogorek.Props.C08

/-!
  The containers the decoder builds hold pairwise different, acceptable keys — in every reachable
  state (an invariant over all executions): what makes a decoded Dict / map re-encodable entry by entry.
-/
namespace Ogorek

/-- Entries as a table of this kind can hold them. -/
def EntriesOK (kind : HKind) (es : Entries) : Prop :=
  match kind with
  | .dict => (∀ e ∈ es, hashable e.1 = true) ∧ es.Pairwise (fun a b => goEqual b.1 a.1 = false)
  | .map => (∀ e ∈ es, goMapHashable e.1 = true) ∧ es.Pairwise (fun a b => goKeyEq b.1 a.1 = false)
  | .list => True

theorem EntriesOK.nil (kind : HKind) : EntriesOK kind [] := by
  cases kind <;> simp [EntriesOK]

theorem pairwise_snoc {α} {R : α → α → Prop} {l : List α} {x : α} (h : l.Pairwise R) (hx : ∀ a ∈ l, R a x) :
    (l ++ [x]).Pairwise R := by
  rw [List.pairwise_append]
  exact ⟨h, by simp, fun a ha b hb => by simp at hb; subst hb; exact hx a ha⟩

theorem EntriesOK.tryAssign {kind : HKind} {es es' : Entries} {k v : GoVal} (h : EntriesOK kind es)
    (ha : tryAssign kind es k v = some es') : EntriesOK kind es' := by
  cases kind with
  | dict =>
    simp only [Ogorek.tryAssign] at ha
    split at ha
    · rename_i hk
      simp only [Option.some.injEq] at ha; subst ha
      obtain ⟨h1, h2⟩ := h
      refine ⟨?_, ?_⟩
      · intro e he
        simp only [dictSetSpec, List.mem_append, List.mem_filter, List.mem_singleton] at he
        rcases he with he | he
        · exact h1 e he.1
        · subst he; exact hk
      · unfold dictSetSpec
        apply pairwise_snoc (h2.filter _)
        intro a ha'
        simp only [List.mem_filter, Bool.not_eq_true'] at ha'
        exact ha'.2
    · simp at ha
  | map =>
    simp only [Ogorek.tryAssign] at ha
    split at ha
    · rename_i hk
      simp only [Option.some.injEq] at ha; subst ha
      obtain ⟨h1, h2⟩ := h
      refine ⟨?_, ?_⟩
      · intro e he
        simp only [mapSet, List.mem_append, List.mem_filter, List.mem_singleton] at he
        rcases he with he | he
        · exact h1 e he.1
        · subst he; exact hk
      · unfold mapSet
        apply pairwise_snoc (h2.filter _)
        intro a ha'
        simp only [List.mem_filter, Bool.not_eq_true'] at ha'
        exact ha'.2
    · simp at ha
  | list =>
    simp only [Ogorek.tryAssign] at ha
    split at ha
    · trivial
    · simp at ha

theorem EntriesOK.assignAll {kind : HKind} : ∀ (items : List GoVal) {es es' : Entries}, EntriesOK kind es →
    assignAll kind es items = some es' → EntriesOK kind es'
  | [], es, es', h, ha => by simp [Ogorek.assignAll] at ha; subst ha; exact h
  | [_], es, es', h, ha => by simp [Ogorek.assignAll] at ha; subst ha; exact h
  | k :: v :: rest, es, es', h, ha => by
    simp only [Ogorek.assignAll] at ha
    cases ht : Ogorek.tryAssign kind es k v with
    | none => rw [ht] at ha; simp at ha
    | some es1 =>
      rw [ht] at ha
      exact EntriesOK.assignAll rest (h.tryAssign ht) ha

/-- A heap object: its entries are `EntriesOK`, and only list objects have list items. -/
def ObjOK (o : HObj) : Prop := EntriesOK o.kind o.kvs ∧ (o.kind ≠ .list → o.xs = [])

/-- The invariant: every container in the heap is `ObjOK`. -/
def HeapKeys (st : DState) : Prop := ∀ o ∈ st.heap, ObjOK o

end Ogorek

namespace Ogorek

theorem HeapKeys.of_heap_eq {st st' : DState} (h : HeapKeys st) (e : st'.heap = st.heap) : HeapKeys st' := by
  unfold HeapKeys at *; rw [e]; exact h

theorem HeapKeys.alloc {st : DState} (h : HeapKeys st) (o : HObj) (ho : ObjOK o) :
    HeapKeys (allocObj st o).1 := by
  intro x hx
  simp only [allocObj, List.mem_append, List.mem_singleton] at hx
  rcases hx with hx | hx
  · exact h x hx
  · subst hx; exact ho

theorem HeapKeys.heapSet {st : DState} (h : HeapKeys st) (id : Nat) (o : HObj) (ho : ObjOK o) :
    HeapKeys (Ogorek.heapSet st id o) := by
  intro x hx
  simp only [Ogorek.heapSet] at hx
  rcases List.mem_or_eq_of_mem_set hx with hx | hx
  · exact h x hx
  · subst hx; exact ho

theorem getElem?_mem {α} {l : List α} {i : Nat} {a : α} (h : l[i]? = some a) : a ∈ l :=
  List.mem_of_getElem? h

theorem pop_heap {st st' : DState} {v : GoVal} (h : pop st = .ok (v, st')) : st'.heap = st.heap := by
  unfold pop at h; split at h <;> simp at h; obtain ⟨_, rfl⟩ := h; rfl

theorem xpop_heap {st st' : DState} {v : GoVal} (h : xpop st = .ok (v, st')) : st'.heap = st.heap := by
  unfold xpop at h; split at h <;> simp at h; obtain ⟨_, rfl⟩ := h; rfl

theorem popUser_heap {st st' : DState} {v : GoVal} (h : popUser st = .ok (v, st')) : st'.heap = st.heap := by
  unfold popUser at h
  simp only [bind, Except.bind] at h
  cases hp : pop st with
  | error e => rw [hp] at h; simp at h
  | ok r =>
    rw [hp] at h
    obtain ⟨v1, st1⟩ := r
    simp only at h
    cases hu : userOK v1 with
    | error e => rw [hu] at h; simp at h
    | ok _ =>
      rw [hu] at h
      simp [pure, Except.pure] at h
      obtain ⟨_, rfl⟩ := h
      exact pop_heap hp

theorem handleRef_heap {hook : Hook} {st st' : DState} {r : GoVal} (h : handleRef hook st r = .ok st') : st'.heap = st.heap := by
  unfold handleRef at h
  split at h
  · simp [push] at h; subst h; rfl
  · simp only at h
    split at h <;> simp [push] at h <;> subst h <;> rfl

theorem listAppend_heapKeys {st st' : DState} {l l' : GoVal} {items : List GoVal} (hk : HeapKeys st)
    (h : listAppend st l items = some (st', l')) : HeapKeys st' := by
  unfold listAppend at h
  split at h
  · simp at h; obtain ⟨rfl, _⟩ := h; exact hk
  · split at h
    · rename_i o ho
      split at h
      · rename_i hlist
        simp at h; obtain ⟨rfl, _⟩ := h
        have hl : o.kind = .list := by simpa using hlist
        exact hk.heapSet _ _ ⟨(hk o (getElem?_mem ho)).1, fun hne => absurd hl hne⟩
      · simp at h
    · simp at h
  · simp at h

end Ogorek

namespace Ogorek

theorem exec_heapKeys (mc : MCfg) (hook : Hook) (i : Insn) (pos : Nat) (st st' : DState) (hk : HeapKeys st)
    (he : exec mc hook i pos st = .ok st') : HeapKeys st' := by
  cases i
  case pop =>
    simp only [exec, bind, Except.bind] at he
    cases hp : pop st with
    | error e => rw [hp] at he; simp at he
    | ok r => rw [hp] at he; simp [pure, Except.pure] at he; subst he; exact hk.of_heap_eq (pop_heap hp)
  case dup =>
    simp only [exec] at he
    split at he <;> simp [push] at he
    subst he; exact hk
  case persid s => exact hk.of_heap_eq (handleRef_heap he)
  case binpersid =>
    simp only [exec, bind, Except.bind] at he
    cases hp : popUser st with
    | error e => rw [hp] at he; simp at he
    | ok r =>
      rw [hp] at he
      exact (hk.of_heap_eq (popUser_heap hp)).of_heap_eq (handleRef_heap he)
  case mark => simp [exec, push] at he; subst he; exact hk
  case stop => simp [exec] at he; subst he; exact hk
  case popMark => simp [exec] at he
  case pushFloat f => simp [exec, push] at he; subst he; exact hk
  case pushBool b => simp [exec, push] at he; subst he; exact hk
  case pushInt n => simp [exec, push] at he; subst he; exact hk
  case pushBig n => simp [exec, push] at he; subst he; exact hk
  case pushNone => simp [exec, push] at he; subst he; exact hk
  case pushByteString b => simp [exec, push] at he; subst he; exact hk
  case pushStr b => simp [exec, push] at he; subst he; exact hk
  case pushBytes b => simp [exec, push] at he; subst he; exact hk
  case pushBytearray b => simp [exec, push] at he; subst he; exact hk
  case build => simp [exec] at he
  case inst => simp [exec] at he
  case obj => simp [exec] at he
  case nextBuffer => simp [exec] at he
  case readonlyBuffer => simp [exec] at he
  case unknown k => simp [exec] at he
  case frame => simp [exec] at he; subst he; exact hk
  case global m n => simp [exec, push] at he; subst he; exact hk
  case emptyTuple => simp [exec, push] at he; subst he; exact hk
  case proto v =>
    simp only [exec] at he
    split at he <;> simp at he
    subst he; exact hk
  case get key =>
    simp only [exec] at he
    split at he <;> simp [push] at he
    subst he; exact hk
  case put key =>
    simp only [exec] at he
    split at he
    · simp at he
    · simp only [bind, Except.bind] at he
      split at he
      · simp at he
      · simp [pure, Except.pure, memoPut] at he; subst he; exact hk
  case memoize =>
    simp only [exec] at he
    split at he
    · simp at he
    · simp only [bind, Except.bind] at he
      split at he
      · simp at he
      · simp [pure, Except.pure, memoPut] at he; subst he; exact hk
  case tuple =>
    simp only [exec] at he
    split at he <;> simp at he
    subst he; exact hk
  case tupleN n =>
    simp only [exec] at he
    split at he
    · simp at he
    · simp only [bind, Except.bind] at he
      split at he
      · simp at he
      · simp [pure, Except.pure] at he; subst he; exact hk
  case emptyDict =>
    simp only [exec] at he
    simp only [Except.ok.injEq] at he
    subst he
    exact (hk.alloc { kind := dictKind mc.cfg } ⟨EntriesOK.nil _, fun _ => rfl⟩).of_heap_eq rfl
  case emptyList =>
    simp only [exec, mkList] at he
    split at he
    · simp only [Except.ok.injEq] at he; subst he
      exact (hk.alloc { kind := .list, xs := [] } ⟨trivial, fun h => absurd rfl h⟩).of_heap_eq rfl
    · simp [push] at he; subst he; exact hk
  case list =>
    simp only [exec] at he
    split at he
    · simp at he
    · simp only [mkList] at he
      split at he
      · simp only [Except.ok.injEq] at he; subst he
        exact (hk.alloc { kind := .list, xs := _ } ⟨trivial, fun h => absurd rfl h⟩).of_heap_eq rfl
      · simp at he; subst he; exact hk
  case dict =>
    simp only [exec] at he
    split at he
    · simp at he
    · split at he
      · simp at he
      · split at he
        · rename_i es hes
          simp only [Except.ok.injEq] at he; subst he
          exact (hk.alloc { kind := dictKind mc.cfg, kvs := es } ⟨(EntriesOK.nil _).assignAll _ hes, fun _ => rfl⟩).of_heap_eq rfl
        · simp at he
  case stackGlobal =>
    simp only [exec] at he
    split at he
    · simp at he
    · simp only [bind, Except.bind] at he
      cases h1 : xpop st with
      | error e => rw [h1] at he; simp at he
      | ok r1 =>
        rw [h1] at he
        obtain ⟨v1, st1⟩ := r1
        simp only at he
        cases h2 : xpop st1 with
        | error e => rw [h2] at he; simp at he
        | ok r2 =>
          rw [h2] at he
          obtain ⟨v2, st2⟩ := r2
          simp only at he
          split at he
          · simp [pure, Except.pure, push] at he; subst he
            exact ((hk.of_heap_eq (xpop_heap h1)).of_heap_eq (xpop_heap h2)).of_heap_eq rfl
          · simp at he
  case reduce =>
    simp only [exec] at he
    split at he
    · simp at he
    · simp only [bind, Except.bind] at he
      cases h1 : xpop st with
      | error e => rw [h1] at he; simp at he
      | ok r1 =>
        rw [h1] at he
        obtain ⟨v1, st1⟩ := r1
        simp only at he
        cases h2 : xpop st1 with
        | error e => rw [h2] at he; simp at he
        | ok r2 =>
          rw [h2] at he
          obtain ⟨v2, st2⟩ := r2
          simp only at he
          have hk2 : HeapKeys st2 := (hk.of_heap_eq (xpop_heap h1)).of_heap_eq (xpop_heap h2)
          split at he
          · split at he
            · rename_i r hr
              cases r with
              | error e => simp at he
              | ok v => simp [pure, Except.pure, push] at he; subst he; exact hk2.of_heap_eq rfl
            · simp [pure, Except.pure, push] at he; subst he; exact hk2.of_heap_eq rfl
          · simp at he
  case append =>
    simp only [exec] at he
    split at he
    · simp at he
    · simp only [bind, Except.bind] at he
      cases h1 : xpop st with
      | error e => rw [h1] at he; simp at he
      | ok r1 =>
        rw [h1] at he
        obtain ⟨v1, st1⟩ := r1
        simp only at he
        have hk1 : HeapKeys st1 := hk.of_heap_eq (xpop_heap h1)
        split at he
        · simp at he
        · split at he
          · simp at he
          · split at he
            · rename_i stl l' hla
              simp [pure, Except.pure] at he; subst he
              exact (listAppend_heapKeys hk1 hla).of_heap_eq rfl
            · simp at he
  case appends =>
    simp only [exec] at he
    split at he
    · simp at he
    · split at he
      · simp at he
      · split at he
        · rename_i stl l' hla
          simp at he; subst he
          exact (listAppend_heapKeys hk hla).of_heap_eq rfl
        · simp at he
  case setitem =>
    simp only [exec] at he
    split at he
    · simp at he
    · simp only [bind, Except.bind] at he
      cases h1 : xpop st with
      | error e => rw [h1] at he; simp at he
      | ok r1 =>
        rw [h1] at he
        obtain ⟨v1, st1⟩ := r1
        simp only at he
        cases h2 : xpop st1 with
        | error e => rw [h2] at he; simp at he
        | ok r2 =>
          rw [h2] at he
          obtain ⟨v2, st2⟩ := r2
          simp only at he
          have hk2 : HeapKeys st2 := (hk.of_heap_eq (xpop_heap h1)).of_heap_eq (xpop_heap h2)
          split at he
          · simp at he
          · split at he
            · simp at he
            · split at he
              · simp at he
              · split at he
                · rename_i o ho
                  split at he
                  · simp at he
                  · split at he
                    · rename_i es hes
                      simp [pure, Except.pure] at he; subst he
                      exact hk2.heapSet _ _ ⟨(hk2 o (getElem?_mem ho)).1.tryAssign hes, (hk2 o (getElem?_mem ho)).2⟩
                    · simp at he
                · simp at he
              · simp at he
  case setitems =>
    simp only [exec] at he
    split at he
    · simp at he
    · split at he
      · simp at he
      · split at he
        · simp at he
        · split at he
          · split at he
            · rename_i o ho
              split at he
              · simp at he
              · split at he
                · rename_i es hes
                  simp at he; subst he
                  exact (hk.heapSet _ _ (show ObjOK ({ o with kvs := es } : HObj) from
                    ⟨(hk o (getElem?_mem ho)).1.assignAll _ hes, (hk o (getElem?_mem ho)).2⟩)).of_heap_eq rfl
                · simp at he
            · simp at he
          · simp at he

end Ogorek

namespace Ogorek

theorem decodeLoop_heapKeys (mc : MCfg) (hook : Hook) : ∀ (fuel insn : Nat) (st : DState) (inp : Bytes),
    HeapKeys st → HeapKeys (decodeLoop mc hook fuel insn st inp).2.1 := by
  intro fuel
  induction fuel with
  | zero => intro insn st inp hk; simpa [decodeLoop] using hk
  | succ fuel ih =>
    intro insn st inp hk
    rw [decodeLoop]
    split
    · exact hk
    · split
      · exact hk
      · split
        · rename_i v st' hp
          exact hk.of_heap_eq (popUser_heap hp)
        · exact hk
      · split
        · rename_i st' he
          exact ih _ _ _ (exec_heapKeys mc hook _ _ st st' hk he)
        · exact hk

theorem decode_heapKeys (mc : MCfg) (hook : Hook) (st : DState) (inp : Bytes) (hk : HeapKeys st) :
    HeapKeys (decode mc hook st inp).2.1 := by
  unfold decode
  exact decodeLoop_heapKeys mc hook _ _ _ _ (hk.of_heap_eq rfl)

theorem HeapKeys.init : HeapKeys {} := by intro o ho; simp at ho

end Ogorek
