import Ogorek.Lemmas.CPickleForms

/-!
  Decoding what CPython's pickler writes (C02): tuples, and the groups of APPEND(S) / SETITEM(S)
  that fill a list / dict — `batch_list_exact` / `batch_dict_exact` decomposed into groups.
-/
namespace Ogorek

theorem RepGList.length {cfg : Cfg} {n : Nat} {h : List HObj} : {rs : List GoVal} → {xs : List PyObj} →
    RepGList cfg n h rs xs → rs.length = xs.length
  | [], [], _ => rfl
  | [], _ :: _, hr => by simp [RepGList] at hr
  | _ :: _, [], hr => by simp [RepGList] at hr
  | _ :: _, _ :: _, hr => by
    simp only [RepGList] at hr
    simp [RepGList.length hr.2]

section
variable {mc : MCfg} {hook : Hook} {c : ECfg} {σ : Type} {I : σ → DState → Prop}

/-! ### tuples -/

theorem pushesG_tupleN (hI : MemoOnly I) (xs : List PyObj) (h1 : 1 ≤ xs.length) (h3 : xs.length ≤ 3) (items : Bytes) {s s' : σ}
    (hi : PushesGN mc hook c I items xs s s') :
    PushesG mc hook c I (items ++ [if xs.length = 1 then 0x85 else if xs.length = 2 then 0x86 else 0x87]) (.tuple xs) s s' := by
  have hp : Parses [if xs.length = 1 then (0x85 : UInt8) else if xs.length = 2 then 0x86 else 0x87] [.tupleN xs.length] := by
    have : xs.length = 1 ∨ xs.length = 2 ∨ xs.length = 3 := by omega
    rcases this with h | h | h <;> rw [h]
    · exact parses_op 0x85 (.tupleN 1) rfl parseArg_133
    · exact parses_op 0x86 (.tupleN 2) rfl parseArg_134
    · exact parses_op 0x87 (.tupleN 3) rfl parseArg_135
  refine RunsP.snoc hi hp ?_
  intro pos st st' _ _ ⟨hj, rs, hst, hr, hk⟩
  have hlen := hr.length
  refine ⟨{ st' with stack := .tuple rs :: st.stack }, ?_, rfl, hI s' st' _ rfl hj, .tuple rs, rfl, ?_, hk⟩
  · have hl' : ¬ st'.stack.length < xs.length := by rw [hst]; simp; omega
    have ht : st'.stack.take xs.length = rs.reverse := by rw [hst, ← hlen]; exact take_reverse_append rs _
    have hd : st'.stack.drop xs.length = st.stack := by rw [hst, ← hlen]; exact drop_reverse_append rs _
    simp only [exec, hl', if_false, ht, hd, List.reverse_reverse, userOKAll_nm rs hr.no_mark, bind, Except.bind, pure, Except.pure]
  · simp only [RepG]; exact ⟨rs, rfl, hr⟩

/-- MARK, then a fragment that pushes values: the precondition moves across the MARK. -/
theorem PushesGN.marked (hI : MemoOnly I) {items : Bytes} {xs : List PyObj} {s s' : σ} (hi : PushesGN mc hook c I items xs s s') :
    RunsP mc hook c (40 :: items) (I s) (fun st st' => I s' st' ∧ ∃ rs, st'.stack = rs.reverse ++ .mark :: st.stack ∧
      RepGList mc.cfg st.heap.length st'.heap rs xs ∧ KeepsH st st') :=
  RunsP.weaken (RunsP.mark_then hi) (fun st hj => hI s st (push st .mark) rfl hj) (fun _ _ _ _ q => q)

theorem pushesG_tupleMark (hI : MemoOnly I) (xs : List PyObj) (items : Bytes) {s s' : σ} (hi : PushesGN mc hook c I items xs s s') :
    PushesG mc hook c I (40 :: items ++ [116]) (.tuple xs) s s' := by
  have := RunsP.snoc (Q := fun st st' => I s' st' ∧ ∃ r, st'.stack = r :: st.stack ∧ RepG mc.cfg st.heap.length st'.heap r (.tuple xs) ∧ KeepsH st st')
    (PushesGN.marked hI hi) (parses_op 116 .tuple rfl parseArg_116) ?_
  · unfold PushesG; simpa using this
  · intro pos st st' _ _ ⟨hj, rs, hst, hr, hk⟩
    refine ⟨{ st' with stack := .tuple rs :: st.stack }, ?_, rfl, hI s' st' _ rfl hj, .tuple rs, rfl, ?_, hk⟩
    · have hsp : splitAtMark st'.stack = some (rs.reverse, st.stack) := by
        rw [hst]
        exact splitAtMark_append rs.reverse st.stack (fun r hr' => hr.no_mark r (by simpa using hr'))
      simp only [exec, hsp, List.reverse_reverse]
    · simp only [RepG]; exact ⟨rs, rfl, hr⟩

end

/-! ### batches as groups -/

inductive Grp (α : Type) where
  | single (x : Bytes × α)
  | multi (xs : List (Bytes × α))

def Grp.items {α : Type} : Grp α → List (Bytes × α)
  | .single x => [x]
  | .multi xs => xs

def encGrp {α : Type} (c1 cn : UInt8) : Grp α → Bytes
  | .single x => x.1 ++ [c1]
  | .multi xs => 40 :: (xs.map (·.1)).flatten ++ [cn]

def encGrps {α : Type} (c1 cn : UInt8) (gs : List (Grp α)) : Bytes := (gs.map (encGrp c1 cn)).flatten

def grpItems {α : Type} (gs : List (Grp α)) : List (Bytes × α) := (gs.map Grp.items).flatten

@[simp] theorem encGrps_nil {α : Type} (c1 cn : UInt8) : encGrps c1 cn ([] : List (Grp α)) = [] := rfl
@[simp] theorem encGrps_cons {α : Type} (c1 cn : UInt8) (g : Grp α) (gs : List (Grp α)) :
    encGrps c1 cn (g :: gs) = encGrp c1 cn g ++ encGrps c1 cn gs := by simp [encGrps]
@[simp] theorem grpItems_nil {α : Type} : grpItems ([] : List (Grp α)) = [] := rfl
@[simp] theorem grpItems_cons {α : Type} (g : Grp α) (gs : List (Grp α)) : grpItems (g :: gs) = g.items ++ grpItems gs := by
  simp [grpItems]

theorem singles_groups {α : Type} (c1 cn : UInt8) : (fk : List (Bytes × α)) →
    ((fk.map (·.1)).map (· ++ [c1])).flatten = encGrps c1 cn (fk.map Grp.single) ∧ grpItems (fk.map Grp.single) = fk
  | [] => by simp
  | x :: fk => by
    obtain ⟨e1, e2⟩ := singles_groups c1 cn fk
    simp only [List.map_cons, List.flatten_cons, encGrps_cons, grpItems_cons, e1, e2, encGrp, Grp.items]
    simp

theorem batchListLoop_groups {α : Type} : (fuel : Nat) → (fk : List (Bytes × α)) → fk.length ≤ fuel →
    ∃ gs : List (Grp α), cpBatchListLoop fuel (fk.map (·.1)) = encGrps 97 101 gs ∧ grpItems gs = fk
  | 0, fk, h => by
    have : fk = [] := List.length_eq_zero_iff.mp (by omega)
    subst this
    exact ⟨[], rfl, rfl⟩
  | fuel + 1, fk, h => by
    by_cases he : fk = []
    · subst he
      exact ⟨[], by simp [cpBatchListLoop], rfl⟩
    · have hpos : 0 < fk.length := List.length_pos_iff.mpr he
      obtain ⟨gs, e1, e2⟩ := batchListLoop_groups fuel (fk.drop batchSize) (by simp [batchSize]; omega)
      refine ⟨.multi (fk.take batchSize) :: gs, ?_, ?_⟩
      · have hne : (fk.map (·.1)).isEmpty = false := by
          cases fk with
          | nil => exact absurd rfl he
          | cons _ _ => rfl
        simp only [cpBatchListLoop, hne, Bool.false_eq_true, if_false, encGrps_cons, encGrp, ← List.map_drop, ← List.map_take, e1]
        simp
      · simp [Grp.items, e2]

theorem pyBatchLoop_groups {α : Type} (c1 cn : UInt8) : (fuel : Nat) → (fk : List (Bytes × α)) → fk.length < fuel →
    ∃ gs : List (Grp α), pyBatchLoop c1 cn fuel (fk.map (·.1)) = encGrps c1 cn gs ∧ grpItems gs = fk
  | 0, _, h => by omega
  | fuel + 1, fk, h => by
    have htl : ((fk.map (·.1)).take batchSize).length = (fk.take batchSize).length := by simp
    have htm : (fk.map (·.1)).take batchSize = (fk.take batchSize).map (·.1) := by rw [List.map_take]
    -- the rest of the loop
    have hrest : ∃ gs' : List (Grp α),
        (if (fk.take batchSize).length < batchSize then [] else pyBatchLoop c1 cn fuel ((fk.map (·.1)).drop batchSize)) = encGrps c1 cn gs' ∧
        grpItems gs' = fk.drop batchSize := by
      by_cases hl : (fk.take batchSize).length < batchSize
      · have : fk.drop batchSize = [] := by
          apply List.drop_eq_nil_of_le
          simp [List.length_take] at hl
          omega
        exact ⟨[], by rw [if_pos hl]; rfl, by simp [this]⟩
      · simp only [hl, if_false]
        have hlen : batchSize ≤ fk.length := by
          simp [List.length_take] at hl; omega
        obtain ⟨gs', e1, e2⟩ := pyBatchLoop_groups c1 cn fuel (fk.drop batchSize) (by simp [batchSize] at hlen ⊢; omega)
        exact ⟨gs', by rw [← List.map_drop]; exact e1, e2⟩
    obtain ⟨gs', er, ei⟩ := hrest
    unfold pyBatchLoop
    rw [htl, htm]
    by_cases h1 : (fk.take batchSize).length > 1
    · refine ⟨.multi (fk.take batchSize) :: gs', ?_, ?_⟩
      · simp only [h1, if_true, encGrps_cons, encGrp, ← er]
        try simp
      · simp [Grp.items, ei]
    · by_cases h2 : (fk.take batchSize).length = 1
      · obtain ⟨x, hx⟩ : ∃ x, fk.take batchSize = [x] := by
          match hc : fk.take batchSize, h2 with
          | [x], _ => exact ⟨x, rfl⟩
        refine ⟨.single x :: gs', ?_, ?_⟩
        · simp only [h1, if_false, h2, if_true, encGrps_cons, encGrp, ← er, hx]
          simp
        · simp only [grpItems_cons, Grp.items, ei, ← hx]
          exact List.take_append_drop _ _
      · have h0 : fk.take batchSize = [] := List.length_eq_zero_iff.mp (by omega)
        have hfk : fk = [] := by
          cases fk with
          | nil => rfl
          | cons a t => simp [batchSize] at h0
        subst hfk
        refine ⟨gs', ?_, by simpa using ei⟩
        simp only [h1, if_false, h2, List.nil_append, ← er]

theorem batchList_groups {α : Type} (py : Bool) (p : Nat) (fk : List (Bytes × α)) :
    ∃ gs : List (Grp α), cpBatchList py p (fk.map (·.1)) = encGrps 97 101 gs ∧ grpItems gs = fk := by
  unfold cpBatchList
  by_cases hp : p = 0
  · simp only [hp, if_true]
    exact ⟨fk.map Grp.single, (singles_groups 97 101 fk).1, (singles_groups 97 101 fk).2⟩
  · simp only [hp, if_false]
    cases py
    case true =>
      simp only [if_true, List.length_map]
      exact pyBatchLoop_groups 97 101 (fk.length + 1) fk (Nat.lt_succ_self _)
    simp only [Bool.false_eq_true, if_false]
    match fk with
    | [] => exact ⟨[], rfl, rfl⟩
    | [x] => exact ⟨[.single x], by simp [encGrp], by simp [Grp.items]⟩
    | x :: y :: r =>
      have := batchListLoop_groups (x :: y :: r).length (x :: y :: r) (Nat.le_refl _)
      simpa using this

theorem batchDictLoop_groups {α : Type} : (fuel : Nat) → (fk : List (Bytes × α)) → fk.length < fuel →
    ∃ gs : List (Grp α), cpBatchDictLoop fuel (fk.map (·.1)) = encGrps 115 117 gs ∧ grpItems gs = fk
  | 0, _, h => by omega
  | fuel + 1, fk, h => by
    by_cases hl : fk.length ≥ batchSize
    · obtain ⟨gs, e1, e2⟩ := batchDictLoop_groups fuel (fk.drop batchSize) (by simp [batchSize] at hl ⊢; omega)
      refine ⟨.multi (fk.take batchSize) :: gs, ?_, ?_⟩
      · simp only [cpBatchDictLoop, List.length_map, hl, if_true, encGrps_cons, encGrp, ← List.map_drop, ← List.map_take, e1]
        simp
      · simp [Grp.items, e2]
    · refine ⟨[.multi fk], ?_, by simp [Grp.items]⟩
      have ht : fk.take batchSize = fk := List.take_of_length_le (by omega)
      simp only [cpBatchDictLoop, List.length_map, hl, if_false, encGrps_cons, encGrp, ← List.map_take, ht]
      simp

theorem batchDict_groups {α : Type} (py : Bool) (p : Nat) (fk : List (Bytes × α)) :
    ∃ gs : List (Grp α), cpBatchDict py p (fk.map (·.1)) = encGrps 115 117 gs ∧ grpItems gs = fk := by
  unfold cpBatchDict
  by_cases hp : p = 0
  · simp only [hp, if_true]
    exact ⟨fk.map Grp.single, (singles_groups 115 117 fk).1, (singles_groups 115 117 fk).2⟩
  · simp only [hp, if_false]
    cases py
    case true =>
      simp only [if_true, List.length_map]
      exact pyBatchLoop_groups 115 117 (fk.length + 1) fk (Nat.lt_succ_self _)
    simp only [Bool.false_eq_true, if_false]
    match fk with
    | [] => exact ⟨[], rfl, rfl⟩
    | [x] => exact ⟨[.single x], by simp [encGrp], by simp [Grp.items]⟩
    | x :: y :: r =>
      have := batchDictLoop_groups ((x :: y :: r).length + 1) (x :: y :: r) (Nat.lt_succ_self _)
      simpa using this


/-! ### the groups, run -/

theorem flatten_map_singleton {α β : Type} (f : α → β) : (l : List α) → (l.map fun x => [f x]).flatten = l.map f
  | [] => rfl
  | x :: l => by simp [flatten_map_singleton f l]

def flatPy : List (PyObj × PyObj) → List PyObj
  | [] => []
  | (k, v) :: r => k :: v :: flatPy r

theorem flatten_map_pair : (l : List (Bytes × (PyObj × PyObj))) →
    (l.map fun x => [x.2.1, x.2.2]).flatten = flatPy (l.map (·.2))
  | [] => rfl
  | x :: l => by simp [flatPy, flatten_map_pair l]

theorem flatPy_append : (a b : List (PyObj × PyObj)) → flatPy (a ++ b) = flatPy a ++ flatPy b
  | [], _ => rfl
  | (k, v) :: a, b => by simp [flatPy, flatPy_append a b]

theorem repGPairs_of_flat {cfg : Cfg} {n : Nat} {h : List HObj} : (kvs : List (PyObj × PyObj)) → (rs : List GoVal) →
    RepGList cfg n h rs (flatPy kvs) → ∃ es, rs = flatE es ∧ RepGPairs cfg n h es kvs
  | [], [], _ => ⟨[], rfl, by simp [RepGPairs]⟩
  | [], _ :: _, hr => by simp [flatPy, RepGList] at hr
  | (k, v) :: kvs, [], hr => by simp [flatPy, RepGList] at hr
  | (k, v) :: kvs, [_], hr => by simp [flatPy, RepGList] at hr
  | (k, v) :: kvs, rk :: rv :: rs, hr => by
    simp only [flatPy, RepGList] at hr
    obtain ⟨es, rfl, hp⟩ := repGPairs_of_flat kvs rs hr.2.2
    exact ⟨(rk, rv) :: es, rfl, by simp only [RepGPairs]; exact ⟨hr.1, hr.2.1, hp⟩⟩

section
variable {mc : MCfg} {hook : Hook} {c : ECfg} {σ : Type} {I : σ → DState → Prop}

/-! #### lists -/

def ListTop (st : DState) : Prop := ∃ acc s0, st.stack = .list acc :: s0

/-- From a list on top of the stack: it gets the new items appended, everything else stays. -/
def ListQ (cfg : Cfg) (xs : List PyObj) (st st' : DState) : Prop :=
  ∀ acc s0, st.stack = .list acc :: s0 → ∃ rs, st'.stack = .list (acc ++ rs) :: s0 ∧
    RepGList cfg st.heap.length st'.heap rs xs ∧ KeepsH st st'

theorem runs_listGroup (hI : MemoOnly I) (g : Grp PyObj) {s s' : σ}
    (hf : FragsGN mc hook c I (g.items.map (·.1)) (g.items.map fun x => [x.2]) s s') :
    RunsP mc hook c (encGrp 97 101 g) (fun st => I s st ∧ ListTop st) (fun st st' => I s' st' ∧ ListQ mc.cfg (g.items.map (·.2)) st st') := by
  cases g with
  | single x =>
    simp only [Grp.items, List.map_cons, List.map_nil, FragsGN] at hf
    obtain ⟨s1, hf1, rfl⟩ := hf
    simp only [encGrp, Grp.items, List.map_cons, List.map_nil]
    refine RunsP.snoc (RunsP.weaken hf1 (fun _ h => h.1) (fun _ _ _ _ q => q)) (parses_op 97 .append rfl parseArg_97) ?_
    intro pos st st' ⟨_, acc, s0, hs⟩ _ ⟨hj, rs, hst, hr, hk⟩
    obtain ⟨r, rfl⟩ : ∃ r, rs = [r] := by
      match rs, hr with
      | [r], _ => exact ⟨r, rfl⟩
      | [], h => simp [RepGList] at h
      | _ :: _ :: _, h => simp [RepGList] at h
    have hm : isMark r = false := hr.no_mark r (by simp)
    have hst' : st'.stack = r :: .list acc :: s0 := by rw [hst, hs]; rfl
    refine ⟨{ st' with stack := .list (acc ++ [r]) :: s0 }, ?_, rfl, hI _ st' _ rfl hj, ?_⟩
    · simp only [exec, xpop, hst', bind, Except.bind, userOK_nm hm, listAppend, pure, Except.pure]
      simp
    · intro acc' s0' hs'
      rw [hs] at hs'
      injection hs' with h1 h2
      injection h1 with h1
      subst h1; subst h2
      exact ⟨[r], rfl, hr, hk⟩
  | multi xs =>
    simp only [Grp.items] at hf ⊢
    have hfl := FragsGN.flatten hf
    rw [flatten_map_singleton] at hfl
    show RunsP mc hook c ((40 :: (xs.map (·.1)).flatten) ++ [101]) _ _
    refine RunsP.snoc (RunsP.weaken (PushesGN.marked hI hfl) (fun _ h => h.1) (fun _ _ _ _ q => q)) (parses_op 101 .appends rfl parseArg_101) ?_
    intro pos st st' ⟨_, acc, s0, hs⟩ _ ⟨hj, rs, hst, hr, hk⟩
    have hst' : st'.stack = rs.reverse ++ .mark :: .list acc :: s0 := by rw [hst, hs]
    refine ⟨{ st' with stack := .list (acc ++ rs) :: s0 }, ?_, rfl, hI _ st' _ rfl hj, ?_⟩
    · have hsp : splitAtMark st'.stack = some (rs.reverse, .list acc :: s0) := by
        rw [hst']
        exact splitAtMark_append rs.reverse _ (fun r hr' => hr.no_mark r (by simpa using hr'))
      simp only [exec, hsp, List.reverse_reverse, listAppend]
    · intro acc' s0' hs'
      rw [hs] at hs'
      injection hs' with h1 h2
      injection h1 with h1
      subst h1; subst h2
      exact ⟨rs, rfl, hr, hk⟩

theorem runs_listGroups (hI : MemoOnly I) : (gs : List (Grp PyObj)) → {s s' : σ} →
    FragsGN mc hook c I ((grpItems gs).map (·.1)) ((grpItems gs).map fun x => [x.2]) s s' →
    RunsP mc hook c (encGrps 97 101 gs) (fun st => I s st ∧ ListTop st)
      (fun st st' => I s' st' ∧ ListQ mc.cfg ((grpItems gs).map (·.2)) st st')
  | [], s, _, hf => by
    simp only [grpItems_nil, List.map_nil, FragsGN] at hf
    subst hf
    refine RunsP.weaken RunsP.nil (fun _ h => h) ?_
    intro st st' hp _ e
    subst e
    refine ⟨hp.1, ?_⟩
    intro acc s0 hs
    exact ⟨[], by simpa using hs, by simp [RepGList], KeepsH.refl _⟩
  | g :: gs, s, s', hf => by
    simp only [grpItems_cons, List.map_append] at hf ⊢
    obtain ⟨sm, h1, h2⟩ := FragsGN.append_inv (by simp) hf
    rw [encGrps_cons]
    refine RunsP.weaken (RunsP.seq (runs_listGroup hI g h1) (runs_listGroups hI gs h2) ?_) (fun _ h => h) ?_
    · intro st st1 ⟨_, acc, s0, hs⟩ _ ⟨hj, q⟩
      obtain ⟨rs, hs1, _⟩ := q acc s0 hs
      exact ⟨hj, _, _, hs1⟩
    · intro st st2 _ _ ⟨st1, _, ⟨_, q1⟩, hj2, q2⟩
      refine ⟨hj2, ?_⟩
      intro acc s0 hs
      obtain ⟨rs1, hs1, hr1, hk1⟩ := q1 acc s0 hs
      obtain ⟨rs2, hs2, hr2, hk2⟩ := q2 (acc ++ rs1) s0 hs1
      refine ⟨rs1 ++ rs2, by rw [hs2, List.append_assoc], RepGList.append ?_ ?_, hk1.trans hk2⟩
      · exact RepGList.congr mc.cfg (hk2.2.mono (Nat.zero_le _)) (Nat.le_refl _) rs1 _ hr1
      · exact RepGList.congr mc.cfg (AgreeFrom.refl _ _) hk1.1 rs2 _ hr2

end

end Ogorek
