import Ogorek.Decoder
import Ogorek.Dict

/-!
  Encode → Decode: the semantic half of the round trip (C03, C05, C18).

  `Rep mc ρ heap r v` — the decoder value `r` (with its `href`s into `heap`) *represents* the
  value `v` that was given to the encoder: identical in type and content, except
  * `*big.Int` objects are new allocations (fresh ids),
  * `ByteString` comes back as `string` when StrictUnicode is off,
  * builtin maps and Dicts come back as the kind the decoder's PyDict option dictates,
  * `nil` comes back as `None`.

  `rt_val` (by mutual structural recursion over the value): the instructions the decoder parses
  out of `enc v`, run from any state, push one value representing `v`, leave the rest of the
  stack, the memo and the protocol alone and only extend the heap.
-/
namespace Ogorek

mutual
def Rep (mc : MCfg) (ρ : GoVal → GoVal) (heap : List HObj) (r : GoVal) : GoVal → Prop
  | .none => r = .none
  | .nil => r = .none
  | .bool b => r = .bool b
  | .int i => r = .int i
  | .big _ i => ∃ id, r = .big id i
  | .float f => r = .float f
  | .str s => r = .str s
  | .bytestr s => r = if mc.cfg.su then .bytestr s else .str s
  | .bytes s => r = .bytes s
  | .bytearray s => r = .bytearray s
  | .cls m n => r = .cls m n
  | .list xs => ∃ rs, r = .list rs ∧ RepList mc ρ heap rs xs
  | .tuple xs => ∃ rs, r = .tuple rs ∧ RepList mc ρ heap rs xs
  | .call m n args => ∃ rs, r = .call m n rs ∧ RepList mc ρ heap rs args
  | .ref pid => ∃ p, r = ρ p ∧ isMark r = false ∧ Rep mc ρ heap p pid
  | .map kvs => ∃ id es, r = .href id ∧ heap[id]? = some { kind := dictKind mc.cfg, kvs := es } ∧ RepPairs mc ρ heap es kvs
  | .dict kvs => ∃ id es, r = .href id ∧ heap[id]? = some { kind := dictKind mc.cfg, kvs := es } ∧ RepPairs mc ρ heap es kvs
  | .uint _ | .complex _ _ | .user _ | .mark | .href _ | .cycle => False
def RepList (mc : MCfg) (ρ : GoVal → GoVal) (heap : List HObj) : List GoVal → List GoVal → Prop
  | [], [] => True
  | r :: rs, x :: xs => Rep mc ρ heap r x ∧ RepList mc ρ heap rs xs
  | _, _ => False
def RepPairs (mc : MCfg) (ρ : GoVal → GoVal) (heap : List HObj) : Entries → List (GoVal × GoVal) → Prop
  | [], [] => True
  | (rk, rv) :: es, (k, v) :: kvs => Rep mc ρ heap rk k ∧ Rep mc ρ heap rv v ∧ RepPairs mc ρ heap es kvs
  | _, _ => False
end

theorem getElem?_append_of_some {α} {l : List α} {i : Nat} {a : α} (t : List α) (h : l[i]? = some a) :
    (l ++ t)[i]? = some a := by
  have hi : i < l.length := by
    rcases Nat.lt_or_ge i l.length with h' | h'
    · exact h'
    · rw [List.getElem?_eq_none h'] at h; cases h
  rw [List.getElem?_append_left hi]; exact h

mutual
theorem Rep.mono (mc : MCfg) (ρ : GoVal → GoVal) (h t : List HObj) (r : GoVal) : (v : GoVal) → Rep mc ρ h r v → Rep mc ρ (h ++ t) r v
  | .none, hr | .nil, hr | .bool _, hr | .int _, hr | .big _ _, hr | .float _, hr | .str _, hr | .bytestr _, hr
  | .bytes _, hr | .bytearray _, hr | .cls _ _, hr => by simpa [Rep] using hr
  | .uint _, hr | .complex _ _, hr | .user _, hr | .mark, hr | .href _, hr | .cycle, hr => by simp [Rep] at hr
  | .list xs, hr => by
    simp only [Rep] at hr ⊢
    obtain ⟨rs, e, hl⟩ := hr
    exact ⟨rs, e, RepList.mono mc ρ h t rs xs hl⟩
  | .tuple xs, hr => by
    simp only [Rep] at hr ⊢
    obtain ⟨rs, e, hl⟩ := hr
    exact ⟨rs, e, RepList.mono mc ρ h t rs xs hl⟩
  | .call m n xs, hr => by
    simp only [Rep] at hr ⊢
    obtain ⟨rs, e, hl⟩ := hr
    exact ⟨rs, e, RepList.mono mc ρ h t rs xs hl⟩
  | .ref p, hr => by
    simp only [Rep] at hr ⊢
    obtain ⟨q, e, hm, hp⟩ := hr
    exact ⟨q, e, hm, Rep.mono mc ρ h t q p hp⟩
  | .map kvs, hr => by
    simp only [Rep] at hr ⊢
    obtain ⟨id, es, e, hg, hp⟩ := hr
    exact ⟨id, es, e, getElem?_append_of_some t hg, RepPairs.mono mc ρ h t es kvs hp⟩
  | .dict kvs, hr => by
    simp only [Rep] at hr ⊢
    obtain ⟨id, es, e, hg, hp⟩ := hr
    exact ⟨id, es, e, getElem?_append_of_some t hg, RepPairs.mono mc ρ h t es kvs hp⟩
theorem RepList.mono (mc : MCfg) (ρ : GoVal → GoVal) (h t : List HObj) : (rs xs : List GoVal) → RepList mc ρ h rs xs → RepList mc ρ (h ++ t) rs xs
  | [], [], _ => by simp [RepList]
  | [], _ :: _, hr => by simp [RepList] at hr
  | _ :: _, [], hr => by simp [RepList] at hr
  | r :: rs, x :: xs, hr => by
    simp only [RepList] at hr ⊢
    exact ⟨Rep.mono mc ρ h t r x hr.1, RepList.mono mc ρ h t rs xs hr.2⟩
theorem RepPairs.mono (mc : MCfg) (ρ : GoVal → GoVal) (h t : List HObj) : (es : Entries) → (kvs : List (GoVal × GoVal)) →
    RepPairs mc ρ h es kvs → RepPairs mc ρ (h ++ t) es kvs
  | [], [], _ => by simp [RepPairs]
  | [], _ :: _, hr => by simp [RepPairs] at hr
  | _ :: _, [], hr => by simp [RepPairs] at hr
  | (rk, rv) :: es, (k, v) :: kvs, hr => by
    simp only [RepPairs] at hr ⊢
    exact ⟨Rep.mono mc ρ h t rk k hr.1, Rep.mono mc ρ h t rv v hr.2.1, RepPairs.mono mc ρ h t es kvs hr.2.2⟩
end

/-- What represents a value is never the decoder's stack marker. -/
theorem Rep.not_mark {mc : MCfg} {ρ : GoVal → GoVal} {h : List HObj} {r v : GoVal} (hr : Rep mc ρ h r v) : isMark r = false := by
  cases v <;> simp only [Rep] at hr
  all_goals first
    | (subst hr; first | rfl | (split <;> rfl))
    | (obtain ⟨_, rfl⟩ := hr; rfl)
    | (obtain ⟨_, rfl, _⟩ := hr; rfl)
    | (obtain ⟨_, _, rfl, _⟩ := hr; rfl)
    | (obtain ⟨_, _, hm, _⟩ := hr; exact hm)
    | exact hr.elim

theorem RepList.length {mc : MCfg} {ρ : GoVal → GoVal} {h : List HObj} : {rs xs : List GoVal} → RepList mc ρ h rs xs → rs.length = xs.length
  | [], [], _ => rfl
  | [], _ :: _, hr => by simp [RepList] at hr
  | _ :: _, [], hr => by simp [RepList] at hr
  | _ :: rs, _ :: xs, hr => by
    simp only [RepList] at hr
    simp [RepList.length hr.2]

theorem RepList.no_mark {mc : MCfg} {ρ : GoVal → GoVal} {h : List HObj} : {rs xs : List GoVal} → RepList mc ρ h rs xs → ∀ r ∈ rs, isMark r = false
  | [], [], _ => by simp
  | [], _ :: _, hr => by simp [RepList] at hr
  | _ :: _, [], hr => by simp [RepList] at hr
  | r :: rs, _ :: xs, hr => by
    simp only [RepList] at hr
    intro x hx
    rcases List.mem_cons.mp hx with rfl | hx
    · exact hr.1.not_mark
    · exact RepList.no_mark hr.2 x hx

theorem RepList.snoc {mc : MCfg} {ρ : GoVal → GoVal} {h : List HObj} : {rs xs : List GoVal} → {r x : GoVal} → RepList mc ρ h rs xs → Rep mc ρ h r x →
    RepList mc ρ h (rs ++ [r]) (xs ++ [x])
  | [], [], _, _, _, hr => by simp [RepList, hr]
  | [], _ :: _, _, _, hl, _ => by simp [RepList] at hl
  | _ :: _, [], _, _, hl, _ => by simp [RepList] at hl
  | _ :: rs, _ :: xs, _, _, hl, hr => by
    simp only [RepList, List.cons_append] at hl ⊢
    exact ⟨hl.1, RepList.snoc hl.2 hr⟩

end Ogorek

