import Ogorek.Lemmas.CPickleRun

/-!
  Decoding what CPython's pickler writes (C02): the forms — scalars, the memo PUTs, tuples, and
  the batched APPEND(S) / SETITEM(S) groups that fill a list / dict after it was created empty.
-/
namespace Ogorek

/-- The old heap objects are all still there, unchanged. -/
def KeepsH (st st' : DState) : Prop := st.heap.length ≤ st'.heap.length ∧ AgreeFrom 0 st.heap st'.heap

theorem KeepsH.refl (st : DState) : KeepsH st st := ⟨Nat.le_refl _, AgreeFrom.refl _ _⟩

theorem KeepsH.trans {a b c : DState} (h1 : KeepsH a b) (h2 : KeepsH b c) : KeepsH a c :=
  ⟨Nat.le_trans h1.1 h2.1, AgreeFrom.trans h1.2 h2.2 h1.1⟩

theorem KeepsH.of_frame {st st' : DState} (f : Frame st st') : KeepsH st st' := by
  obtain ⟨t, e⟩ := f.heap
  exact ⟨by rw [e]; simp, by rw [e]; exact AgreeFrom.append _ _ _⟩

theorem KeepsH.of_eq {st st' : DState} (e : st'.heap = st.heap) : KeepsH st st' := by
  unfold KeepsH; rw [e]; exact ⟨Nat.le_refl _, AgreeFrom.refl _ _⟩

section
variable {mc : MCfg} {hook : Hook} {c : ECfg}

/-- The fragment pushes `xss.flatten.length` values representing the objects of `xss` (bottom to top),
    referring only to heap objects it allocated itself, and leaves the old heap alone. -/
def PushesGN (mc : MCfg) (hook : Hook) (c : ECfg) (bs : Bytes) (xs : List PyObj) : Prop :=
  RunsP mc hook c bs (fun _ => True) (fun st st' => ∃ rs, st'.stack = rs.reverse ++ st.stack ∧
    RepGList mc.cfg st.heap.length st'.heap rs xs ∧ KeepsH st st')

def PushesG (mc : MCfg) (hook : Hook) (c : ECfg) (bs : Bytes) (v : PyObj) : Prop :=
  RunsP mc hook c bs (fun _ => True) (fun st st' => ∃ r, st'.stack = r :: st.stack ∧
    RepG mc.cfg st.heap.length st'.heap r v ∧ KeepsH st st')

theorem PushesG.of_pushes {bs : Bytes} {v : PyObj} {P : GoVal → Prop} (h : Pushes mc hook c bs (fun _ r => P r))
    (hP : ∀ r n hp, P r → RepG mc.cfg n hp r v) : PushesG mc hook c bs v := by
  refine RunsP.weaken (RunsP.of_runs h) (fun _ h => h) ?_
  intro st st' _ _ ⟨f, r, hs, hr⟩
  exact ⟨r, hs, hP r _ _ hr, KeepsH.of_frame f⟩

theorem PushesG.toN {bs : Bytes} {v : PyObj} (h : PushesG mc hook c bs v) : PushesGN mc hook c bs [v] := by
  refine RunsP.weaken h (fun _ h => h) ?_
  intro st st' _ _ ⟨r, hs, hr, hk⟩
  exact ⟨[r], by simpa using hs, by simp [RepGList, hr], hk⟩

theorem PushesGN.nil : PushesGN mc hook c [] [] := by
  refine RunsP.weaken RunsP.nil (fun _ h => h) ?_
  intro st st' _ _ e
  subst e
  exact ⟨[], by simp, by simp [RepGList], KeepsH.refl _⟩

theorem PushesGN.append {b1 b2 : Bytes} {xs1 xs2 : List PyObj} (h1 : PushesGN mc hook c b1 xs1) (h2 : PushesGN mc hook c b2 xs2) :
    PushesGN mc hook c (b1 ++ b2) (xs1 ++ xs2) := by
  refine RunsP.weaken (RunsP.seq h1 h2 (fun _ _ _ _ _ => trivial)) (fun _ h => h) ?_
  intro st st2 _ _ ⟨st1, _, ⟨rs1, hs1, hr1, hk1⟩, ⟨rs2, hs2, hr2, hk2⟩⟩
  refine ⟨rs1 ++ rs2, by simp [hs2, hs1], ?_, hk1.trans hk2⟩
  refine RepGList.append ?_ ?_
  · exact RepGList.congr mc.cfg (hk2.2.mono (Nat.zero_le _)) (Nat.le_refl _) rs1 xs1 hr1
  · exact RepGList.congr mc.cfg (AgreeFrom.refl _ _) hk1.1 rs2 xs2 hr2

/-- Fragment by fragment. -/
def FragsGN (mc : MCfg) (hook : Hook) (c : ECfg) : List Bytes → List (List PyObj) → Prop
  | [], [] => True
  | f :: fs, xs :: xss => PushesGN mc hook c f xs ∧ FragsGN mc hook c fs xss
  | _, _ => False

theorem FragsGN.flatten : {fs : List Bytes} → {xss : List (List PyObj)} → FragsGN mc hook c fs xss →
    PushesGN mc hook c fs.flatten xss.flatten
  | [], [], _ => by simpa using PushesGN.nil
  | [], _ :: _, h => by simp [FragsGN] at h
  | _ :: _, [], h => by simp [FragsGN] at h
  | f :: fs, xs :: xss, h => by
    simp only [FragsGN] at h
    simpa using PushesGN.append h.1 (FragsGN.flatten h.2)

theorem FragsGN.take : (k : Nat) → {fs : List Bytes} → {xss : List (List PyObj)} → FragsGN mc hook c fs xss →
    FragsGN mc hook c (fs.take k) (xss.take k)
  | 0, _, _, _ => by simp [FragsGN]
  | _ + 1, [], [], _ => by simp [FragsGN]
  | _ + 1, [], _ :: _, h => by simp [FragsGN] at h
  | _ + 1, _ :: _, [], h => by simp [FragsGN] at h
  | k + 1, f :: fs, xs :: xss, h => by
    simp only [FragsGN] at h
    simp only [List.take_succ_cons, FragsGN]
    exact ⟨h.1, FragsGN.take k h.2⟩

theorem FragsGN.drop : (k : Nat) → {fs : List Bytes} → {xss : List (List PyObj)} → FragsGN mc hook c fs xss →
    FragsGN mc hook c (fs.drop k) (xss.drop k)
  | 0, _, _, h => by simpa using h
  | _ + 1, [], [], _ => by simp [FragsGN]
  | _ + 1, [], _ :: _, h => by simp [FragsGN] at h
  | _ + 1, _ :: _, [], h => by simp [FragsGN] at h
  | k + 1, f :: fs, xs :: xss, h => by
    simp only [FragsGN] at h
    simp only [List.drop_succ_cons]
    exact FragsGN.drop k h.2

theorem FragsGN.length : {fs : List Bytes} → {xss : List (List PyObj)} → FragsGN mc hook c fs xss → fs.length = xss.length
  | [], [], _ => rfl
  | [], _ :: _, h => by simp [FragsGN] at h
  | _ :: _, [], h => by simp [FragsGN] at h
  | _ :: _, _ :: _, h => by
    simp only [FragsGN] at h
    simp [FragsGN.length h.2]

/-! ### the memo -/

/-- The top of the stack is a value (not the marker). -/
def TopUser (st : DState) : Prop := ∃ v s, st.stack = v :: s ∧ isMark v = false

theorem exec_put (pos : Nat) (st : DState) (key : Bytes) {v : GoVal} {s : List GoVal} (hs : st.stack = v :: s) (hm : isMark v = false) :
    exec mc hook (.put key) pos st = .ok (memoPut st key v) := by
  simp [exec, hs, userOK_nm hm, bind, Except.bind, pure, Except.pure]

/-- `memo_put`: any of the four PUT forms succeeds on a value and changes only the memo. -/
theorem runs_put (p n : Nat) :
    RunsP mc hook c (cpPut p n) TopUser (fun st st' => st'.stack = st.stack ∧ st'.heap = st.heap) := by
  unfold cpPut
  split
  · refine RunsP.one (parses_op 0x94 .memoize rfl parseArg_148) ?_
    intro pos st _ ⟨v, s, hs, hm⟩
    refine ⟨memoPut st (memoKey st.memo.length) v, ?_, rfl, rfl, rfl⟩
    simp [exec, hs, userOK_nm hm, bind, Except.bind, pure, Except.pure]
  · split
    · split
      · refine RunsP.one (i := .put (memoKey (UInt8.ofNat n).toNat)) (Parses.single rfl fun t => ?_) ?_
        · simp [parseInsn, Rd.bind, readByte, parseArg_113, Rd.map, Rd.pure]
        · intro pos st _ ⟨v, s, hs, hm⟩
          exact ⟨_, exec_put pos st _ hs hm, rfl, rfl, rfl⟩
      · refine RunsP.one (i := .put (memoKey (leNat (natLE 4 n)))) (Parses.single rfl fun t => ?_) ?_
        · have e : (114 :: le4 n) ++ t = 114 :: (natLE 4 n ++ t) := by simp [le4]
          rw [e]
          simp [parseInsn, Rd.bind, readByte, parseArg_114, Rd.map, Rd.pure, readFull_exact 4 _ t (natLE_length 4 _)]
        · intro pos st _ ⟨v, s, hs, hm⟩
          exact ⟨_, exec_put pos st _ hs hm, rfl, rfl, rfl⟩
    · refine RunsP.one (i := .put (natDigits n)) (Parses.single rfl fun t => ?_) ?_
      · have e : (112 :: natDigits n ++ [10]) ++ t = 112 :: (natDigits n ++ 10 :: t) := by simp
        rw [e]
        have hl : (10 : UInt8) ∉ natDigits n := natDigits_no n 10 (by decide)
        simp [parseInsn, Rd.bind, readByte, parseArg_112, Rd.map, Rd.pure, readLine_line _ _ hl]
      · intro pos st _ ⟨v, s, hs, hm⟩
        exact ⟨_, exec_put pos st _ hs hm, rfl, rfl, rfl⟩

/-- A pushed object followed by its `memo_put`. -/
theorem PushesG.put {bs : Bytes} {v : PyObj} (h : PushesG mc hook c bs v) (p n : Nat) :
    PushesG mc hook c (bs ++ cpPut p n) v := by
  refine RunsP.weaken (RunsP.seq h (runs_put p n) ?_) (fun _ h => h) ?_
  · intro st st1 _ _ ⟨r, hs, hr, _⟩
    exact ⟨r, st.stack, hs, hr.not_mark⟩
  · intro st st2 _ _ ⟨st1, _, ⟨r, hs, hr, hk⟩, hs2, hh2⟩
    refine ⟨r, by rw [hs2, hs], by rw [hh2]; exact hr, hk.trans (KeepsH.of_eq hh2)⟩

/-! ### MARK -/

theorem RunsP.mark_then {b : Bytes} {P : DState → Prop} {Q : DState → DState → Prop} (h : RunsP mc hook c b P Q) :
    RunsP mc hook c (40 :: b) (fun st => P (push st .mark)) (fun st st' => Q (push st .mark) st') := by
  obtain ⟨is, hp, hr⟩ := h
  refine ⟨.mark :: is, ?_, fun insn st hpo hpre => ?_⟩
  · have := Parses.append (parses_op 40 .mark rfl parseArg_40) hp
    simpa using this
  · obtain ⟨st', e, f, q⟩ := hr (insn + 1) (push st .mark) (hpo.of_proto rfl) hpre
    exact ⟨st', by simp [runFrom, exec, e], f, q⟩

/-- A fragment followed by one instruction whose success depends on what the fragment established. -/
theorem RunsP.snoc {b1 b2 : Bytes} {i : Insn} {P : DState → Prop} {Q1 Q : DState → DState → Prop}
    (h1 : RunsP mc hook c b1 P Q1) (hp : Parses b2 [i])
    (he : ∀ pos st st', P st → st'.proto = st.proto → Q1 st st' →
      ∃ st'', exec mc hook i pos st' = .ok st'' ∧ st''.proto = st'.proto ∧ Q st st'') :
    RunsP mc hook c (b1 ++ b2) P Q := by
  obtain ⟨is1, hp1, hr1⟩ := h1
  refine ⟨is1 ++ [i], Parses.append hp1 hp, fun insn st hpo hpre => ?_⟩
  obtain ⟨st1, e1, f1, q1⟩ := hr1 insn st hpo hpre
  obtain ⟨st2, e2, f2, q2⟩ := he (insn + is1.length + 1) st st1 hpre f1 q1
  refine ⟨st2, ?_, f2.trans f1, q2⟩
  rw [runFrom_append mc hook is1 [i] insn st st1 e1]
  simp [runFrom, e2]

end

end Ogorek
