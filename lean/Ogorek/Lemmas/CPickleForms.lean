import Ogorek.Lemmas.CPickleRun

/-!
  Decoding what CPython's pickler writes (C02): the forms — scalars, the memo PUTs, tuples, and
  the batched APPEND(S) / SETITEM(S) groups that fill a list / dict after it was created empty.

  Every statement carries an invariant of the decoder's memo, indexed by the pickler's own state
  (`I : σ → DState → Prop`, depending on the memo only: `MemoOnly`).  With `σ = Unit` and the trivial
  invariant this is the tree-shaped case (nothing is ever fetched from the memo); with the pickler's memo
  table as index it says what every GET will find.
-/
namespace Ogorek

/-- The old heap objects are all still there, unchanged. -/
def KeepsH (st st' : DState) : Prop := st.heap.length ≤ st'.heap.length ∧ AgreeFrom 0 st.heap st'.heap

theorem KeepsH.refl (st : DState) : KeepsH st st := ⟨Nat.le_refl _, AgreeFrom.refl _ _⟩

theorem KeepsH.trans {a b c : DState} (h1 : KeepsH a b) (h2 : KeepsH b c) : KeepsH a c :=
  ⟨Nat.le_trans h1.1 h2.1, AgreeFrom.trans h1.2 h2.2 h1.1⟩

theorem KeepsH.of_frame {st st' : DState} (f : Frame st st') : KeepsH st st' := by
  obtain ⟨t, e⟩ := f.heap
  exact ⟨by rw [e]; simp, by rw [e]; exact AgreeFrom.append _ _ _⟩

theorem KeepsH.of_eq {st st' : DState} (e : st'.heap = st.heap) : KeepsH st st' := by
  unfold KeepsH; rw [e]; exact ⟨Nat.le_refl _, AgreeFrom.refl _ _⟩

/-- The invariant looks at the memo only. -/
def MemoOnly {σ : Type} (I : σ → DState → Prop) : Prop := ∀ s st st', st'.memo = st.memo → I s st → I s st'

theorem MemoOnly.trivial : MemoOnly (fun (_ : Unit) (_ : DState) => True) := fun _ _ _ _ _ => True.intro

section
variable {mc : MCfg} {hook : Hook} {c : ECfg} {σ : Type} {I : σ → DState → Prop}

/-- The fragment pushes values representing the objects `xs` (bottom to top), referring only to heap objects
    it allocated itself, leaves the old heap alone, and takes the memo invariant from `s` to `s'`. -/
def PushesGN (mc : MCfg) (hook : Hook) (c : ECfg) (I : σ → DState → Prop) (bs : Bytes) (xs : List PyObj) (s s' : σ) : Prop :=
  RunsP mc hook c bs (I s) (fun st st' => I s' st' ∧ ∃ rs, st'.stack = rs.reverse ++ st.stack ∧
    RepGList mc.cfg st.heap.length st'.heap rs xs ∧ KeepsH st st')

def PushesG (mc : MCfg) (hook : Hook) (c : ECfg) (I : σ → DState → Prop) (bs : Bytes) (v : PyObj) (s s' : σ) : Prop :=
  RunsP mc hook c bs (I s) (fun st st' => I s' st' ∧ ∃ r, st'.stack = r :: st.stack ∧
    RepG mc.cfg st.heap.length st'.heap r v ∧ KeepsH st st')

theorem PushesG.of_pushes (hI : MemoOnly I) {bs : Bytes} {v : PyObj} {P : GoVal → Prop} (s : σ)
    (h : Pushes mc hook c bs (fun _ r => P r))
    (hP : ∀ r n hp, P r → RepG mc.cfg n hp r v) : PushesG mc hook c I bs v s s := by
  refine RunsP.weaken (RunsP.of_runs h) (fun _ _ => trivial) ?_
  intro st st' hj _ ⟨f, r, hs, hr⟩
  exact ⟨hI s st st' f.memo hj, r, hs, hP r _ _ hr, KeepsH.of_frame f⟩

theorem PushesG.toN {bs : Bytes} {v : PyObj} {s s' : σ} (h : PushesG mc hook c I bs v s s') : PushesGN mc hook c I bs [v] s s' := by
  refine RunsP.weaken h (fun _ h => h) ?_
  intro st st' _ _ ⟨hj, r, hs, hr, hk⟩
  exact ⟨hj, [r], by simpa using hs, by simp [RepGList, hr], hk⟩

theorem PushesGN.nil (s : σ) : PushesGN mc hook c I [] [] s s := by
  refine RunsP.weaken RunsP.nil (fun _ h => h) ?_
  intro st st' hj _ e
  subst e
  exact ⟨hj, [], by simp, by simp [RepGList], KeepsH.refl _⟩

theorem PushesGN.append {b1 b2 : Bytes} {xs1 xs2 : List PyObj} {s s1 s2 : σ}
    (h1 : PushesGN mc hook c I b1 xs1 s s1) (h2 : PushesGN mc hook c I b2 xs2 s1 s2) :
    PushesGN mc hook c I (b1 ++ b2) (xs1 ++ xs2) s s2 := by
  refine RunsP.weaken (RunsP.seq h1 h2 (fun _ _ _ _ q => q.1)) (fun _ h => h) ?_
  intro st st2 _ _ ⟨st1, _, ⟨_, rs1, hs1, hr1, hk1⟩, ⟨hj2, rs2, hs2, hr2, hk2⟩⟩
  refine ⟨hj2, rs1 ++ rs2, by simp [hs2, hs1], ?_, hk1.trans hk2⟩
  refine RepGList.append ?_ ?_
  · exact RepGList.congr mc.cfg (hk2.2.mono (Nat.zero_le _)) (Nat.le_refl _) rs1 xs1 hr1
  · exact RepGList.congr mc.cfg (AgreeFrom.refl _ _) hk1.1 rs2 xs2 hr2

/-- Fragment by fragment, the invariant index threaded through. -/
def FragsGN (mc : MCfg) (hook : Hook) (c : ECfg) (I : σ → DState → Prop) : List Bytes → List (List PyObj) → σ → σ → Prop
  | [], [], s, s' => s = s'
  | f :: fs, xs :: xss, s, s' => ∃ s1, PushesGN mc hook c I f xs s s1 ∧ FragsGN mc hook c I fs xss s1 s'
  | _, _, _, _ => False

theorem FragsGN.flatten : {fs : List Bytes} → {xss : List (List PyObj)} → {s s' : σ} → FragsGN mc hook c I fs xss s s' →
    PushesGN mc hook c I fs.flatten xss.flatten s s'
  | [], [], s, _, h => by
    simp only [FragsGN] at h; subst h
    simpa using PushesGN.nil s
  | [], _ :: _, _, _, h => by simp [FragsGN] at h
  | _ :: _, [], _, _, h => by simp [FragsGN] at h
  | f :: fs, xs :: xss, _, _, h => by
    simp only [FragsGN] at h
    obtain ⟨s1, h1, h2⟩ := h
    simpa using PushesGN.append h1 (FragsGN.flatten h2)

/-- Split after `k` fragments. -/
theorem FragsGN.split : (k : Nat) → {fs : List Bytes} → {xss : List (List PyObj)} → {s s' : σ} → FragsGN mc hook c I fs xss s s' →
    ∃ sm, FragsGN mc hook c I (fs.take k) (xss.take k) s sm ∧ FragsGN mc hook c I (fs.drop k) (xss.drop k) sm s'
  | 0, _, _, s, _, h => ⟨s, by simp [FragsGN], by simpa using h⟩
  | _ + 1, [], [], s, _, h => ⟨s, by simp [FragsGN], by simpa using h⟩
  | _ + 1, [], _ :: _, _, _, h => by simp [FragsGN] at h
  | _ + 1, _ :: _, [], _, _, h => by simp [FragsGN] at h
  | k + 1, f :: fs, xs :: xss, _, _, h => by
    simp only [FragsGN] at h
    obtain ⟨s1, h1, h2⟩ := h
    obtain ⟨sm, a, b⟩ := FragsGN.split k h2
    exact ⟨sm, by simp only [List.take_succ_cons, FragsGN]; exact ⟨s1, h1, a⟩, by simpa using b⟩

theorem FragsGN.length : {fs : List Bytes} → {xss : List (List PyObj)} → {s s' : σ} → FragsGN mc hook c I fs xss s s' →
    fs.length = xss.length
  | [], [], _, _, _ => rfl
  | [], _ :: _, _, _, h => by simp [FragsGN] at h
  | _ :: _, [], _, _, h => by simp [FragsGN] at h
  | _ :: _, _ :: _, _, _, h => by
    simp only [FragsGN] at h
    obtain ⟨_, _, h2⟩ := h
    simp [FragsGN.length h2]

theorem FragsGN.append_inv : {f1 f2 : List Bytes} → {x1 x2 : List (List PyObj)} → {s s' : σ} → f1.length = x1.length →
    FragsGN mc hook c I (f1 ++ f2) (x1 ++ x2) s s' → ∃ sm, FragsGN mc hook c I f1 x1 s sm ∧ FragsGN mc hook c I f2 x2 sm s'
  | [], _, [], _, s, _, _, h => ⟨s, by simp [FragsGN], by simpa using h⟩
  | [], _, _ :: _, _, _, _, hl, _ => by simp at hl
  | _ :: _, _, [], _, _, _, hl, _ => by simp at hl
  | f :: f1, f2, x :: x1, x2, _, _, hl, h => by
    simp only [List.cons_append, FragsGN] at h
    obtain ⟨s1, h1, h2⟩ := h
    obtain ⟨sm, a, b⟩ := FragsGN.append_inv (by simpa using hl) h2
    exact ⟨sm, by simp only [FragsGN]; exact ⟨s1, h1, a⟩, b⟩

/-! ### the memo -/

/-- The top of the stack is a value (not the marker). -/
def TopUser (st : DState) : Prop := ∃ v s, st.stack = v :: s ∧ isMark v = false

/-- What a `memo_put` between the pickler states `s` and `s'` has to do: succeed on any value, touch only the memo,
    and take the invariant along. -/
def PutOK (mc : MCfg) (hook : Hook) (c : ECfg) (I : σ → DState → Prop) (bs : Bytes) (v : GoVal → Prop) (s s' : σ) : Prop :=
  RunsP mc hook c bs (fun st => I s st ∧ ∃ r rest, st.stack = r :: rest ∧ isMark r = false ∧ v r)
    (fun st st' => I s' st' ∧ st'.stack = st.stack ∧ st'.heap = st.heap)

theorem exec_put (pos : Nat) (st : DState) (key : Bytes) {v : GoVal} {s : List GoVal} (hs : st.stack = v :: s) (hm : isMark v = false) :
    exec mc hook (.put key) pos st = .ok (memoPut st key v) := by
  simp [exec, hs, userOK_nm hm, bind, Except.bind, pure, Except.pure]

/-- `memo_put`: any of the four PUT forms succeeds on a value and changes only the memo. -/
theorem runs_put (p n : Nat) :
    RunsP mc hook c (cpPut p n) TopUser (fun st st' => st'.stack = st.stack ∧ st'.heap = st.heap) := by
  unfold cpPut
  split
  · refine RunsP.one (parses_op 0x94 .memoize rfl parseArg_148) ?_
    intro pos st _ ⟨v, s, hs, hm⟩
    refine ⟨memoPut st (memoKey st.memo.length) v, ?_, rfl, rfl, rfl⟩
    simp [exec, hs, userOK_nm hm, bind, Except.bind, pure, Except.pure]
  · split
    · split
      · refine RunsP.one (i := .put (memoKey (UInt8.ofNat n).toNat)) (Parses.single rfl fun t => ?_) ?_
        · simp [parseInsn, Rd.bind, readByte, parseArg_113, Rd.map, Rd.pure]
        · intro pos st _ ⟨v, s, hs, hm⟩
          exact ⟨_, exec_put pos st _ hs hm, rfl, rfl, rfl⟩
      · refine RunsP.one (i := .put (memoKey (leNat (natLE 4 n)))) (Parses.single rfl fun t => ?_) ?_
        · have e : (114 :: le4 n) ++ t = 114 :: (natLE 4 n ++ t) := by simp [le4]
          rw [e]
          simp [parseInsn, Rd.bind, readByte, parseArg_114, Rd.map, Rd.pure, readFull_exact 4 _ t (natLE_length 4 _)]
        · intro pos st _ ⟨v, s, hs, hm⟩
          exact ⟨_, exec_put pos st _ hs hm, rfl, rfl, rfl⟩
    · refine RunsP.one (i := .put (natDigits n)) (Parses.single rfl fun t => ?_) ?_
      · have e : (112 :: natDigits n ++ [10]) ++ t = 112 :: (natDigits n ++ 10 :: t) := by simp
        rw [e]
        have hl : (10 : UInt8) ∉ natDigits n := natDigits_no n 10 (by decide)
        simp [parseInsn, Rd.bind, readByte, parseArg_112, Rd.map, Rd.pure, readLine_line _ _ hl]
      · intro pos st _ ⟨v, s, hs, hm⟩
        exact ⟨_, exec_put pos st _ hs hm, rfl, rfl, rfl⟩

/-- With the trivial invariant every PUT is fine. -/
theorem PutOK.trivial (p n : Nat) (v : GoVal → Prop) :
    PutOK mc hook c (fun (_ : Unit) (_ : DState) => True) (cpPut p n) v () () := by
  refine RunsP.weaken (runs_put p n) ?_ ?_
  · intro st ⟨_, r, rest, hs, hm, _⟩
    exact ⟨r, rest, hs, hm⟩
  · intro st st' _ _ q
    exact ⟨True.intro, q⟩

/-- A pushed object followed by its `memo_put`. -/
theorem PushesG.put {bs pb : Bytes} {v : PyObj} {s s1 s2 : σ} {vp : GoVal → Prop} (h : PushesG mc hook c I bs v s s1)
    (hput : PutOK mc hook c I pb vp s1 s2) (hv : ∀ n hp r, RepG mc.cfg n hp r v → vp r) :
    PushesG mc hook c I (bs ++ pb) v s s2 := by
  refine RunsP.weaken (RunsP.seq h hput ?_) (fun _ h => h) ?_
  · intro st st1 _ _ ⟨hj, r, hs, hr, _⟩
    exact ⟨hj, r, st.stack, hs, hr.not_mark, hv _ _ _ hr⟩
  · intro st st2 _ _ ⟨st1, _, ⟨_, r, hs, hr, hk⟩, hj2, hs2, hh2⟩
    refine ⟨hj2, r, by rw [hs2, hs], by rw [hh2]; exact hr, hk.trans (KeepsH.of_eq hh2)⟩

/-! ### MARK -/

theorem RunsP.mark_then {b : Bytes} {P : DState → Prop} {Q : DState → DState → Prop} (h : RunsP mc hook c b P Q) :
    RunsP mc hook c (40 :: b) (fun st => P (push st .mark)) (fun st st' => Q (push st .mark) st') := by
  obtain ⟨is, hp, hr⟩ := h
  refine ⟨.mark :: is, ?_, fun insn st hpo hpre => ?_⟩
  · have := Parses.append (parses_op 40 .mark rfl parseArg_40) hp
    simpa using this
  · obtain ⟨st', e, f, q⟩ := hr (insn + 1) (push st .mark) (hpo.of_proto rfl) hpre
    exact ⟨st', by simp [runFrom, exec, e], f, q⟩

/-- A fragment followed by one instruction whose success depends on what the fragment established. -/
theorem RunsP.snoc {b1 b2 : Bytes} {i : Insn} {P : DState → Prop} {Q1 Q : DState → DState → Prop}
    (h1 : RunsP mc hook c b1 P Q1) (hp : Parses b2 [i])
    (he : ∀ pos st st', P st → st'.proto = st.proto → Q1 st st' →
      ∃ st'', exec mc hook i pos st' = .ok st'' ∧ st''.proto = st'.proto ∧ Q st st'') :
    RunsP mc hook c (b1 ++ b2) P Q := by
  obtain ⟨is1, hp1, hr1⟩ := h1
  refine ⟨is1 ++ [i], Parses.append hp1 hp, fun insn st hpo hpre => ?_⟩
  obtain ⟨st1, e1, f1, q1⟩ := hr1 insn st hpo hpre
  obtain ⟨st2, e2, f2, q2⟩ := he (insn + is1.length + 1) st st1 hpre f1 q1
  refine ⟨st2, ?_, f2.trans f1, q2⟩
  rw [runFrom_append mc hook is1 [i] insn st st1 e1]
  simp [runFrom, e2]

end

end Ogorek
