import Ogorek.Lemmas.RelocStep

/-! One instruction on two relocated runs: the same error (memo fetches apart). -/
namespace Ogorek

def Insn.isGet : Insn → Bool
  | .get _ => true
  | _ => false

section
variable {dh db : Nat} {H0 : List HObj}

theorem Reloc.heap_none {A B : DState} (h : Reloc dh db H0 A B) {id : Nat} (hg : A.heap[id]? = none) :
    B.heap[id + dh]? = none := by
  rw [h.heap, h.hdh]
  rw [List.getElem?_append_right (by omega)]
  simp [hg]

theorem listAppend_reloc_none {A B : DState} (hr : Reloc dh db H0 A B) (l : GoVal) (items : List GoVal)
    (h : listAppend A l items = none) : listAppend B (shiftV dh db l) (shiftL dh db items) = none := by
  unfold listAppend at h ⊢
  cases l with
  | list xs => simp at h
  | href id =>
    simp only [shiftV] at h ⊢
    cases hg : A.heap[id]? with
    | none => simp [hr.heap_none hg]
    | some o =>
      rw [hg] at h
      simp only at h
      rw [hr.heap_get hg]
      simp only [shiftO]
      split at h
      · simp at h
      · rename_i hk; simp [hk]
  | _ => simp [shiftV]

theorem reloc_step_err (mc : MCfg) (i : Insn) (pos : Nat) {A B : DState} {e : DErr} (hr : Reloc dh db H0 A B) (hi : i.isGet = false)
    (he : exec mc none i pos A = .error e) : exec mc none i pos B = .error e := by
  have hs := hr.stack
  cases i with
  | mark | stop | pushFloat _ | pushBool _ | pushInt _ | pushBig _ | pushNone | persid _ | pushByteString _ | pushStr _ | pushBytes _
  | pushBytearray _ | global _ _ | emptyDict | frame | emptyTuple => simp [exec, handleRef, allocObj] at he
  | emptyList => simp only [exec, mkList] at he; split at he <;> simp [allocObj] at he
  | popMark | build | inst | obj | nextBuffer | readonlyBuffer | unknown _ => simpa [exec] using he
  | get _ => simp [Insn.isGet] at hi
  | pop =>
    cases hA : A.stack with
    | nil => rw [hA] at hs; simp only [shiftL] at hs; simpa [exec, Ogorek.pop, hA, hs, bind, Except.bind] using he
    | cons v s => simp [exec, Ogorek.pop, hA, bind, Except.bind, pure, Except.pure] at he
  | dup =>
    cases hA : A.stack with
    | nil => rw [hA] at hs; simp only [shiftL] at hs; simpa [exec, hA, hs] using he
    | cons v s => simp [exec, hA] at he
  | proto v =>
    simp only [exec] at he ⊢
    split at he
    · simp at he
    · rename_i hv; simpa [hv] using he
  | memoize =>
    cases hA : A.stack with
    | nil => rw [hA] at hs; simp only [shiftL] at hs; simpa [exec, hA, hs] using he
    | cons v s =>
      rw [hA] at hs
      simp only [shiftL] at hs
      simp only [exec, hA, hs, userOK_shift, bind, Except.bind, pure, Except.pure] at he ⊢
      cases hu : userOK v with
      | error e' => rw [hu] at he; simpa using he
      | ok u => rw [hu] at he; simp at he
  | put key =>
    cases hA : A.stack with
    | nil => rw [hA] at hs; simp only [shiftL] at hs; simpa [exec, hA, hs] using he
    | cons v s =>
      rw [hA] at hs
      simp only [shiftL] at hs
      simp only [exec, hA, hs, userOK_shift, bind, Except.bind, pure, Except.pure] at he ⊢
      cases hu : userOK v with
      | error e' => rw [hu] at he; simpa using he
      | ok u => rw [hu] at he; simp at he
  | binpersid =>
    cases hA : A.stack with
    | nil => rw [hA] at hs; simp only [shiftL] at hs; simpa [exec, popUser, Ogorek.pop, hA, hs, bind, Except.bind] using he
    | cons v s =>
      rw [hA] at hs
      simp only [shiftL] at hs
      simp only [exec, popUser, Ogorek.pop, hA, hs, userOK_shift, bind, Except.bind, pure, Except.pure, handleRef] at he ⊢
      cases hu : userOK v with
      | error e' => rw [hu] at he; simpa using he
      | ok u => rw [hu] at he; simp at he
  | tuple =>
    simp only [exec] at he ⊢
    rw [hs, splitAtMark_shift]
    cases hsp : splitAtMark A.stack with
    | none => rw [hsp] at he; simpa using he
    | some p => rw [hsp] at he; simp at he
  | list =>
    simp only [exec] at he ⊢
    rw [hs, splitAtMark_shift]
    cases hsp : splitAtMark A.stack with
    | none => rw [hsp] at he; simpa using he
    | some p =>
      rw [hsp] at he
      simp only [mkList] at he
      split at he <;> simp [allocObj] at he
  | tupleN n =>
    simp only [exec] at he ⊢
    rw [hs, shiftL_length]
    split at he
    · rename_i hlen; simpa [hlen] using he
    · rename_i hlen
      simp only [hlen, if_false, bind, Except.bind, pure, Except.pure] at he ⊢
      rw [← shiftL_take, ← shiftL_reverse, userOKAll_shift]
      cases hu : userOKAll (List.take n A.stack).reverse with
      | error e' => rw [hu] at he; simpa using he
      | ok u => rw [hu] at he; simp at he
  | dict =>
    simp only [exec] at he ⊢
    rw [hs, splitAtMark_shift]
    cases hsp : splitAtMark A.stack with
    | none => rw [hsp] at he; simpa using he
    | some p =>
      obtain ⟨above, below⟩ := p
      rw [hsp] at he
      simp only [Option.map_some, shiftL_length] at he ⊢
      split at he
      · rename_i hpar; simpa [hpar] using he
      · rename_i hpar
        simp only [hpar, if_false] at he ⊢
        have ha := assignAll_shift dh db (dictKind mc.cfg) above.reverse []
        simp only [shiftP, shiftL_reverse] at ha
        rw [ha]
        cases hass : assignAll (dictKind mc.cfg) [] above.reverse with
        | none => rw [hass] at he; simpa using he
        | some es => rw [hass] at he; simp [allocObj] at he
  | stackGlobal =>
    simp only [exec] at he ⊢
    rw [hs, shiftL_length]
    split at he
    · rename_i hlen; simpa [hlen] using he
    · rename_i hlen
      simp only [hlen, if_false] at he ⊢
      match hA : A.stack, hlen with
      | [], hl => simp at hl
      | [_], hl => simp at hl
      | a :: b :: s, _ =>
        rw [hA] at hs
        simp only [shiftL] at hs
        simp only [xpop, hA, hs, bind, Except.bind, pure, Except.pure] at he ⊢
        cases a <;> cases b <;> simp [shiftV] at he ⊢ <;> exact he
  | reduce =>
    simp only [exec] at he ⊢
    rw [hs, shiftL_length]
    split at he
    · rename_i hlen; simpa [hlen] using he
    · rename_i hlen
      simp only [hlen, if_false] at he ⊢
      match hA : A.stack, hlen with
      | [], hl => simp at hl
      | [_], hl => simp at hl
      | a :: b :: s, _ =>
        rw [hA] at hs
        simp only [shiftL] at hs
        simp only [xpop, hA, hs, bind, Except.bind, pure, Except.pure] at he ⊢
        cases a with
        | tuple args =>
          cases b with
          | cls m n =>
            simp only [shiftV, handleCall_shift, hr.proto] at he ⊢
            cases hc : handleCall A.proto m n args with
            | none => rw [hc] at he; simp at he
            | some r =>
              rw [hc] at he
              cases r with
              | error e' => simpa using he
              | ok v => simp at he
          | _ => simpa [shiftV] using he
        | _ => cases b <;> simpa [shiftV] using he
  | append =>
    simp only [exec] at he ⊢
    rw [hs, shiftL_length]
    split at he
    · rename_i hlen; simpa [hlen] using he
    · rename_i hlen
      simp only [hlen, if_false] at he ⊢
      match hA : A.stack, hlen with
      | [], hl => simp at hl
      | [_], hl => simp at hl
      | v :: l :: below, _ =>
        rw [hA] at hs
        simp only [shiftL] at hs
        simp only [xpop, hA, hs, userOK_shift, bind, Except.bind, pure, Except.pure] at he ⊢
        cases hu : userOK v with
        | error e' => rw [hu] at he; simpa using he
        | ok u =>
          rw [hu] at he
          simp only at he ⊢
          have hr1 := hr.setStack (l :: below)
          cases hla : listAppend { A with stack := l :: below } l [v] with
          | none =>
            rw [hla] at he
            have := listAppend_reloc_none hr1 l [v] hla
            simp only [shiftL] at this
            rw [this]
            simpa using he
          | some r => rw [hla] at he; simp at he
  | appends =>
    simp only [exec] at he ⊢
    rw [hs, splitAtMark_shift]
    cases hsp : splitAtMark A.stack with
    | none => rw [hsp] at he; simpa using he
    | some p =>
      obtain ⟨above, below⟩ := p
      rw [hsp] at he
      simp only [Option.map_some] at he ⊢
      cases below with
      | nil => simpa [shiftL] using he
      | cons l below' =>
        simp only [shiftL] at he ⊢
        cases hla : listAppend A l above.reverse with
        | none =>
          rw [hla] at he
          have := listAppend_reloc_none hr l above.reverse hla
          rw [shiftL_reverse] at this
          rw [this]
          simpa using he
        | some r => rw [hla] at he; simp at he
  | setitem =>
    simp only [exec] at he ⊢
    rw [hs, shiftL_length]
    split at he
    · rename_i hlen; simpa [hlen] using he
    · rename_i hlen
      simp only [hlen, if_false] at he ⊢
      match hA : A.stack, hlen with
      | [], hl => simp at hl
      | [_], hl => simp at hl
      | [_, _], hl => simp at hl
      | v :: k :: d :: below, _ =>
        rw [hA] at hs
        simp only [shiftL] at hs
        simp only [xpop, hA, hs, userOK_shift, bind, Except.bind, pure, Except.pure] at he ⊢
        cases huk : userOK k with
        | error e' => rw [huk] at he; simpa using he
        | ok u =>
          rw [huk] at he
          simp only at he ⊢
          cases huv : userOK v with
          | error e' => rw [huv] at he; simpa using he
          | ok u2 =>
            rw [huv] at he
            simp only at he ⊢
            cases d with
            | href id =>
              simp only [shiftV] at he ⊢
              cases hg : A.heap[id]? with
              | none => rw [hg] at he; rw [hr.heap_none hg]; simpa using he
              | some o =>
                rw [hg] at he
                rw [hr.heap_get hg]
                simp only [shiftO] at he ⊢
                split at he
                · rename_i hk; simpa [hk] using he
                · rename_i hk
                  simp only [hk, if_false, tryAssign_shift] at he ⊢
                  cases hta : tryAssign o.kind o.kvs k v with
                  | none => rw [hta] at he; simpa using he
                  | some es => rw [hta] at he; simp at he
            | _ => simpa [shiftV] using he
  | setitems =>
    simp only [exec] at he ⊢
    rw [hs, splitAtMark_shift]
    cases hsp : splitAtMark A.stack with
    | none => rw [hsp] at he; simpa using he
    | some p =>
      obtain ⟨above, below⟩ := p
      rw [hsp] at he
      simp only [Option.map_some] at he ⊢
      cases below with
      | nil => simpa [shiftL] using he
      | cons l below' =>
        simp only [shiftL, shiftL_length] at he ⊢
        split at he
        · rename_i hpar; simpa [hpar] using he
        · rename_i hpar
          simp only [hpar, if_false] at he ⊢
          cases l with
          | href id =>
            simp only [shiftV] at he ⊢
            cases hg : A.heap[id]? with
            | none => rw [hg] at he; rw [hr.heap_none hg]; simpa using he
            | some o =>
              rw [hg] at he
              rw [hr.heap_get hg]
              simp only [shiftO] at he ⊢
              split at he
              · rename_i hk; simpa [hk] using he
              · rename_i hk
                have ha := assignAll_shift dh db o.kind above.reverse o.kvs
                rw [shiftL_reverse] at ha
                simp only [hk, if_false, ha] at he ⊢
                cases hta : assignAll o.kind o.kvs above.reverse with
                | none => rw [hta] at he; simpa using he
                | some es => rw [hta] at he; simp at he
          | _ => simpa [shiftV] using he

end

end Ogorek
