import Ogorek.CPickle
import Ogorek.Lemmas.RoundTrip

/-!
  Decoding what CPython's pickler writes (C02): the run framework.

  `RunsP` is `Runs` with a precondition on the start state and without the "memo untouched"
  clause (every container and string is followed by a PUT / MEMOIZE), and `RepG` is `Rep` for
  Python objects with a *locality* index: every heap object the value refers to was allocated at
  index `≥ n`.  SETITEM(S) updates the dict under construction in place, and locality is what keeps
  the already decoded keys and values valid across that update.
-/
namespace Ogorek

/-- `bs` parses as non-STOP instructions which, from every state satisfying `Pre`, run without
    error into a state of the same protocol related to the start by `Q`. -/
def RunsP (mc : MCfg) (hook : Hook) (c : ECfg) (bs : Bytes) (Pre : DState → Prop) (Q : DState → DState → Prop) : Prop :=
  ∃ is, Parses bs is ∧ ∀ insn st, ProtoOK c st → Pre st →
    ∃ st', runFrom mc hook insn is st = .ok st' ∧ st'.proto = st.proto ∧ Q st st'

theorem ProtoOK.of_proto {c : ECfg} {st st' : DState} (h : ProtoOK c st) (e : st'.proto = st.proto) : ProtoOK c st' := by
  unfold ProtoOK at *; rw [e]; exact h

section
variable {mc : MCfg} {hook : Hook} {c : ECfg}

theorem RunsP.of_runs {bs : Bytes} {Q : DState → DState → Prop} (h : Runs mc hook c bs Q) :
    RunsP mc hook c bs (fun _ => True) (fun st st' => Frame st st' ∧ Q st st') := by
  obtain ⟨is, hp, hr⟩ := h
  refine ⟨is, hp, fun insn st hpo _ => ?_⟩
  obtain ⟨st', e, f, q⟩ := hr insn st hpo
  exact ⟨st', e, f.proto, f, q⟩

theorem RunsP.weaken {bs : Bytes} {P P' : DState → Prop} {Q Q' : DState → DState → Prop}
    (h : RunsP mc hook c bs P Q) (hp : ∀ st, P' st → P st)
    (hq : ∀ st st', P' st → st'.proto = st.proto → Q st st' → Q' st st') : RunsP mc hook c bs P' Q' := by
  obtain ⟨is, hpar, hr⟩ := h
  refine ⟨is, hpar, fun insn st hpo hpre => ?_⟩
  obtain ⟨st', e, f, q⟩ := hr insn st hpo (hp st hpre)
  exact ⟨st', e, f, hq st st' hpre f q⟩

theorem RunsP.seq {b1 b2 : Bytes} {P1 P2 : DState → Prop} {Q1 Q2 : DState → DState → Prop}
    (h1 : RunsP mc hook c b1 P1 Q1) (h2 : RunsP mc hook c b2 P2 Q2)
    (hmid : ∀ st st1, P1 st → st1.proto = st.proto → Q1 st st1 → P2 st1) :
    RunsP mc hook c (b1 ++ b2) P1 (fun st st2 => ∃ st1, st1.proto = st.proto ∧ Q1 st st1 ∧ Q2 st1 st2) := by
  obtain ⟨is1, hp1, hr1⟩ := h1
  obtain ⟨is2, hp2, hr2⟩ := h2
  refine ⟨is1 ++ is2, Parses.append hp1 hp2, fun insn st hpo hpre => ?_⟩
  obtain ⟨st1, e1, f1, q1⟩ := hr1 insn st hpo hpre
  obtain ⟨st2, e2, f2, q2⟩ := hr2 (insn + is1.length) st1 (hpo.of_proto f1) (hmid st st1 hpre f1 q1)
  refine ⟨st2, ?_, f2.trans f1, st1, f1, q1, q2⟩
  rw [runFrom_append mc hook is1 is2 insn st st1 e1, e2]

theorem RunsP.one {bs : Bytes} {i : Insn} {P : DState → Prop} {Q : DState → DState → Prop}
    (hp : Parses bs [i])
    (he : ∀ pos st, ProtoOK c st → P st → ∃ st', exec mc hook i pos st = .ok st' ∧ st'.proto = st.proto ∧ Q st st') :
    RunsP mc hook c bs P Q := by
  refine ⟨[i], hp, fun insn st hpo hpre => ?_⟩
  obtain ⟨st', e, f, q⟩ := he (insn + 1) st hpo hpre
  exact ⟨st', by simp [runFrom, e], f, q⟩

theorem RunsP.nil {P : DState → Prop} : RunsP mc hook c [] P (fun st st' => st' = st) :=
  ⟨[], Parses.nil, fun _ st _ _ => ⟨st, rfl, rfl, rfl⟩⟩

end

/-! ### representation with locality -/

/-- The heaps agree from index `n` on, as far as `h` goes. -/
def AgreeFrom (n : Nat) (h h' : List HObj) : Prop := ∀ i, n ≤ i → i < h.length → h'[i]? = h[i]?

theorem AgreeFrom.refl (n : Nat) (h : List HObj) : AgreeFrom n h h := fun _ _ _ => rfl

theorem AgreeFrom.append (n : Nat) (h t : List HObj) : AgreeFrom n h (h ++ t) :=
  fun i _ hi => List.getElem?_append_left hi

theorem AgreeFrom.trans {n : Nat} {h1 h2 h3 : List HObj} (a : AgreeFrom n h1 h2) (b : AgreeFrom n h2 h3)
    (hl : h1.length ≤ h2.length) : AgreeFrom n h1 h3 :=
  fun i hn hi => (b i hn (by omega)).trans (a i hn hi)

theorem AgreeFrom.mono {n m : Nat} {h h' : List HObj} (a : AgreeFrom n h h') (hm : n ≤ m) : AgreeFrom m h h' :=
  fun i hn hi => a i (by omega) hi

theorem AgreeFrom.set {n : Nat} (h : List HObj) (id : Nat) (o : HObj) (hid : id < n) : AgreeFrom n h (h.set id o) := by
  intro i hn _
  rw [List.getElem?_set]
  have : ¬ id = i := by omega
  simp [this]

mutual
def RepG (cfg : Cfg) (n : Nat) (heap : List HObj) (r : GoVal) : PyObj → Prop
  | .none => r = .none
  | .bool b => r = .bool b
  | .int i => if fits32 i = true then r = .int i else ∃ id, r = .big id i
  | .float f => r = .float f
  | .str s => r = .str s
  | .bytes s => r = .bytes s
  | .bytearray s => r = .bytearray s
  | .tuple xs => ∃ rs, r = .tuple rs ∧ RepGList cfg n heap rs xs
  | .list xs => ∃ rs, r = .list rs ∧ RepGList cfg n heap rs xs
  | .dict kvs => ∃ id es, r = .href id ∧ n ≤ id ∧ heap[id]? = some { kind := dictKind cfg, kvs := es } ∧
      RepGPairs cfg n heap es kvs
def RepGList (cfg : Cfg) (n : Nat) (heap : List HObj) : List GoVal → List PyObj → Prop
  | [], [] => True
  | r :: rs, x :: xs => RepG cfg n heap r x ∧ RepGList cfg n heap rs xs
  | _, _ => False
def RepGPairs (cfg : Cfg) (n : Nat) (heap : List HObj) : Entries → List (PyObj × PyObj) → Prop
  | [], [] => True
  | (rk, rv) :: es, (k, v) :: kvs => RepG cfg n heap rk k ∧ RepG cfg n heap rv v ∧ RepGPairs cfg n heap es kvs
  | _, _ => False
end

theorem getElem?_lt_of_some {α} {l : List α} {i : Nat} {a : α} (h : l[i]? = some a) : i < l.length := by
  rcases Nat.lt_or_ge i l.length with h' | h'
  · exact h'
  · rw [List.getElem?_eq_none h'] at h; cases h

mutual
/-- Locality: only the heap from `n` on matters, and the bound may be lowered. -/
theorem RepG.congr (cfg : Cfg) {n m : Nat} {h h' : List HObj} (a : AgreeFrom n h h') (hm : m ≤ n) (r : GoVal) :
    (v : PyObj) → RepG cfg n h r v → RepG cfg m h' r v
  | .none, hr | .bool _, hr | .float _, hr | .str _, hr | .bytes _, hr | .bytearray _, hr => by simpa [RepG] using hr
  | .int i, hr => by simpa [RepG] using hr
  | .tuple xs, hr => by
    simp only [RepG] at hr ⊢
    obtain ⟨rs, e, hl⟩ := hr
    exact ⟨rs, e, RepGList.congr cfg a hm rs xs hl⟩
  | .list xs, hr => by
    simp only [RepG] at hr ⊢
    obtain ⟨rs, e, hl⟩ := hr
    exact ⟨rs, e, RepGList.congr cfg a hm rs xs hl⟩
  | .dict kvs, hr => by
    simp only [RepG] at hr ⊢
    obtain ⟨id, es, e, hge, hg, hp⟩ := hr
    exact ⟨id, es, e, by omega, (a id hge (getElem?_lt_of_some hg)).trans hg, RepGPairs.congr cfg a hm es kvs hp⟩
theorem RepGList.congr (cfg : Cfg) {n m : Nat} {h h' : List HObj} (a : AgreeFrom n h h') (hm : m ≤ n) :
    (rs : List GoVal) → (xs : List PyObj) → RepGList cfg n h rs xs → RepGList cfg m h' rs xs
  | [], [], _ => by simp [RepGList]
  | [], _ :: _, hr => by simp [RepGList] at hr
  | _ :: _, [], hr => by simp [RepGList] at hr
  | r :: rs, x :: xs, hr => by
    simp only [RepGList] at hr ⊢
    exact ⟨RepG.congr cfg a hm r x hr.1, RepGList.congr cfg a hm rs xs hr.2⟩
theorem RepGPairs.congr (cfg : Cfg) {n m : Nat} {h h' : List HObj} (a : AgreeFrom n h h') (hm : m ≤ n) :
    (es : Entries) → (kvs : List (PyObj × PyObj)) → RepGPairs cfg n h es kvs → RepGPairs cfg m h' es kvs
  | [], [], _ => by simp [RepGPairs]
  | [], _ :: _, hr => by simp [RepGPairs] at hr
  | _ :: _, [], hr => by simp [RepGPairs] at hr
  | (rk, rv) :: es, (k, v) :: kvs, hr => by
    simp only [RepGPairs] at hr ⊢
    exact ⟨RepG.congr cfg a hm rk k hr.1, RepG.congr cfg a hm rv v hr.2.1, RepGPairs.congr cfg a hm es kvs hr.2.2⟩
end

mutual
/-- `RepG` is `Rep` of the documented Go value. -/
theorem RepG.toRep (mc : MCfg) (ρ : GoVal → GoVal) {n : Nat} {h : List HObj} (r : GoVal) :
    (v : PyObj) → RepG mc.cfg n h r v → Rep mc ρ h r (goOf v)
  | .none, hr | .bool _, hr | .float _, hr | .str _, hr | .bytes _, hr | .bytearray _, hr => by simpa [RepG, goOf, Rep] using hr
  | .int i, hr => by
    simp only [RepG] at hr
    simp only [goOf]
    split
    · rename_i hf; simpa [Rep, hf] using hr
    · rename_i hf; simpa [Rep, hf] using hr
  | .tuple xs, hr => by
    simp only [RepG] at hr
    simp only [goOf, Rep]
    obtain ⟨rs, e, hl⟩ := hr
    exact ⟨rs, e, RepGList.toRep mc ρ rs xs hl⟩
  | .list xs, hr => by
    simp only [RepG] at hr
    simp only [goOf, Rep]
    obtain ⟨rs, e, hl⟩ := hr
    exact ⟨rs, e, RepGList.toRep mc ρ rs xs hl⟩
  | .dict kvs, hr => by
    simp only [RepG] at hr
    simp only [goOf, Rep]
    obtain ⟨id, es, e, _, hg, hp⟩ := hr
    exact ⟨id, es, e, hg, RepGPairs.toRep mc ρ es kvs hp⟩
theorem RepGList.toRep (mc : MCfg) (ρ : GoVal → GoVal) {n : Nat} {h : List HObj} :
    (rs : List GoVal) → (xs : List PyObj) → RepGList mc.cfg n h rs xs → RepList mc ρ h rs (goOfList xs)
  | [], [], _ => by simp [goOfList, RepList]
  | [], _ :: _, hr => by simp [RepGList] at hr
  | _ :: _, [], hr => by simp [RepGList] at hr
  | r :: rs, x :: xs, hr => by
    simp only [RepGList] at hr
    simp only [goOfList, RepList]
    exact ⟨RepG.toRep mc ρ r x hr.1, RepGList.toRep mc ρ rs xs hr.2⟩
theorem RepGPairs.toRep (mc : MCfg) (ρ : GoVal → GoVal) {n : Nat} {h : List HObj} :
    (es : Entries) → (kvs : List (PyObj × PyObj)) → RepGPairs mc.cfg n h es kvs → RepPairs mc ρ h es (goOfPairs kvs)
  | [], [], _ => by simp [goOfPairs, RepPairs]
  | [], _ :: _, hr => by simp [RepGPairs] at hr
  | _ :: _, [], hr => by simp [RepGPairs] at hr
  | (rk, rv) :: es, (k, v) :: kvs, hr => by
    simp only [RepGPairs] at hr
    simp only [goOfPairs, RepPairs]
    exact ⟨RepG.toRep mc ρ rk k hr.1, RepG.toRep mc ρ rv v hr.2.1, RepGPairs.toRep mc ρ es kvs hr.2.2⟩
end

theorem RepG.not_mark {cfg : Cfg} {n : Nat} {h : List HObj} {r : GoVal} {v : PyObj} (hr : RepG cfg n h r v) : isMark r = false :=
  (RepG.toRep { cfg := cfg } id r v hr).not_mark

theorem RepGList.no_mark {cfg : Cfg} {n : Nat} {h : List HObj} {rs : List GoVal} {xs : List PyObj}
    (hr : RepGList cfg n h rs xs) : ∀ r ∈ rs, isMark r = false :=
  RepList.no_mark (RepGList.toRep { cfg := cfg } id rs xs hr)

theorem RepGList.append {cfg : Cfg} {n : Nat} {h : List HObj} : {rs1 rs2 : List GoVal} → {xs1 xs2 : List PyObj} →
    RepGList cfg n h rs1 xs1 → RepGList cfg n h rs2 xs2 → RepGList cfg n h (rs1 ++ rs2) (xs1 ++ xs2)
  | [], _, [], _, _, h2 => by simpa using h2
  | [], _, _ :: _, _, h1, _ => by simp [RepGList] at h1
  | _ :: _, _, [], _, h1, _ => by simp [RepGList] at h1
  | _ :: _, _, _ :: _, _, h1, h2 => by
    simp only [RepGList, List.cons_append] at h1 ⊢
    exact ⟨h1.1, RepGList.append h1.2 h2⟩

theorem RepGPairs.append {cfg : Cfg} {n : Nat} {h : List HObj} : {e1 e2 : Entries} → {k1 k2 : List (PyObj × PyObj)} →
    RepGPairs cfg n h e1 k1 → RepGPairs cfg n h e2 k2 → RepGPairs cfg n h (e1 ++ e2) (k1 ++ k2)
  | [], _, [], _, _, h2 => by simpa using h2
  | [], _, _ :: _, _, h1, _ => by simp [RepGPairs] at h1
  | _ :: _, _, [], _, h1, _ => by simp [RepGPairs] at h1
  | (_, _) :: _, _, (_, _) :: _, _, h1, h2 => by
    simp only [RepGPairs, List.cons_append] at h1 ⊢
    exact ⟨h1.1, h1.2.1, RepGPairs.append h1.2.2 h2⟩

end Ogorek
