import Ogorek.Lemmas.Utf8Inv

/-!
  `pydecodeRawUnicodeEscape ∘ pyencodeRawUnicodeEscape = id` on every string the encoder accepts
  (valid UTF-8), and the encoder's output holds no newline: the protocol-0 UNICODE form carries
  any text exactly.
-/
namespace Ogorek

theorem hexN4 (a b c d : Nat) (rest : Bytes) :
    hexN 4 (hexLower a :: hexLower b :: hexLower c :: hexLower d :: rest) 0 =
      some (((a % 16 * 16 + b % 16) * 16 + c % 16) * 16 + d % 16, rest) := by
  simp [hexN, unhex_hexLower]

theorem hexN8 (a b c d e f g h : Nat) (rest : Bytes) :
    hexN 8 (hexLower a :: hexLower b :: hexLower c :: hexLower d :: hexLower e :: hexLower f :: hexLower g :: hexLower h :: rest) 0 =
      some (((((((a % 16 * 16 + b % 16) * 16 + c % 16) * 16 + d % 16) * 16 + e % 16) * 16 + f % 16) * 16 + g % 16) * 16 + h % 16, rest) := by
  simp [hexN, unhex_hexLower]

theorem hexLower_zero : hexLower 0 = 48 := by decide

theorem rue_copy (b : UInt8) (rest : Bytes) (rt : List Nat) (hb : b ≠ 92)
    (h : pydecodeRawUnicodeEscapeRunes 0 rest = .ok rt) :
    pydecodeRawUnicodeEscapeRunes 0 (b :: rest) = .ok (b.toNat :: rt) := by
  rw [pydecodeRawUnicodeEscapeRunes]; simp [hb, h, Functor.map, Except.map]

theorem rue_u4 (r : Nat) (hr : r < 0x10000) (hv : validRune r = true) (rest : Bytes) (rt : List Nat)
    (h : pydecodeRawUnicodeEscapeRunes 0 rest = .ok rt) :
    pydecodeRawUnicodeEscapeRunes 0
      (92 :: 117 :: hexLower (r / 4096) :: hexLower (r / 256) :: hexLower (r / 16) :: hexLower r :: rest) = .ok (r :: rt) := by
  rw [pydecodeRawUnicodeEscapeRunes]
  have hval : ((r / 4096 % 16 * 16 + r / 256 % 16) * 16 + r / 16 % 16) * 16 + r % 16 = r := by omega
  simp [hexN4, hval, hv, h, Functor.map, Except.map]

theorem rue_u8 (r : Nat) (hr : r < 0x110000) (hv : validRune r = true) (rest : Bytes) (rt : List Nat)
    (h : pydecodeRawUnicodeEscapeRunes 0 rest = .ok rt) :
    pydecodeRawUnicodeEscapeRunes 0
      (92 :: 85 :: hexLower (r / 268435456) :: hexLower (r / 16777216) :: hexLower (r / 1048576) :: hexLower (r / 65536)
        :: hexLower (r / 4096) :: hexLower (r / 256) :: hexLower (r / 16) :: hexLower r :: rest) = .ok (r :: rt) := by
  rw [pydecodeRawUnicodeEscapeRunes]
  have hval : ((((((r / 268435456 % 16 * 16 + r / 16777216 % 16) * 16 + r / 1048576 % 16) * 16 + r / 65536 % 16) * 16
      + r / 4096 % 16) * 16 + r / 256 % 16) * 16 + r / 16 % 16) * 16 + r % 16 = r := by omega
  simp [hexN8, hval, hv, h, Functor.map, Except.map]

end Ogorek

namespace Ogorek

theorem decodeRune_cons_exact (b0 : UInt8) (rest : Bytes) :
    ∃ r w, decodeRune (b0 :: rest) = (r, w + 1) ∧ RuneExact b0 rest r (w + 1) := by
  have hs := decodeRune_exact b0 rest
  cases hd : decodeRune (b0 :: rest) with
  | mk r w =>
    rw [hd] at hs
    simp only at hs
    cases w with
    | zero =>
      exfalso
      cases hs with
      | ascii _ _ hw => omega
      | invalid _ hw => omega
      | two _ _ _ _ _ _ hw => omega
      | three _ _ _ _ _ _ _ _ hw => omega
      | four _ _ _ _ _ _ _ _ _ hw => omega
    | succ w => exact ⟨r, w, rfl, hs⟩

theorem RuneExact.width_le {b0 : UInt8} {rest : Bytes} {r w : Nat} (h : RuneExact b0 rest r w) : w ≤ (b0 :: rest).length := by
  cases h with
  | ascii _ _ hw => subst hw; simp
  | invalid _ hw => subst hw; simp
  | two _ _ hrest _ _ _ hw => subst hw; subst hrest; simp
  | three _ _ _ hrest _ _ _ _ hw => subst hw; subst hrest; simp
  | four _ _ _ _ hrest _ _ _ _ _ hw => subst hw; subst hrest; simp

theorem RuneExact.lt_max {b0 : UInt8} {rest : Bytes} {r w : Nat} (h : RuneExact b0 rest r w) : r < 0x110000 := by
  have hb0 := b0.toNat_lt
  cases h with
  | ascii h hr _ => omega
  | invalid hr _ => rw [hr]; decide
  | two b1 _ _ h0 h1 hr _ => have := b1.toNat_lt; omega
  | three b1 b2 _ _ h0 h1 h2 hr _ => have := b1.toNat_lt; have := b2.toNat_lt; omega
  | four b1 b2 b3 _ _ h0 h1 h2 h3 hr _ =>
    have := b1.toNat_lt; have := b2.toNat_lt; have := b3.toNat_lt
    obtain ⟨_, _, _, h1d⟩ := h1
    by_cases he : b0.toNat = 0xF4
    · have := h1d he; omega
    · omega

theorem rueAux_inv : ∀ (fuel : Nat) (s u tail : Bytes) (rt : List Nat), s.length ≤ fuel →
    pyencodeRawUnicodeEscapeAux fuel s = some u → pydecodeRawUnicodeEscapeRunes 0 tail = .ok rt →
    ∃ rs, pydecodeRawUnicodeEscapeRunes 0 (u ++ tail) = .ok (rs ++ rt) ∧ rs.flatMap encodeRune = s := by
  intro fuel
  induction fuel with
  | zero =>
    intro s u tail rt hl he h
    have : s = [] := List.length_eq_zero_iff.mp (by omega)
    subst this
    simp [pyencodeRawUnicodeEscapeAux] at he; subst he
    exact ⟨[], by simpa using h, rfl⟩
  | succ fuel ih =>
    intro s u tail rt hl he h
    cases s with
    | nil =>
      simp [pyencodeRawUnicodeEscapeAux, decodeRune] at he; subst he
      exact ⟨[], by simpa using h, rfl⟩
    | cons b0 rest =>
      obtain ⟨r, w, hd, hs⟩ := decodeRune_cons_exact b0 rest
      have hwl := hs.width_le
      have hmax := hs.lt_max
      simp only [pyencodeRawUnicodeEscapeAux, hd] at he
      by_cases hbad : (r = runeError && w + 1 = 1) = true
      · rw [if_pos hbad] at he; cases he
      · rw [if_neg hbad] at he
        have hv : ¬ (r = runeError ∧ w + 1 = 1) := by
          intro hh; apply hbad; simp [hh.1, hh.2]
        obtain ⟨henc, hvalid⟩ := encodeRune_of_exact hs hv
        -- the recursive part
        cases hrec : pyencodeRawUnicodeEscapeAux fuel ((b0 :: rest).drop (w + 1)) with
        | none => rw [hrec] at he; simp [Functor.map, Option.map] at he
        | some u' =>
          rw [hrec] at he
          simp only [Functor.map, Option.map, Option.some.injEq] at he
          obtain ⟨rs', hdec', hflat'⟩ := ih _ u' tail rt (by simp at hl hwl ⊢; omega) hrec h
          refine ⟨r :: rs', ?_, ?_⟩
          · subst he
            simp only [List.append_assoc]
            by_cases hq : (r = 92 || r = 10) = true
            · simp only [hq, if_true, List.cons_append, List.nil_append]
              have hr256 : r < 256 := by
                simp only [Bool.or_eq_true, decide_eq_true_eq] at hq; omega
              have e1 : (48 : UInt8) = hexLower (r / 4096) := by
                have : r / 4096 = 0 := by omega
                rw [this]; exact hexLower_zero.symm
              have e2 : (48 : UInt8) = hexLower (r / 256) := by
                have : r / 256 = 0 := by omega
                rw [this]; exact hexLower_zero.symm
              have := rue_u4 r (by omega) hvalid _ _ hdec'
              rw [← e1, ← e2] at this
              simpa using this
            · have hq' : (r = 92 || r = 10) = false := by simpa using hq
              simp only [hq', Bool.false_eq_true, if_false]
              by_cases h5 : r ≥ 0x10000
              · simp only [h5, if_true]
                have := rue_u8 r hmax hvalid _ _ hdec'
                simpa [List.range, List.range.loop] using this
              · simp only [h5, if_false]
                by_cases h3 : r ≥ 0x100
                · simp only [h3, if_true]
                  have := rue_u4 r (by omega) hvalid _ _ hdec'
                  simpa [List.range, List.range.loop] using this
                · simp only [h3, if_false, List.cons_append, List.nil_append]
                  have hb : UInt8.ofNat r ≠ 92 := by
                    intro hh
                    have : (UInt8.ofNat r).toNat = 92 := by rw [hh]; rfl
                    simp [UInt8.toNat_ofNat'] at this
                    simp only [Bool.or_eq_false_iff, decide_eq_false_iff_not] at hq'
                    omega
                  have := rue_copy (UInt8.ofNat r) _ _ hb hdec'
                  have hn : (UInt8.ofNat r).toNat = r := by simp [UInt8.toNat_ofNat']; omega
                  rw [hn] at this
                  exact this
          · simp only [List.flatMap_cons, hflat', henc]
            exact List.take_append_drop _ _

/-- **`pydecodeRawUnicodeEscape (pyencodeRawUnicodeEscape s) = s`** whenever the encoder accepts `s`
    (i.e. `s` is valid UTF-8). -/
theorem rue_inv (s u : Bytes) (h : pyencodeRawUnicodeEscape s = some u) : pydecodeRawUnicodeEscape u = .ok s := by
  obtain ⟨rs, hd, hf⟩ := rueAux_inv s.length s u [] [] (Nat.le_refl _) h (by rw [pydecodeRawUnicodeEscapeRunes])
  unfold pydecodeRawUnicodeEscape
  simp only [List.append_nil] at hd
  simp [hd, hf, Functor.map, Except.map]

end Ogorek

namespace Ogorek

theorem rueAux_no_lf : ∀ (fuel : Nat) (s u : Bytes), pyencodeRawUnicodeEscapeAux fuel s = some u → (10 : UInt8) ∉ u := by
  intro fuel
  induction fuel with
  | zero => intro s u he; simp [pyencodeRawUnicodeEscapeAux] at he; subst he; simp
  | succ fuel ih =>
    intro s u he
    cases s with
    | nil => simp [pyencodeRawUnicodeEscapeAux, decodeRune] at he; subst he; simp
    | cons b0 rest =>
      obtain ⟨r, w, hd, hs⟩ := decodeRune_cons_exact b0 rest
      simp only [pyencodeRawUnicodeEscapeAux, hd] at he
      by_cases hbad : (r = runeError && w + 1 = 1) = true
      · rw [if_pos hbad] at he; cases he
      · rw [if_neg hbad] at he
        cases hrec : pyencodeRawUnicodeEscapeAux fuel ((b0 :: rest).drop (w + 1)) with
        | none => rw [hrec] at he; simp [Functor.map, Option.map] at he
        | some u' =>
          rw [hrec] at he
          simp only [Functor.map, Option.map, Option.some.injEq] at he
          subst he
          rw [List.mem_append]
          intro hm
          rcases hm with hm | hm
          · split at hm
            · simp only [List.mem_cons, List.not_mem_nil, or_false] at hm
              rcases hm with hm | hm | hm | hm | hm | hm
              · exact absurd hm (by decide)
              · exact absurd hm (by decide)
              · exact absurd hm (by decide)
              · exact absurd hm (by decide)
              · exact hexLower_ne_lf _ hm.symm
              · exact hexLower_ne_lf _ hm.symm
            · split at hm
              · simp only [List.cons_append, List.nil_append, List.mem_cons, List.mem_map] at hm
                rcases hm with hm | hm | ⟨i, _, hm⟩
                · exact absurd hm (by decide)
                · exact absurd hm (by decide)
                · exact hexLower_ne_lf _ hm
              · split at hm
                · simp only [List.cons_append, List.nil_append, List.mem_cons, List.mem_map] at hm
                  rcases hm with hm | hm | ⟨i, _, hm⟩
                  · exact absurd hm (by decide)
                  · exact absurd hm (by decide)
                  · exact hexLower_ne_lf _ hm
                · rename_i hq h5 h3
                  simp only [List.mem_cons, List.not_mem_nil, or_false] at hm
                  have : (UInt8.ofNat r).toNat = 10 := by rw [← hm]; rfl
                  simp [UInt8.toNat_ofNat'] at this
                  simp only [Bool.or_eq_true, decide_eq_true_eq, not_or] at hq
                  omega
          · exact ih _ _ hrec hm

theorem rue_no_lf (s u : Bytes) (h : pyencodeRawUnicodeEscape s = some u) : (10 : UInt8) ∉ u :=
  rueAux_no_lf _ _ _ h

end Ogorek
