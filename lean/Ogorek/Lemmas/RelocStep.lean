import Ogorek.Lemmas.Reloc

/-! One instruction on two relocated runs (hook-free decoders). -/
namespace Ogorek

def Insn.isMemoize : Insn → Bool
  | .memoize => true
  | _ => false

section
variable {dh db : Nat} {H0 : List HObj}

theorem handleCall_shift (proto : Nat) (m n : Bytes) (args : List GoVal) :
    handleCall proto m n (shiftL dh db args) = handleCall proto m n args := by
  unfold handleCall
  have hl : (shiftL dh db args).length = args.length := shiftL_length dh db args
  have hg : ∀ k, (shiftL dh db args).getD k .none = shiftV dh db (args.getD k .none) := by
    intro k
    simp [shiftL_eq_map, List.getD, List.getElem?_map]
    cases args[k]? <;> simp [shiftV]
  simp only [hl, hg, stringEQ_shift, decodeLatin1Bytes_shift]
  cases h0 : args.getD 0 .none <;> simp [shiftV]

theorem listAppend_reloc {A B : DState} (hr : Reloc dh db H0 A B) (l : GoVal) (items : List GoVal) {A1 : DState} {l' : GoVal}
    (h : listAppend A l items = some (A1, l')) :
    ∃ B1, listAppend B (shiftV dh db l) (shiftL dh db items) = some (B1, shiftV dh db l') ∧
      (∀ s, Reloc dh db H0 { A1 with stack := s } { B1 with stack := shiftL dh db s }) := by
  unfold listAppend at h
  cases l with
  | list xs =>
    simp only [Option.some.injEq, Prod.mk.injEq] at h
    obtain ⟨rfl, rfl⟩ := h
    refine ⟨B, by simp [listAppend, shiftV, shiftL_append], fun s => hr.setStack s⟩
  | href id =>
    simp only at h
    cases hg : A.heap[id]? with
    | none => rw [hg] at h; simp at h
    | some o =>
      rw [hg] at h
      simp only at h
      split at h
      · rename_i hk
        simp only [Option.some.injEq, Prod.mk.injEq] at h
        obtain ⟨rfl, rfl⟩ := h
        refine ⟨Ogorek.heapSet B (id + dh) (shiftO dh db { o with xs := o.xs ++ items }), ?_, ?_⟩
        · have hk' : ((shiftO dh db o).kind == HKind.list) = true := by simpa [shiftO] using hk
          simp only [listAppend, shiftV, hr.heap_get hg, hk', if_true]
          simp [shiftO, shiftL_append, Ogorek.heapSet]
        · intro s
          have := hr.heapSet id { o with xs := o.xs ++ items } s
          simpa [Ogorek.heapSet] using this
      · simp at h
  | _ => simp at h


theorem handleCall_fixed (proto : Nat) (m n : Bytes) (args : List GoVal) (v : GoVal)
    (h : handleCall proto m n args = some (.ok v)) : shiftV dh db v = v := by
  unfold handleCall at h
  split at h
  · split at h <;> simp at h
    subst h; rfl
  · split at h
    · simp at h; subst h; rfl
    · split at h
      · split at h
        · simp at h; subst h; rfl
        · split at h
          · split at h <;> simp at h
            subst h; rfl
          · split at h
            · split at h <;> simp at h
              subst h; rfl
            · simp at h
      · simp at h

theorem reloc_step (mc : MCfg) (i : Insn) (pos : Nat) {A A' B : DState} (hr : Reloc dh db H0 A B) (hi : i.isMemoize = false)
    (he : exec mc none i pos A = .ok A') : ∃ B', exec mc none i pos B = .ok B' ∧ Reloc dh db H0 A' B' := by
  have hs := hr.stack
  cases i with
  | mark => simp only [exec] at he ⊢; cases he; exact ⟨_, rfl, by simpa [shiftV] using hr.push .mark⟩
  | stop => simp only [exec] at he ⊢; cases he; exact ⟨_, rfl, hr⟩
  | pop =>
    cases hA : A.stack with
    | nil => simp [exec, Ogorek.pop, hA, bind, Except.bind] at he
    | cons v s =>
      simp only [exec, Ogorek.pop, hA, bind, Except.bind, pure, Except.pure] at he
      cases he
      rw [hA] at hs
      simp only [shiftL] at hs
      refine ⟨{ B with stack := shiftL dh db s }, by simp [exec, Ogorek.pop, hs, bind, Except.bind, pure, Except.pure], hr.setStack s⟩
  | popMark => simp [exec] at he
  | dup =>
    cases hA : A.stack with
    | nil => simp [exec, hA] at he
    | cons v s =>
      simp only [exec, hA] at he
      cases he
      rw [hA] at hs
      simp only [shiftL] at hs
      exact ⟨_, by simp only [exec, hs], hr.push v⟩
  | pushFloat f => simp only [exec] at he ⊢; cases he; exact ⟨_, rfl, by simpa [shiftV] using hr.push (.float f)⟩
  | pushBool b => simp only [exec] at he ⊢; cases he; exact ⟨_, rfl, by simpa [shiftV] using hr.push (.bool b)⟩
  | pushInt n => simp only [exec] at he ⊢; cases he; exact ⟨_, rfl, by simpa [shiftV] using hr.push (.int n)⟩
  | pushNone => simp only [exec] at he ⊢; cases he; exact ⟨_, rfl, by simpa [shiftV] using hr.push .none⟩
  | pushBig n =>
    simp only [exec] at he ⊢
    cases he
    refine ⟨_, rfl, ⟨hr.hdh, ?_, hr.memo, hr.heap, hr.proto, ?_⟩⟩
    · simp [Ogorek.push, shiftL, shiftV, hr.stack, hr.nbig]
    · simp [Ogorek.push, hr.nbig]; omega
  | persid s0 =>
    simp only [exec, handleRef] at he ⊢
    cases he
    exact ⟨_, rfl, by simpa [shiftV] using hr.push (.ref (.str s0))⟩
  | pushByteString s0 =>
    simp only [exec] at he ⊢
    cases he
    refine ⟨_, rfl, ?_⟩
    have := hr.push (if mc.cfg.su then .bytestr s0 else .str s0)
    cases hsu : mc.cfg.su <;> simpa [hsu, shiftV] using this
  | pushStr s0 => simp only [exec] at he ⊢; cases he; exact ⟨_, rfl, by simpa [shiftV] using hr.push (.str s0)⟩
  | pushBytes s0 => simp only [exec] at he ⊢; cases he; exact ⟨_, rfl, by simpa [shiftV] using hr.push (.bytes s0)⟩
  | pushBytearray s0 => simp only [exec] at he ⊢; cases he; exact ⟨_, rfl, by simpa [shiftV] using hr.push (.bytearray s0)⟩
  | build => simp [exec] at he
  | global m n => simp only [exec] at he ⊢; cases he; exact ⟨_, rfl, by simpa [shiftV] using hr.push (.cls m n)⟩
  | inst => simp [exec] at he
  | obj => simp [exec] at he
  | frame => simp only [exec] at he ⊢; cases he; exact ⟨_, rfl, hr⟩
  | emptyTuple => simp only [exec] at he ⊢; cases he; exact ⟨_, rfl, by simpa [shiftV, shiftL] using hr.push (.tuple [])⟩
  | nextBuffer => simp [exec] at he
  | readonlyBuffer => simp [exec] at he
  | unknown k => simp [exec] at he
  | memoize => simp [Insn.isMemoize] at hi
  | proto v =>
    simp only [exec] at he ⊢
    split at he
    · rename_i hv
      cases he
      exact ⟨{ B with proto := v }, by simp [hv], ⟨hr.hdh, hr.stack, hr.memo, hr.heap, rfl, hr.nbig⟩⟩
    · cases he
  | binpersid =>
    cases hA : A.stack with
    | nil => simp [exec, popUser, Ogorek.pop, hA, bind, Except.bind] at he
    | cons v s =>
      rw [hA] at hs
      simp only [shiftL] at hs
      simp only [exec, popUser, Ogorek.pop, hA, hs, userOK_shift, bind, Except.bind, pure, Except.pure, handleRef] at he ⊢
      cases hu : userOK v with
      | error e => rw [hu] at he; simp at he
      | ok u =>
        rw [hu] at he
        simp only at he ⊢
        cases he
        exact ⟨_, rfl, by simpa [shiftV, Ogorek.push] using (hr.setStack s).push (.ref v)⟩
  | emptyDict =>
    simp only [exec, allocObj] at he ⊢
    cases he
    refine ⟨_, rfl, ?_⟩
    have := hr.alloc { kind := dictKind mc.cfg } (.href A.heap.length :: A.stack)
    simpa [Ogorek.push, shiftL, shiftV, shiftO, shiftP, hr.heap_len, hr.stack] using this
  | emptyList =>
    simp only [exec, mkList] at he ⊢
    cases hl : mc.listRef with
    | false =>
      simp only [hl, Bool.false_eq_true, if_false] at he ⊢
      cases he
      exact ⟨_, rfl, by simpa [shiftV, shiftL] using hr.push (.list [])⟩
    | true =>
      simp only [hl, if_true, allocObj] at he ⊢
      cases he
      refine ⟨_, rfl, ?_⟩
      have := hr.alloc { kind := .list, xs := [] } (.href A.heap.length :: A.stack)
      simpa [Ogorek.push, shiftL, shiftV, shiftO, shiftP, hr.heap_len, hr.stack] using this
  | get key =>
    simp only [exec] at he ⊢
    cases hg : memoGet A key with
    | none => rw [hg] at he; simp at he
    | some v =>
      rw [hg] at he
      simp only at he
      cases he
      exact ⟨_, by rw [hr.memo_get hg], hr.push v⟩
  | put key =>
    cases hA : A.stack with
    | nil => simp [exec, hA] at he
    | cons v s =>
      rw [hA] at hs
      simp only [shiftL] at hs
      simp only [exec, hA, hs, userOK_shift, bind, Except.bind, pure, Except.pure] at he ⊢
      cases hu : userOK v with
      | error e => rw [hu] at he; simp at he
      | ok u =>
        rw [hu] at he
        simp only at he ⊢
        cases he
        exact ⟨_, rfl, hr.memo_put key v⟩
  | tuple =>
    simp only [exec] at he ⊢
    rw [hs, splitAtMark_shift]
    cases hsp : splitAtMark A.stack with
    | none => rw [hsp] at he; simp at he
    | some p =>
      obtain ⟨above, below⟩ := p
      rw [hsp] at he
      simp only [Option.map_some] at he ⊢
      cases he
      refine ⟨_, rfl, ?_⟩
      have := hr.setStack (.tuple above.reverse :: below)
      simpa [shiftL, shiftV, shiftL_reverse] using this
  | tupleN n =>
    simp only [exec] at he ⊢
    rw [hs, shiftL_length]
    split at he
    · simp at he
    · rename_i hlen
      simp only [hlen, if_false, bind, Except.bind, pure, Except.pure] at he ⊢
      rw [← shiftL_take, ← shiftL_reverse, userOKAll_shift]
      cases hu : userOKAll (List.take n A.stack).reverse with
      | error e => rw [hu] at he; simp at he
      | ok u =>
        rw [hu] at he
        simp only at he ⊢
        cases he
        refine ⟨_, rfl, ?_⟩
        have := hr.setStack (.tuple (List.take n A.stack).reverse :: A.stack.drop n)
        simpa [shiftL, shiftV, shiftL_drop, hs] using this
  | stackGlobal =>
    simp only [exec] at he ⊢
    rw [hs, shiftL_length]
    split at he
    · simp at he
    · rename_i hlen
      simp only [hlen, if_false] at he ⊢
      match hA : A.stack, hlen with
      | [], hl => simp [hA] at hl
      | [_], hl => simp [hA] at hl
      | a :: b :: s, _ =>
        rw [hA] at hs
        simp only [shiftL] at hs
        simp only [xpop, hA, bind, Except.bind, pure, Except.pure] at he
        cases a with
        | str nm =>
          cases b with
          | str md =>
            simp only at he
            cases he
            refine ⟨{ B with stack := .cls md nm :: shiftL dh db s }, ?_, ?_⟩
            · simp [xpop, hs, shiftV, bind, Except.bind, pure, Except.pure, Ogorek.push]
            · have := hr.setStack (.cls md nm :: s)
              simpa [shiftL, shiftV, Ogorek.push] using this
          | _ => simp at he
        | _ => cases b <;> simp at he
  | list =>
    simp only [exec] at he ⊢
    rw [hs, splitAtMark_shift]
    cases hsp : splitAtMark A.stack with
    | none => rw [hsp] at he; simp at he
    | some p =>
      obtain ⟨above, below⟩ := p
      rw [hsp] at he
      simp only [Option.map_some, mkList] at he ⊢
      cases hl : mc.listRef with
      | false =>
        simp only [hl, Bool.false_eq_true, if_false] at he ⊢
        cases he
        refine ⟨_, rfl, ?_⟩
        have := hr.setStack (.list above.reverse :: below)
        simpa [shiftL, shiftV, shiftL_reverse] using this
      | true =>
        simp only [hl, if_true, allocObj] at he ⊢
        cases he
        refine ⟨_, rfl, ?_⟩
        have := hr.alloc { kind := .list, xs := above.reverse } (.href A.heap.length :: below)
        simpa [shiftL, shiftV, shiftO, shiftP, shiftL_reverse, hr.heap_len] using this
  | dict =>
    simp only [exec] at he ⊢
    rw [hs, splitAtMark_shift]
    cases hsp : splitAtMark A.stack with
    | none => rw [hsp] at he; simp at he
    | some p =>
      obtain ⟨above, below⟩ := p
      rw [hsp] at he
      simp only [Option.map_some, shiftL_length] at he ⊢
      split at he
      · simp at he
      · rename_i hpar
        simp only [hpar, if_false] at he ⊢
        have ha := assignAll_shift dh db (dictKind mc.cfg) above.reverse []
        simp only [shiftP, shiftL_reverse] at ha
        rw [ha]
        cases hass : assignAll (dictKind mc.cfg) [] above.reverse with
        | none => rw [hass] at he; simp at he
        | some es =>
          rw [hass] at he
          simp only [Option.map_some, allocObj] at he ⊢
          cases he
          refine ⟨_, rfl, ?_⟩
          have := hr.alloc { kind := dictKind mc.cfg, kvs := es } (.href A.heap.length :: below)
          simpa [shiftL, shiftV, shiftO, hr.heap_len] using this
  | reduce =>
    simp only [exec] at he ⊢
    rw [hs, shiftL_length]
    split at he
    · simp at he
    · rename_i hlen
      simp only [hlen, if_false] at he ⊢
      match hA : A.stack, hlen with
      | [], hl => simp at hl
      | [_], hl => simp at hl
      | a :: b :: s, _ =>
        rw [hA] at hs
        simp only [shiftL] at hs
        simp only [xpop, hA, hs, bind, Except.bind, pure, Except.pure] at he ⊢
        cases a with
        | tuple args =>
          cases b with
          | cls m n =>
            simp only [shiftV, handleCall_shift, hr.proto] at he ⊢
            cases hc : handleCall A.proto m n args with
            | none =>
              rw [hc] at he
              simp only at he ⊢
              cases he
              refine ⟨_, rfl, ?_⟩
              have := (hr.setStack s).push (.call m n args)
              simpa [shiftV, Ogorek.push, hr.proto] using this
            | some r =>
              rw [hc] at he
              simp only at he ⊢
              cases r with
              | error e => simp at he
              | ok v =>
                simp only at he ⊢
                cases he
                refine ⟨_, rfl, ?_⟩
                have := (hr.setStack s).push v
                rw [handleCall_fixed A.proto m n args v hc] at this
                simpa [Ogorek.push, hr.proto] using this
          | _ => simp at he
        | _ => cases b <;> simp at he
  | append =>
    simp only [exec] at he ⊢
    rw [hs, shiftL_length]
    split at he
    · simp at he
    · rename_i hlen
      simp only [hlen, if_false] at he ⊢
      match hA : A.stack, hlen with
      | [], hl => simp at hl
      | [_], hl => simp at hl
      | v :: l :: below, _ =>
        rw [hA] at hs
        simp only [shiftL] at hs
        simp only [xpop, hA, hs, userOK_shift, bind, Except.bind, pure, Except.pure] at he ⊢
        cases hu : userOK v with
        | error e => rw [hu] at he; simp at he
        | ok u =>
          rw [hu] at he
          simp only at he ⊢
          have hr1 := hr.setStack (l :: below)
          cases hla : listAppend { A with stack := l :: below } l [v] with
          | none => rw [hla] at he; simp at he
          | some r =>
            obtain ⟨A1, l'⟩ := r
            rw [hla] at he
            simp only at he
            cases he
            obtain ⟨B1, hb, hrel⟩ := listAppend_reloc hr1 l [v] hla
            simp only [shiftL] at hb
            refine ⟨{ B1 with stack := shiftV dh db l' :: shiftL dh db below }, ?_, ?_⟩
            · simp only [shiftL] at hr1 ⊢
              rw [hb]
            · have := hrel (l' :: below)
              simpa [shiftL] using this
  | appends =>
    simp only [exec] at he ⊢
    rw [hs, splitAtMark_shift]
    cases hsp : splitAtMark A.stack with
    | none => rw [hsp] at he; simp at he
    | some p =>
      obtain ⟨above, below⟩ := p
      rw [hsp] at he
      simp only [Option.map_some] at he ⊢
      cases below with
      | nil => simp at he
      | cons l below' =>
        simp only [shiftL] at he ⊢
        cases hla : listAppend A l above.reverse with
        | none => rw [hla] at he; simp at he
        | some r =>
          obtain ⟨A1, l'⟩ := r
          rw [hla] at he
          simp only at he
          cases he
          obtain ⟨B1, hb, hrel⟩ := listAppend_reloc hr l above.reverse hla
          rw [shiftL_reverse] at hb
          refine ⟨{ B1 with stack := shiftV dh db l' :: shiftL dh db below' }, ?_, ?_⟩
          · rw [hb]
          · have := hrel (l' :: below')
            simpa [shiftL] using this
  | setitem =>
    simp only [exec] at he ⊢
    rw [hs, shiftL_length]
    split at he
    · simp at he
    · rename_i hlen
      simp only [hlen, if_false] at he ⊢
      match hA : A.stack, hlen with
      | [], hl => simp at hl
      | [_], hl => simp at hl
      | [_, _], hl => simp at hl
      | v :: k :: d :: below, _ =>
        rw [hA] at hs
        simp only [shiftL] at hs
        simp only [xpop, hA, hs, userOK_shift, bind, Except.bind, pure, Except.pure] at he ⊢
        cases huk : userOK k with
        | error e => rw [huk] at he; simp at he
        | ok u =>
          rw [huk] at he
          simp only at he ⊢
          cases huv : userOK v with
          | error e => rw [huv] at he; simp at he
          | ok u2 =>
            rw [huv] at he
            simp only at he ⊢
            cases d with
            | href id =>
              simp only [shiftV] at he ⊢
              cases hg : A.heap[id]? with
              | none => rw [hg] at he; simp at he
              | some o =>
                rw [hg] at he
                have hg' := hr.heap_get hg
                simp only at he ⊢
                rw [hg']
                simp only [shiftO] at he ⊢
                split at he
                · simp at he
                · rename_i hk
                  simp only [hk, if_false, tryAssign_shift] at he ⊢
                  cases hta : tryAssign o.kind o.kvs k v with
                  | none => rw [hta] at he; simp at he
                  | some es =>
                    rw [hta] at he
                    simp only [Option.map_some] at he ⊢
                    cases he
                    refine ⟨_, rfl, ?_⟩
                    have := hr.heapSet id { o with kvs := es } (.href id :: below)
                    simpa [Ogorek.heapSet, shiftO, shiftL, shiftV] using this
            | _ => simp at he
  | setitems =>
    simp only [exec] at he ⊢
    rw [hs, splitAtMark_shift]
    cases hsp : splitAtMark A.stack with
    | none => rw [hsp] at he; simp at he
    | some p =>
      obtain ⟨above, below⟩ := p
      rw [hsp] at he
      simp only [Option.map_some] at he ⊢
      cases below with
      | nil => simp at he
      | cons l below' =>
        simp only [shiftL, shiftL_length] at he ⊢
        split at he
        · simp at he
        · rename_i hpar
          simp only [hpar, if_false] at he ⊢
          cases l with
          | href id =>
            simp only [shiftV] at he ⊢
            cases hg : A.heap[id]? with
            | none => rw [hg] at he; simp at he
            | some o =>
              rw [hg] at he
              have hg' := hr.heap_get hg
              simp only at he ⊢
              rw [hg']
              simp only [shiftO] at he ⊢
              split at he
              · simp at he
              · rename_i hk
                have ha := assignAll_shift dh db o.kind above.reverse o.kvs
                rw [shiftL_reverse] at ha
                simp only [hk, if_false, ha] at he ⊢
                cases hta : assignAll o.kind o.kvs above.reverse with
                | none => rw [hta] at he; simp at he
                | some es =>
                  rw [hta] at he
                  simp only [Option.map_some] at he ⊢
                  cases he
                  refine ⟨_, rfl, ?_⟩
                  have := hr.heapSet id { o with kvs := es } (.href id :: below')
                  simpa [Ogorek.heapSet, shiftO, shiftL, shiftV] using this
          | _ => simp at he

end

end Ogorek
