import Ogorek.Quote
import Ogorek.Lemmas.NoPanic

/-!
  `pydecodeStringEscape ∘ pyquote = id` for EVERY byte string and every `IsPrint` table:
  the protocol-0 STRING form carries any Go string / ByteString exactly.
-/
namespace Ogorek

/-! ### decodeRune: the three shapes of an answer -/

/-- What `decodeRune (b0 :: rest)` can be: an ASCII byte; RuneError of width 1 (invalid input); or a
    multi-byte rune ≥ 0x80 all of whose bytes are ≥ 0x80. -/
inductive RuneShape (b0 : UInt8) (rest : Bytes) (r w : Nat) : Prop where
  | ascii (h : b0 < 0x80) (hr : r = b0.toNat) (hw : w = 1)
  | invalid (hr : r = runeError) (hw : w = 1)
  | multi (hw2 : 2 ≤ w) (hwl : w ≤ (b0 :: rest).length) (hr : 0x80 ≤ r) (hb : ∀ b ∈ (b0 :: rest).take w, (0x80 : UInt8) ≤ b)

theorem isCont_ge {b : UInt8} (h : isCont b = true) : (0x80 : UInt8) ≤ b := by
  unfold isCont at h
  simp only [Bool.and_eq_true, decide_eq_true_eq] at h
  exact h.1

theorem decodeRune_shape (b0 : UInt8) (rest : Bytes) :
    RuneShape b0 rest (decodeRune (b0 :: rest)).1 (decodeRune (b0 :: rest)).2 := by
  unfold decodeRune
  by_cases h1 : b0 < 0x80
  · simp only [h1, if_true]; exact .ascii h1 rfl rfl
  · have g0 : (0x80 : UInt8) ≤ b0 := by
      rw [UInt8.le_iff_toNat_le]; rw [UInt8.lt_iff_toNat_lt] at h1; simp at h1 ⊢; omega
    simp only [h1, if_false]
    by_cases h2 : b0 < 0xC2
    · simp only [h2, if_true]; exact .invalid rfl rfl
    · have n0 : 0xC2 ≤ b0.toNat := by rw [UInt8.lt_iff_toNat_lt] at h2; simp at h2; omega
      simp only [h2, if_false]
      by_cases h3 : b0 < 0xE0
      · simp only [h3, if_true]
        cases rest with
        | nil => exact .invalid rfl rfl
        | cons b1 rest =>
          by_cases hc : isCont b1 = true
          · simp only [hc, if_true]
            refine .multi (by omega) (by simp) ?_ ?_
            · have : 2 ≤ b0.toNat % 32 := by
                rw [UInt8.lt_iff_toNat_lt] at h3; simp at h3; omega
              omega
            · intro b hb
              simp at hb
              rcases hb with rfl | rfl
              · exact g0
              · exact isCont_ge hc
          · simp only [hc, Bool.false_eq_true, if_false]; exact .invalid rfl rfl
      · have n1 : 0xE0 ≤ b0.toNat := by rw [UInt8.lt_iff_toNat_lt] at h3; simp at h3; omega
        simp only [h3, if_false]
        by_cases h4 : b0 < 0xF0
        · simp only [h4, if_true]
          have n4 : b0.toNat < 0xF0 := by rw [UInt8.lt_iff_toNat_lt] at h4; simpa using h4
          rcases rest with _ | ⟨b1, _ | ⟨b2, rest⟩⟩
          · exact .invalid rfl rfl
          · exact .invalid rfl rfl
          · simp only
            generalize hlo_def : (if b0 = 0xE0 then (0xA0 : UInt8) else 0x80) = lo
            generalize hhi_def : (if b0 = 0xED then (0x9F : UInt8) else 0xBF) = hi
            by_cases hcond : (decide (lo ≤ b1) && decide (b1 ≤ hi) && isCont b2) = true
            · simp only [hcond, if_true]
              simp only [Bool.and_eq_true, decide_eq_true_eq] at hcond
              obtain ⟨⟨hlo, hhi⟩, hc2⟩ := hcond
              have hhiBF : hi ≤ (0xBF : UInt8) := by
                rw [← hhi_def]; split <;> decide
              have n1hi : b1.toNat ≤ 191 := by
                have := UInt8.le_trans hhi hhiBF
                rw [UInt8.le_iff_toNat_le] at this; simpa using this
              have hlo80 : (0x80 : UInt8) ≤ lo := by
                rw [← hlo_def]; split <;> decide
              have g1 : (0x80 : UInt8) ≤ b1 := UInt8.le_trans hlo80 hlo
              refine .multi (by omega) (by simp) ?_ ?_
              · by_cases he : b0 = 0xE0
                · have hb0 : b0.toNat = 224 := by rw [he]; rfl
                  have : lo = 0xA0 := by rw [← hlo_def, if_pos he]
                  subst this
                  have : 0xA0 ≤ b1.toNat := by
                    rw [UInt8.le_iff_toNat_le] at hlo; simpa using hlo
                  omega
                · have : b0.toNat ≠ 0xE0 := by
                    intro hh; apply he; exact UInt8.toNat_inj.mp (by simpa using hh)
                  have : 1 ≤ b0.toNat % 16 := by omega
                  omega
              · intro b hb
                simp at hb
                rcases hb with rfl | rfl | rfl
                · exact g0
                · exact g1
                · exact isCont_ge hc2
            · simp only [hcond, Bool.false_eq_true, if_false]; exact .invalid rfl rfl
        · have n2 : 0xF0 ≤ b0.toNat := by rw [UInt8.lt_iff_toNat_lt] at h4; simp at h4; omega
          simp only [h4, if_false]
          by_cases h5 : b0 < 0xF5
          · simp only [h5, if_true]
            have n5 : b0.toNat < 0xF5 := by rw [UInt8.lt_iff_toNat_lt] at h5; simpa using h5
            rcases rest with _ | ⟨b1, _ | ⟨b2, _ | ⟨b3, rest⟩⟩⟩
            · exact .invalid rfl rfl
            · exact .invalid rfl rfl
            · exact .invalid rfl rfl
            · simp only
              generalize hlo_def : (if b0 = 0xF0 then (0x90 : UInt8) else 0x80) = lo
              generalize hhi_def : (if b0 = 0xF4 then (0x8F : UInt8) else 0xBF) = hi
              by_cases hcond : (decide (lo ≤ b1) && decide (b1 ≤ hi) && isCont b2 && isCont b3) = true
              · simp only [hcond, if_true]
                simp only [Bool.and_eq_true, decide_eq_true_eq] at hcond
                obtain ⟨⟨⟨hlo, hhi⟩, hc2⟩, hc3⟩ := hcond
                have hhiBF : hi ≤ (0xBF : UInt8) := by
                  rw [← hhi_def]; split <;> decide
                have n1hi : b1.toNat ≤ 191 := by
                  have := UInt8.le_trans hhi hhiBF
                  rw [UInt8.le_iff_toNat_le] at this; simpa using this
                have hlo80 : (0x80 : UInt8) ≤ lo := by
                  rw [← hlo_def]; split <;> decide
                have g1 : (0x80 : UInt8) ≤ b1 := UInt8.le_trans hlo80 hlo
                refine .multi (by omega) (by simp) ?_ ?_
                · by_cases he : b0 = 0xF0
                  · have hb0 : b0.toNat = 240 := by rw [he]; rfl
                    have : lo = 0x90 := by rw [← hlo_def, if_pos he]
                    subst this
                    have : 0x90 ≤ b1.toNat := by
                      rw [UInt8.le_iff_toNat_le] at hlo; simpa using hlo
                    omega
                  · have : b0.toNat ≠ 0xF0 := by
                      intro hh; apply he; exact UInt8.toNat_inj.mp (by simpa using hh)
                    have : 1 ≤ b0.toNat % 8 := by omega
                    omega
                · intro b hb
                  simp at hb
                  rcases hb with rfl | rfl | rfl | rfl
                  · exact g0
                  · exact g1
                  · exact isCont_ge hc2
                  · exact isCont_ge hc3
              · simp only [hcond, Bool.false_eq_true, if_false]; exact .invalid rfl rfl
          · simp only [h5, if_false]; exact .invalid rfl rfl

end Ogorek

namespace Ogorek

/-! ### the decoder on the encoder's pieces -/

theorem dse_copy (b : UInt8) (rest t : Bytes) (hb : b ≠ 92) (h : pydecodeStringEscape rest = .ok t) :
    pydecodeStringEscape (b :: rest) = .ok (b :: t) := by
  rw [pydecodeStringEscape.eq_def]; simp [hb, h, Functor.map, Except.map]

theorem dse_copy_list : (l rest t : Bytes) → (∀ b ∈ l, b ≠ 92) → pydecodeStringEscape rest = .ok t →
    pydecodeStringEscape (l ++ rest) = .ok (l ++ t)
  | [], _, _, _, h => by simpa using h
  | b :: l, rest, t, hl, h => by
    have := dse_copy_list l rest t (fun x hx => hl x (by simp [hx])) h
    simpa using dse_copy b (l ++ rest) (l ++ t) (hl b (by simp)) this

theorem unhex_hexLower_small : ∀ m, m < 16 → unhex? (hexLower m) = some m := by decide

theorem unhex_hexLower (n : Nat) : unhex? (hexLower n) = some (n % 16) := by
  have h : hexLower n = hexLower (n % 16) := by unfold hexLower; simp
  rw [h]
  exact unhex_hexLower_small (n % 16) (Nat.mod_lt _ (by decide))

theorem dse_hex (b : UInt8) (rest t : Bytes) (h : pydecodeStringEscape rest = .ok t) :
    pydecodeStringEscape (hexEscape b ++ rest) = .ok (b :: t) := by
  have hb := b.toNat_lt
  unfold hexEscape
  simp only [List.cons_append, List.nil_append]
  rw [pydecodeStringEscape.eq_def]
  have hv : ¬ (255 < b.toNat / 16 % 16 * 16 + b.toNat % 16) := by omega
  have hsplit : UInt8.ofNat (b.toNat / 16 % 16) * 16 + UInt8.ofNat (b.toNat % 16) = b := by
    apply UInt8.toNat_inj.mp
    simp [UInt8.toNat_add, UInt8.toNat_mul, UInt8.toNat_ofNat']
    omega
  simp [ctrlEscape?, unhex_hexLower, h, hv, hsplit, Functor.map, Except.map]

theorem dse_hex_list : (l rest t : Bytes) → pydecodeStringEscape rest = .ok t →
    pydecodeStringEscape (l.flatMap hexEscape ++ rest) = .ok (l ++ t)
  | [], _, _, h => by simpa using h
  | b :: l, rest, t, h => by
    have := dse_hex_list l rest t h
    simpa [List.flatMap_cons] using dse_hex b (l.flatMap hexEscape ++ rest) (l ++ t) this

theorem dse_bs_quote (q : UInt8) (hq : q = 92 ∨ q = 34) (rest t : Bytes) (h : pydecodeStringEscape rest = .ok t) :
    pydecodeStringEscape (92 :: q :: rest) = .ok (q :: t) := by
  rw [pydecodeStringEscape.eq_def]
  rcases hq with rfl | rfl <;> simp [h, Functor.map, Except.map]

theorem dse_ctrl (r : Nat) (hr : r < 32) (rest t : Bytes) (h : pydecodeStringEscape rest = .ok t) :
    pydecodeStringEscape (quoteCtrl r ++ rest) = .ok (UInt8.ofNat r :: t) := by
  unfold quoteCtrl
  by_cases h7 : r = 7
  · subst h7; simp; rw [pydecodeStringEscape.eq_def]; simp [ctrlEscape?, h, Functor.map, Except.map]
  by_cases h8 : r = 8
  · subst h8; simp; rw [pydecodeStringEscape.eq_def]; simp [ctrlEscape?, h, Functor.map, Except.map]
  by_cases h12 : r = 12
  · subst h12; simp; rw [pydecodeStringEscape.eq_def]; simp [ctrlEscape?, h, Functor.map, Except.map]
  by_cases h10 : r = 10
  · subst h10; simp; rw [pydecodeStringEscape.eq_def]; simp [ctrlEscape?, h, Functor.map, Except.map]
  by_cases h13 : r = 13
  · subst h13; simp; rw [pydecodeStringEscape.eq_def]; simp [ctrlEscape?, h, Functor.map, Except.map]
  by_cases h9 : r = 9
  · subst h9; simp; rw [pydecodeStringEscape.eq_def]; simp [ctrlEscape?, h, Functor.map, Except.map]
  by_cases h11 : r = 11
  · subst h11; simp; rw [pydecodeStringEscape.eq_def]; simp [ctrlEscape?, h, Functor.map, Except.map]
  simp only [h7, h8, h12, h10, h13, h9, h11, if_false]
  exact dse_hex (UInt8.ofNat r) rest t h

end Ogorek

namespace Ogorek

/-! ### the inverse -/

theorem decodeRune_cons_eq (b0 : UInt8) (rest : Bytes) :
    ∃ r w, decodeRune (b0 :: rest) = (r, w + 1) ∧ RuneShape b0 rest r (w + 1) := by
  have hs := decodeRune_shape b0 rest
  cases hd : decodeRune (b0 :: rest) with
  | mk r w =>
    rw [hd] at hs
    simp only at hs
    cases w with
    | zero =>
      exfalso
      cases hs with
      | ascii _ _ hw => omega
      | invalid _ hw => omega
      | multi hw2 _ _ _ => omega
    | succ w => exact ⟨r, w, rfl, hs⟩

theorem pyquoteAux_inv (ip : Nat → Bool) : ∀ (fuel : Nat) (s tail t : Bytes), s.length ≤ fuel →
    pydecodeStringEscape tail = .ok t →
    pydecodeStringEscape (pyquoteAux ip fuel s ++ tail) = .ok (s ++ t) := by
  intro fuel
  induction fuel with
  | zero =>
    intro s tail t hl h
    have : s = [] := List.length_eq_zero_iff.mp (by omega)
    subst this
    simpa [pyquoteAux] using h
  | succ fuel ih =>
    intro s tail t hl h
    cases s with
    | nil => simpa [pyquoteAux, decodeRune] using h
    | cons b0 rest =>
      obtain ⟨r, w, hd, hs⟩ := decodeRune_cons_eq b0 rest
      have hwl : w + 1 ≤ (b0 :: rest).length := by
        cases hs with
        | ascii _ _ hw => simp; omega
        | invalid _ hw => simp; omega
        | multi _ hwl _ _ => exact hwl
      have hrec := ih ((b0 :: rest).drop (w + 1)) tail t (by simp at hl hwl ⊢; omega) h
      have hsplit : (b0 :: rest).take (w + 1) ++ ((b0 :: rest).drop (w + 1) ++ t) = (b0 :: rest) ++ t := by
        rw [← List.append_assoc, List.take_append_drop]
      simp only [pyquoteAux, hd, List.append_assoc]
      rw [← hsplit]
      -- the piece decodes to the bytes of the rune
      cases hs with
      | ascii hb hr hw =>
        have hw0 : w = 0 := by omega
        subst hw0
        have htake : (b0 :: rest).take (0 + 1) = [b0] := by simp
        have hrlt : r < 0x80 := by rw [hr]; rw [UInt8.lt_iff_toNat_lt] at hb; simpa using hb
        have hne : ¬ r = runeError := by unfold runeError; omega
        have hofr : UInt8.ofNat r = b0 := by rw [hr]; simp
        rw [htake]
        simp only [hne, if_false]
        by_cases hq : (r = 92 || r = 34) = true
        · simp only [hq, if_true, List.cons_append, List.nil_append, hofr]
          have : b0 = 92 ∨ b0 = 34 := by
            simp only [Bool.or_eq_true, decide_eq_true_eq] at hq
            rcases hq with h1 | h1
            · left; rw [← hofr, h1]; rfl
            · right; rw [← hofr, h1]; rfl
          exact dse_bs_quote b0 this _ _ hrec
        · have hq' : (r = 92 || r = 34) = false := by simpa using hq
          simp only [hq', Bool.false_eq_true, if_false]
          have hb92 : b0 ≠ 92 := by
            intro hh
            simp only [Bool.or_eq_false_iff, decide_eq_false_iff_not] at hq'
            apply hq'.1; rw [hr, hh]; rfl
          by_cases hp : ip r = true
          · simp only [hp, if_true, htake, List.cons_append, List.nil_append]
            exact dse_copy b0 _ _ hb92 hrec
          · simp only [hp, Bool.false_eq_true, if_false]
            by_cases h32 : r < 32
            · simp only [h32, if_true]
              have := dse_ctrl r h32 _ _ hrec
              rw [hofr] at this
              simpa using this
            · simp only [h32, if_false, htake, List.flatMap_cons, List.flatMap_nil, List.append_nil]
              simpa using dse_hex b0 _ _ hrec
      | invalid hr hw =>
        have hw0 : w = 0 := by omega
        subst hw0
        have htake : (b0 :: rest).take (0 + 1) = [b0] := by simp
        simp only [hr, if_true, htake, List.flatMap_cons, List.flatMap_nil, List.append_nil]
        simpa using dse_hex b0 _ _ hrec
      | multi hw2 _ hr80 hbytes =>
        have hn92 : ∀ b ∈ (b0 :: rest).take (w + 1), b ≠ 92 := by
          intro b hb hh
          have := hbytes b hb
          rw [hh] at this
          exact absurd this (by decide)
        by_cases hre : r = runeError
        · simp only [hre, if_true]
          exact dse_hex_list _ _ _ hrec
        · simp only [hre, if_false]
          have hq' : (r = 92 || r = 34) = false := by
            simp only [Bool.or_eq_false_iff, decide_eq_false_iff_not]; constructor <;> omega
          simp only [hq', Bool.false_eq_true, if_false]
          by_cases hp : ip r = true
          · simp only [hp, if_true]
            exact dse_copy_list _ _ _ hn92 hrec
          · simp only [hp, Bool.false_eq_true, if_false]
            have h32 : ¬ r < 32 := by omega
            simp only [h32, if_false]
            exact dse_hex_list _ _ _ hrec

/-- **`pydecodeStringEscape (pyquote s)` without the quotes is `s`**, for every byte string and every
    printability table. -/
theorem pyquote_inv (ip : Nat → Bool) (s : Bytes) : pydecodeStringEscape (pyquoteAux ip s.length s) = .ok s := by
  have := pyquoteAux_inv ip s.length s [] [] (Nat.le_refl _) (by rw [pydecodeStringEscape.eq_def])
  simpa using this

end Ogorek

namespace Ogorek

/-! ### no newline in the quoted text -/

theorem hexLower_ne_lf (n : Nat) : hexLower n ≠ 10 := by
  have h : hexLower n = hexLower (n % 16) := by unfold hexLower; simp
  rw [h]
  have : ∀ m, m < 16 → hexLower m ≠ 10 := by decide
  exact this _ (Nat.mod_lt _ (by decide))

theorem hexEscape_no_lf (b : UInt8) : (10 : UInt8) ∉ hexEscape b := by
  unfold hexEscape
  simp only [List.mem_cons, List.not_mem_nil, or_false, not_or]
  exact ⟨by decide, by decide, (hexLower_ne_lf _).symm, (hexLower_ne_lf _).symm⟩

theorem flatMap_hexEscape_no_lf (l : Bytes) : (10 : UInt8) ∉ l.flatMap hexEscape := by
  intro h
  obtain ⟨b, _, hb⟩ := List.mem_flatMap.mp h
  exact hexEscape_no_lf b hb

theorem quoteCtrl_no_lf (r : Nat) : (10 : UInt8) ∉ quoteCtrl r := by
  unfold quoteCtrl
  repeat' split
  all_goals first
    | decide
    | exact hexEscape_no_lf _

theorem pyquoteAux_no_lf (ip : Nat → Bool) (hip : ip 10 = false) : ∀ (fuel : Nat) (s : Bytes),
    (10 : UInt8) ∉ pyquoteAux ip fuel s := by
  intro fuel
  induction fuel with
  | zero => intro s; simp [pyquoteAux]
  | succ fuel ih =>
    intro s
    cases s with
    | nil => simp [pyquoteAux, decodeRune]
    | cons b0 rest =>
      obtain ⟨r, w, hd, hs⟩ := decodeRune_cons_eq b0 rest
      simp only [pyquoteAux, hd]
      rw [List.mem_append]
      intro hm
      rcases hm with hm | hm
      · -- the piece
        split at hm
        · exact flatMap_hexEscape_no_lf _ hm
        · split at hm
          · rename_i hq
            simp only [Bool.or_eq_true, decide_eq_true_eq] at hq
            simp only [List.mem_cons, List.not_mem_nil, or_false] at hm
            rcases hm with hm | hm
            · exact absurd hm (by decide)
            · rcases hq with rfl | rfl
              · exact absurd hm (by decide)
              · exact absurd hm (by decide)
          · split at hm
            · rename_i hne hq hp
              -- raw bytes of a printable rune
              cases hs with
              | ascii hb hr hw =>
                have hw0 : w = 0 := by omega
                subst hw0
                simp at hm
                -- b0 = 10 would make r = 10, not printable
                have : r = 10 := by rw [hr, ← hm]; rfl
                rw [this, hip] at hp
                exact absurd hp (by decide)
              | invalid hr _ => exact hne hr
              | multi _ _ _ hbytes =>
                have := hbytes 10 hm
                exact absurd this (by decide)
            · split at hm
              · exact quoteCtrl_no_lf _ hm
              · exact flatMap_hexEscape_no_lf _ hm
      · exact ih _ hm

theorem pyquote_no_lf (ip : Nat → Bool) (hip : ip 10 = false) (s : Bytes) : (10 : UInt8) ∉ pyquote ip s := by
  unfold pyquote
  simp only [List.mem_cons, List.mem_append, List.not_mem_nil, or_false, not_or]
  exact ⟨by decide, pyquoteAux_no_lf ip hip _ s, by decide⟩

end Ogorek
