import Ogorek.Lemmas.RoundTrip
import Ogorek.Lemmas.HeapKeys
import Ogorek.WF

/-!
  From a decode result to the hypotheses of the round-trip theorem (C05): a value represented by what
  the decoder returned, in a heap whose containers satisfy the decoder's key invariant, is `canon`.
-/
namespace Ogorek

mutual
/-- What `canon` needs that no decoder invariant provides: payload sizes within the 4-byte length
    forms, no Call of the bytes / bytearray forms the decoder itself interprets (excluded by C05's
    statement), and — with builtin maps — no `*big.Int` key (a pointer: the re-decoded one is another key). -/
def shapeOK (cfg : Cfg) : GoVal → Bool
  | .str s | .bytestr s => decide (s.length < 2 ^ 32)
  | .bytes s | .bytearray s => decide (s.length < 2 ^ 31)
  | .cls m n => decide (m.length < 2 ^ 32) && decide (n.length < 2 ^ 32)
  | .list xs | .tuple xs => shapeOKList cfg xs
  | .call m n args => decide (m.length < 2 ^ 32) && decide (n.length < 2 ^ 32) && !reservedCall m n && shapeOKList cfg args
  | .ref p => shapeOK cfg p
  | .map kvs | .dict kvs => shapeOKPairs cfg kvs
  | _ => true
def shapeOKList (cfg : Cfg) : List GoVal → Bool
  | [] => true
  | x :: xs => shapeOK cfg x && shapeOKList cfg xs
def shapeOKPairs (cfg : Cfg) : List (GoVal × GoVal) → Bool
  | [] => true
  | (k, v) :: r => (cfg.pyDict || mapKeyPlain cfg.su true k) && shapeOK cfg k && shapeOK cfg v && shapeOKPairs cfg r
end

/-- Pairwise-different keys, as `freshOverB` wants them. -/
theorem freshOverB_of_pairwise {eqf : GoVal → GoVal → Bool} : ∀ (ks old : List GoVal),
    (old ++ ks).Pairwise (fun a b => eqf b a = false) → freshOverB eqf old ks = true
  | [], _, _ => rfl
  | k :: ks, old, h => by
    simp only [freshOverB, Bool.and_eq_true, List.all_eq_true, Bool.not_eq_true']
    refine ⟨?_, ?_⟩
    · intro o ho
      rw [List.pairwise_append] at h
      exact h.2.2 o ho k (by simp)
    · apply freshOverB_of_pairwise ks (old ++ [k])
      simpa [List.append_assoc] using h

end Ogorek

namespace Ogorek

theorem wfResPairs_keys {c : Cfg} {u : Bool} : (kvs : Entries) → wfResPairs c u kvs = true → ∀ kv ∈ kvs, wfRes c u kv.1 = true
  | [], _ => by simp
  | (k, v) :: kvs, h => by
    simp only [wfResPairs, Bool.and_eq_true] at h
    intro kv hkv
    rcases List.mem_cons.mp hkv with rfl | hkv
    · exact h.1.1
    · exact wfResPairs_keys kvs h.2 kv hkv

theorem shapeOKPairs_plain {cfg : Cfg} : (kvs : Entries) → cfg.pyDict = false → shapeOKPairs cfg kvs = true →
    ∀ kv ∈ kvs, mapKeyPlain cfg.su true kv.1 = true
  | [], _, _ => by simp
  | (k, v) :: kvs, hpd, h => by
    simp only [shapeOKPairs, Bool.and_eq_true, hpd, Bool.false_or] at h
    intro kv hkv
    rcases List.mem_cons.mp hkv with rfl | hkv
    · exact h.1.1.1
    · exact shapeOKPairs_plain kvs hpd h.2 kv hkv

section bridge
variable {mc : MCfg}

/-- No hook: a Ref stays a Ref. -/
theorem refRho : (true = true → ∀ p : GoVal, GoVal.ref p = .ref p) := fun _ _ => rfl

mutual
/-- A hashable machine value represents only key-like values. -/
theorem keyLike_of_rep {h : List HObj} {r : GoVal} : (k : GoVal) → Rep mc GoVal.ref h r k → hashable r = true →
    wfRes mc.cfg false k = true → keyLike mc.cfg.su true k = true
  | .none, _, _, _ | .bool _, _, _, _ | .int _, _, _, _ | .float _, _, _, _ | .str _, _, _, _ | .bytes _, _, _, _
  | .cls _ _, _, _, _ | .big _ _, _, _, _ => by simp [keyLike]
  | .bytestr _, _, _, hw => by simpa [keyLike, wfRes] using hw
  | .tuple xs, hr, hh, hw => by
    simp only [Rep] at hr; obtain ⟨rs, rfl, hl⟩ := hr
    simp only [keyLike]
    simp only [wfRes] at hw
    have : (hashTreeList rs).isSome = true := by
      simp only [hashable, hashTree, Option.isSome_map] at hh; exact hh
    exact keyLikeList_of_rep xs hl this hw
  | .call m n args, hr, hh, hw => by
    simp only [Rep] at hr; obtain ⟨rs, rfl, hl⟩ := hr
    simp only [keyLike]
    simp only [wfRes] at hw
    have : (hashTreeList rs).isSome = true := by
      simp only [hashable, hashTree, Option.isSome_map] at hh; exact hh
    exact keyLikeList_of_rep args hl this hw
  | .ref p, hr, hh, hw => by
    simp only [Rep] at hr; obtain ⟨q, rfl, _, hp⟩ := hr
    simp only [keyLike, Bool.true_and]
    simp only [wfRes] at hw
    have : hashable q = true := by
      simp only [hashable, hashTree, Option.isSome_map] at hh ⊢; exact hh
    exact keyLike_of_rep p hp this hw
  | .list xs, hr, hh, _ => by
    simp only [Rep] at hr; obtain ⟨rs, rfl, _⟩ := hr
    simp [hashable, hashTree] at hh
  | .bytearray _, hr, hh, _ => by
    simp only [Rep] at hr; subst hr
    simp [hashable, hashTree] at hh
  | .map _, hr, hh, _ | .dict _, hr, hh, _ => by
    simp only [Rep] at hr; obtain ⟨id, es, rfl, _⟩ := hr
    simp [hashable, hashTree] at hh
  | .nil, _, _, hw => by simp [wfRes] at hw
  | .uint _, hr, _, _ | .complex _ _, hr, _, _ | .user _, hr, _, _ | .mark, hr, _, _ | .href _, hr, _, _ | .cycle, hr, _, _ => by
    simp [Rep] at hr
theorem keyLikeList_of_rep {h : List HObj} : {rs : List GoVal} → (xs : List GoVal) → RepList mc GoVal.ref h rs xs →
    (hashTreeList rs).isSome = true → wfResList mc.cfg false xs = true → keyLikeList mc.cfg.su true xs = true
  | [], [], _, _, _ => rfl
  | [], _ :: _, hr, _, _ => by simp [RepList] at hr
  | _ :: _, [], hr, _, _ => by simp [RepList] at hr
  | r :: rs, x :: xs, hr, hh, hw => by
    simp only [RepList] at hr
    simp only [wfResList, Bool.and_eq_true] at hw
    simp only [keyLikeList, Bool.and_eq_true]
    have h1 : hashable r = true ∧ (hashTreeList rs).isSome = true := by
      simp only [hashTreeList] at hh
      cases ht : hashTree r with
      | none => rw [ht] at hh; simp at hh
      | some t =>
        cases hts : hashTreeList rs with
        | none => rw [ht, hts] at hh; simp at hh
        | some ts => simp [hashable, ht]
    exact ⟨keyLike_of_rep x hr.1 h1.1 hw.1, keyLikeList_of_rep xs hr.2 h1.2 hw.2⟩
end

theorem RepPairs.mem_keys {h : List HObj} : {es kvs : Entries} → RepPairs mc GoVal.ref h es kvs →
    ∀ kv ∈ kvs, ∃ e ∈ es, Rep mc GoVal.ref h e.1 kv.1
  | [], [], _ => by simp
  | [], _ :: _, hr => by simp [RepPairs] at hr
  | _ :: _, [], hr => by simp [RepPairs] at hr
  | (rk, rv) :: es, (k, v) :: kvs, hr => by
    simp only [RepPairs] at hr
    intro kv hkv
    rcases List.mem_cons.mp hkv with rfl | hkv
    · exact ⟨(rk, rv), by simp, hr.1⟩
    · obtain ⟨e, he, hre⟩ := RepPairs.mem_keys hr.2.2 kv hkv
      exact ⟨e, by simp [he], hre⟩

/-- Pairwise-different decoded keys are pairwise-different encoded keys (Dict mode). -/
theorem pairwise_keys_of_rep {h : List HObj} : {es kvs : Entries} → RepPairs mc GoVal.ref h es kvs →
    (∀ kv ∈ kvs, keyLike mc.cfg.su true kv.1 = true) →
    es.Pairwise (fun a b => goEqual b.1 a.1 = false) → (kvs.map (·.1)).Pairwise (fun a b => goEqual b a = false)
  | [], [], _, _, _ => by simp
  | [], _ :: _, hr, _, _ => by simp [RepPairs] at hr
  | _ :: _, [], hr, _, _ => by simp [RepPairs] at hr
  | (rk, rv) :: es, (k, v) :: kvs, hr, hkl, hp => by
    simp only [RepPairs] at hr
    rw [List.pairwise_cons] at hp
    simp only [List.map_cons, List.pairwise_cons]
    refine ⟨?_, pairwise_keys_of_rep hr.2.2 (fun kv hkv => hkl kv (by simp [hkv])) hp.2⟩
    intro k' hk'
    obtain ⟨kv', hkv', rfl⟩ := List.mem_map.mp hk'
    obtain ⟨e, he, hre⟩ := RepPairs.mem_keys hr.2.2 kv' hkv'
    rw [← Rep.goEqual_eq refRho hre hr.1 (hkl kv' (by simp [hkv'])) (hkl (k, v) (by simp))]
    exact hp.1 e he

mutual
/-- **The bridge.** A value represented by a machine value in a heap with the decoder's key invariant,
    of documented types (`wfRes`) and of encodable shape, satisfies the hypotheses of the round trip. -/
theorem canon_of_rep {h : List HObj} (hk : ∀ o ∈ h, EntriesOK o.kind o.kvs) {r : GoVal} :
    (v : GoVal) → Rep mc GoVal.ref h r v → wfRes mc.cfg false v = true → shapeOK mc.cfg v = true → canon mc.cfg true v = true
  | .none, _, _, _ | .bool _, _, _, _ | .float _, _, _, _ | .big _ _, _, _, _ => by simp [canon]
  | .nil, _, hw, _ => by simp [wfRes] at hw
  | .int i, _, hw, _ => by simpa [canon, wfRes] using hw
  | .str s, _, _, hs | .bytestr s, _, _, hs | .bytes s, _, _, hs | .bytearray s, _, _, hs => by simpa [canon, shapeOK] using hs
  | .cls m n, _, _, hs => by simpa [canon, shapeOK] using hs
  | .list xs, hr, hw, hs => by
    simp only [Rep] at hr; obtain ⟨rs, rfl, hl⟩ := hr
    simp only [canon]; simp only [wfRes] at hw; simp only [shapeOK] at hs
    exact canonList_of_rep hk xs hl hw hs
  | .tuple xs, hr, hw, hs => by
    simp only [Rep] at hr; obtain ⟨rs, rfl, hl⟩ := hr
    simp only [canon]; simp only [wfRes] at hw; simp only [shapeOK] at hs
    exact canonList_of_rep hk xs hl hw hs
  | .call m n args, hr, hw, hs => by
    simp only [Rep] at hr; obtain ⟨rs, rfl, hl⟩ := hr
    simp only [wfRes] at hw
    simp only [shapeOK, Bool.and_eq_true] at hs
    simp only [canon, Bool.and_eq_true]
    exact ⟨hs.1, canonList_of_rep hk args hl hw hs.2⟩
  | .ref p, hr, hw, hs => by
    simp only [Rep] at hr; obtain ⟨q, rfl, _, hp⟩ := hr
    simp only [canon]; simp only [wfRes] at hw; simp only [shapeOK] at hs
    exact canon_of_rep hk p hp hw hs
  | .map kvs, hr, hw, hs => by
    simp only [Rep] at hr; obtain ⟨id, es, rfl, hg, hp⟩ := hr
    simp only [wfRes, Bool.and_eq_true, Bool.not_eq_true'] at hw
    simp only [shapeOK] at hs
    simp only [canon, Bool.and_eq_true]
    exact ⟨canonPairs_of_rep hk kvs hp hw.2 hs, keysOK_of_rep hk kvs hg hp hw.2 hs⟩
  | .dict kvs, hr, hw, hs => by
    simp only [Rep] at hr; obtain ⟨id, es, rfl, hg, hp⟩ := hr
    simp only [wfRes, Bool.and_eq_true] at hw
    simp only [shapeOK] at hs
    simp only [canon, Bool.and_eq_true]
    exact ⟨canonPairs_of_rep hk kvs hp hw.2 hs, keysOK_of_rep hk kvs hg hp hw.2 hs⟩
  | .uint _, hr, _, _ | .complex _ _, hr, _, _ | .user _, hr, _, _ | .mark, hr, _, _ | .href _, hr, _, _ | .cycle, hr, _, _ => by
    simp [Rep] at hr
theorem canonList_of_rep {h : List HObj} (hk : ∀ o ∈ h, EntriesOK o.kind o.kvs) : {rs : List GoVal} → (xs : List GoVal) →
    RepList mc GoVal.ref h rs xs → wfResList mc.cfg false xs = true → shapeOKList mc.cfg xs = true → canonList mc.cfg true xs = true
  | [], [], _, _, _ => rfl
  | [], _ :: _, hr, _, _ => by simp [RepList] at hr
  | _ :: _, [], hr, _, _ => by simp [RepList] at hr
  | r :: rs, x :: xs, hr, hw, hs => by
    simp only [RepList] at hr
    simp only [wfResList, Bool.and_eq_true] at hw
    simp only [shapeOKList, Bool.and_eq_true] at hs
    simp only [canonList, Bool.and_eq_true]
    exact ⟨canon_of_rep hk x hr.1 hw.1 hs.1, canonList_of_rep hk xs hr.2 hw.2 hs.2⟩
theorem canonPairs_of_rep {h : List HObj} (hk : ∀ o ∈ h, EntriesOK o.kind o.kvs) : {es : Entries} → (kvs : Entries) →
    RepPairs mc GoVal.ref h es kvs → wfResPairs mc.cfg false kvs = true → shapeOKPairs mc.cfg kvs = true → canonPairs mc.cfg true kvs = true
  | [], [], _, _, _ => rfl
  | [], _ :: _, hr, _, _ => by simp [RepPairs] at hr
  | _ :: _, [], hr, _, _ => by simp [RepPairs] at hr
  | (rk, rv) :: es, (k, v) :: kvs, hr, hw, hs => by
    simp only [RepPairs] at hr
    simp only [wfResPairs, Bool.and_eq_true] at hw
    simp only [shapeOKPairs, Bool.and_eq_true] at hs
    simp only [canonPairs, Bool.and_eq_true]
    exact ⟨⟨canon_of_rep hk k hr.1 hw.1.1 hs.1.1.2, canon_of_rep hk v hr.2.1 hw.1.2 hs.1.2⟩,
      canonPairs_of_rep hk kvs hr.2.2 hw.2 hs.2⟩
theorem keysOK_of_rep {h : List HObj} (hk : ∀ o ∈ h, EntriesOK o.kind o.kvs) {id : Nat} {es : Entries} (kvs : Entries)
    (hg : h[id]? = some { kind := dictKind mc.cfg, kvs := es }) (hp : RepPairs mc GoVal.ref h es kvs)
    (hw : wfResPairs mc.cfg false kvs = true) (hs : shapeOKPairs mc.cfg kvs = true) : keysOK mc.cfg true kvs = true := by
  have heo := hk _ (List.mem_of_getElem? hg)
  simp only at heo
  have hwk : ∀ kv ∈ kvs, wfRes mc.cfg false kv.1 = true := wfResPairs_keys kvs hw
  unfold keysOK
  unfold dictKind at heo
  by_cases hpd : mc.cfg.pyDict = true
  · simp only [hpd, if_true, EntriesOK] at heo ⊢
    have hkl : ∀ kv ∈ kvs, keyLike mc.cfg.su true kv.1 = true := by
      intro kv hkv
      obtain ⟨e, he, hre⟩ := RepPairs.mem_keys hp kv hkv
      exact keyLike_of_rep kv.1 hre (heo.1 e he) (hwk kv hkv)
    simp only [Bool.and_eq_true, List.all_eq_true]
    refine ⟨?_, freshOverB_of_pairwise _ [] (by simpa using pairwise_keys_of_rep hp hkl heo.2)⟩
    intro kv hkv
    obtain ⟨e, he, hre⟩ := RepPairs.mem_keys hp kv hkv
    exact ⟨hkl kv hkv, by rw [← Rep.hashable_eq refRho hre (hkl kv hkv)]; exact heo.1 e he⟩
  · have hpd' : mc.cfg.pyDict = false := by simpa using hpd
    simp only [hpd', Bool.false_eq_true, if_false, EntriesOK] at heo ⊢
    have hpl : ∀ kv ∈ kvs, mapKeyPlain mc.cfg.su true kv.1 = true := shapeOKPairs_plain kvs hpd' hs
    have heq : es.map (·.1) = kvs.map (·.1) :=
      RepList.eq_of_plain refRho hp.keys (fun k hk' => by
        obtain ⟨kv, hkv, rfl⟩ := List.mem_map.mp hk'; exact hpl kv hkv)
    simp only [Bool.and_eq_true, List.all_eq_true]
    refine ⟨hpl, freshOverB_of_pairwise _ [] ?_⟩
    rw [List.nil_append, ← heq]
    exact List.Pairwise.map _ (fun a b hab => hab) heo.2
end

end bridge

end Ogorek
