import Ogorek.Lemmas.CPickleSForms

/-!
  Decoding what CPython's pickler writes (C02), with the memo read: bytes / bytearray in all their
  forms, and the induction over the object.
-/
namespace Ogorek

section
variable {mc : MCfg} {hook : Hook} {mz : Option PKey → Bool}

theorem repGList_nil {cfg : Cfg} {n : Nat} {h : List HObj} {rs : List GoVal} (hr : RepGList cfg n h rs []) : rs = [] := by
  cases rs with
  | nil => rfl
  | cons _ _ => simp [RepGList] at hr

/-- `()` as the pickler writes it. -/
theorem pushesG_emptyTuple (p : Nat) (s : PSt) : PushesG mc hook (ecfg p) (MemoInv p) (emptyTupleBytes p) (.tuple []) s s := by
  unfold emptyTupleBytes
  split
  · refine PushesG.of_pushes (MemoInv.memoOnly p) s (P := fun r => r = .tuple []) (Pushes.one (fun _ => .tuple [])
      (parses_op 41 .emptyTuple rfl parseArg_41) (fun _ _ => rfl) (fun _ => rfl)) ?_
    intro r n hp hr
    simp only [RepG]; exact ⟨[], hr, by simp [RepGList]⟩
  · exact pushesG_tupleMark (MemoInv.memoOnly p) [] [] (PushesGN.nil s)

theorem protoOK_mod {p : Nat} {st : DState} (h : ProtoOK (ecfg p) st) : pybuiltinModule st.proto = pybuiltinModuleE p := h

/-- `save_bytes` with the memo, in all its forms. -/
theorem saveBytesS_ok (p : Nat) (s s' : PSt) (key : Option PKey) (d b : Bytes)
    (hkey : ∀ k, key = some k → valOf p k = .bytes d) (h : saveBytesS mz p s key d = some (b, s')) :
    PushesG mc hook (ecfg p) (MemoInv p) b (.bytes d) s s' := by
  have hvp : ∀ (n : Nat) (hp : List HObj) (r : GoVal), RepG mc.cfg n hp r (.bytes d) → ∀ k, key = some k → r = valOf p k := by
    intro n hp r hr k hk
    simp only [RepG] at hr
    rw [hr, hkey k hk]
  unfold saveBytesS at h
  cases hfind : key.bind s.find with
  | some idx =>
    simp only [hfind, Option.some.injEq, Prod.mk.injEq] at h
    obtain ⟨rfl, rfl⟩ := h
    cases key with
    | none => simp at hfind
    | some k =>
      simp only [Option.bind_some] at hfind
      exact pushesG_get_str p s k idx _ hfind (fun n hp => by rw [hkey k rfl]; simp [RepG])
  | none =>
    simp only [hfind] at h
    by_cases h3 : p ≥ 3
    · simp only [h3, if_true] at h
      cases hcb : cpBytes p d with
      | none => simp [hcb] at h
      | some b0 =>
        simp only [hcb] at h
        cases hput : putS mz p s key with
        | none => simp [hput] at h
        | some r =>
          obtain ⟨pb, s1⟩ := r
          simp only [hput, Option.some.injEq, Prod.mk.injEq] at h
          obtain ⟨rfl, rfl⟩ := h
          exact (pushesG_bytes (MemoInv.memoOnly p) s p d b0 hcb).put (putOK_S p s s1 key pb hput) hvp
    · simp only [h3, if_false] at h
      by_cases hemp : d.isEmpty = true
      · have hd : d = [] := List.isEmpty_iff.mp hemp
        subst hd
        simp only [List.isEmpty_nil, if_true] at h
        cases hg : saveGlobalS mz p s .gBytes (pybuiltinModuleE p) (sb "bytes") with
        | none => simp [hg] at h
        | some r1 =>
          obtain ⟨g, s1⟩ := r1
          simp only [hg] at h
          cases hput : putS mz p s1 key with
          | none => simp [hput] at h
          | some r2 =>
            obtain ⟨pb, s2⟩ := r2
            simp only [hput, Option.some.injEq, Prod.mk.injEq] at h
            obtain ⟨rfl, rfl⟩ := h
            have hgv := saveGlobalS_ok (mc := mc) (hook := hook) p s s1 .gBytes (pybuiltinModuleE p) (sb "bytes") g rfl
              (by unfold pybuiltinModuleE; split <;> decide) (by decide) hg
            have hred := pushesG_reduce (MemoInv.memoOnly p) (res := .bytes []) hgv (pushesG_emptyTuple p s1) (by
              intro st rs hh nn hpo hrl
              have := repGList_nil hrl; subst this
              refine ⟨.bytes [], ?_, fun _ _ => by simp [RepG]⟩
              rw [← protoOK_mod hpo]
              exact (C02_bytes_forms st.proto []).2.2.1)
            exact hred.put (putOK_S p s1 s2 key pb hput) hvp
      · simp only [hemp, Bool.false_eq_true, if_false] at h
        cases hg : saveGlobalS mz p s .gEncode (sb "_codecs") (sb "encode") with
        | none => simp [hg] at h
        | some r1 =>
          obtain ⟨g, s1⟩ := r1
          simp only [hg] at h
          cases h1 : saveStrS mz p s1 none none (latin1ToUtf8 d) with
          | none => simp [h1] at h
          | some r2 =>
            obtain ⟨b1, s2⟩ := r2
            simp only [h1] at h
            cases h2 : saveStrS mz p s2 (some .sLatin1) (some .sLatin1) (sb "latin1") with
            | none => simp [h2] at h
            | some r3 =>
              obtain ⟨b2, s3⟩ := r3
              simp only [h2] at h
              cases hpt : putS mz p s3 none with
              | none => simp [hpt] at h
              | some r4 =>
                obtain ⟨pt, s4⟩ := r4
                simp only [hpt] at h
                cases hput : putS mz p s4 key with
                | none => simp [hput] at h
                | some r5 =>
                  obtain ⟨pb, s5⟩ := r5
                  simp only [hput, Option.some.injEq, Prod.mk.injEq] at h
                  obtain ⟨rfl, rfl⟩ := h
                  have hgv := saveGlobalS_ok (mc := mc) (hook := hook) p s s1 .gEncode (sb "_codecs") (sb "encode") g rfl
                    (by decide) (by decide) hg
                  have hs1 := saveStrS_ok (mc := mc) (hook := hook) p s1 s2 none none (latin1ToUtf8 d) b1 (fun _ hk => by cases hk) (fun _ hk => by cases hk) h1
                  have hs2 := saveStrS_ok (mc := mc) (hook := hook) p s2 s3 (some .sLatin1) (some .sLatin1) (sb "latin1") b2
                    (fun k hk => by injection hk with hk; subst hk; rfl) (fun k hk => by injection hk with hk; subst hk; rfl) h2
                  have hitems : PushesGN mc hook (ecfg p) (MemoInv p) (b1 ++ b2) [.str (latin1ToUtf8 d), .str (sb "latin1")] s1 s3 := by
                    simpa using PushesGN.append hs1.toN hs2.toN
                  have hargs : PushesG mc hook (ecfg p) (MemoInv p)
                      ((if p ≥ 2 then [] else [40]) ++ (b1 ++ b2) ++ [if p ≥ 2 then 0x86 else 116] ++ pt)
                      (.tuple [.str (latin1ToUtf8 d), .str (sb "latin1")]) s1 s4 := by
                    by_cases h2' : p ≥ 2
                    · simp only [h2', if_true, List.nil_append]
                      have := (pushesG_tupleN (MemoInv.memoOnly p) [.str (latin1ToUtf8 d), .str (sb "latin1")] (by simp) (by simp) _ hitems).put
                        (putOK_S p s3 s4 none pt hpt) (fun _ _ _ _ k hk => by cases hk)
                      exact pushesG_of_eq this (by simp)
                    · simp only [h2', if_false]
                      have := (pushesG_tupleMark (MemoInv.memoOnly p) [.str (latin1ToUtf8 d), .str (sb "latin1")] _ hitems).put
                        (putOK_S p s3 s4 none pt hpt) (fun _ _ _ _ k hk => by cases hk)
                      exact pushesG_of_eq this (by simp)
                  have hred := pushesG_reduce (MemoInv.memoOnly p) (res := .bytes d) hgv hargs (by
                    intro st rs hh nn hpo hrl
                    have hrs : rs = [.str (latin1ToUtf8 d), .str (sb "latin1")] := by
                      match rs, hrl with
                      | [a, b], hrl =>
                        simp only [RepGList, RepG] at hrl
                        rw [hrl.1, hrl.2.1]
                      | [], hrl => simp [RepGList] at hrl
                      | [_], hrl => simp [RepGList] at hrl
                      | _ :: _ :: _ :: _, hrl => simp [RepGList] at hrl
                    subst hrs
                    exact ⟨.bytes d, (C02_bytes_forms st.proto d).1, fun _ _ => by simp [RepG]⟩)
                  exact pushesG_of_eq (hred.put (putOK_S p s4 s5 key pb hput) hvp) (by simp)

/-- `save_bytearray` with the memo, in all its forms. -/
theorem saveBytearrayS_ok (p : Nat) (s s' : PSt) (key : Option PKey) (d b : Bytes) (hl : d.length < 2 ^ 32)
    (hkey : ∀ k, key = some k → valOf p k = .bytearray d) (h : saveBytearrayS mz p s key d = some (b, s')) :
    PushesG mc hook (ecfg p) (MemoInv p) b (.bytearray d) s s' := by
  have hvp : ∀ (n : Nat) (hp : List HObj) (r : GoVal), RepG mc.cfg n hp r (.bytearray d) → ∀ k, key = some k → r = valOf p k := by
    intro n hp r hr k hk
    simp only [RepG] at hr
    rw [hr, hkey k hk]
  unfold saveBytearrayS at h
  cases hfind : key.bind s.find with
  | some idx =>
    simp only [hfind, Option.some.injEq, Prod.mk.injEq] at h
    obtain ⟨rfl, rfl⟩ := h
    cases key with
    | none => simp at hfind
    | some k =>
      simp only [Option.bind_some] at hfind
      exact pushesG_get_str p s k idx _ hfind (fun n hp => by rw [hkey k rfl]; simp [RepG])
  | none =>
    simp only [hfind] at h
    by_cases h5 : p ≥ 5
    · simp only [h5, if_true] at h
      cases hcb : cpBytearray p d with
      | none => simp [hcb] at h
      | some b0 =>
        simp only [hcb] at h
        cases hput : putS mz p s key with
        | none => simp [hput] at h
        | some r =>
          obtain ⟨pb, s1⟩ := r
          simp only [hput, Option.some.injEq, Prod.mk.injEq] at h
          obtain ⟨rfl, rfl⟩ := h
          exact (pushesG_bytearray (MemoInv.memoOnly p) s p d b0 hl hcb).put (putOK_S p s s1 key pb hput) hvp
    · simp only [h5, if_false] at h
      cases hg : saveGlobalS mz p s .gBytearray (pybuiltinModuleE p) (sb "bytearray") with
      | none => simp [hg] at h
      | some r1 =>
        obtain ⟨g, s1⟩ := r1
        simp only [hg] at h
        have hgv := saveGlobalS_ok (mc := mc) (hook := hook) p s s1 .gBytearray (pybuiltinModuleE p) (sb "bytearray") g rfl
          (by unfold pybuiltinModuleE; split <;> decide) (by decide) hg
        by_cases hemp : d.isEmpty = true
        · have hd : d = [] := List.isEmpty_iff.mp hemp
          subst hd
          simp only [List.isEmpty_nil, if_true] at h
          cases hput : putS mz p s1 key with
          | none => simp [hput] at h
          | some r2 =>
            obtain ⟨pb, s2⟩ := r2
            simp only [hput, Option.some.injEq, Prod.mk.injEq] at h
            obtain ⟨rfl, rfl⟩ := h
            have hred := pushesG_reduce (MemoInv.memoOnly p) (res := .bytearray []) hgv (pushesG_emptyTuple p s1) (by
              intro st rs hh nn hpo hrl
              have := repGList_nil hrl; subst this
              refine ⟨.bytearray [], ?_, fun _ _ => by simp [RepG]⟩
              rw [← protoOK_mod hpo]
              exact (C02_bytes_forms st.proto []).2.2.2.1)
            exact hred.put (putOK_S p s1 s2 key pb hput) hvp
        · simp only [hemp, Bool.false_eq_true, if_false] at h
          cases hb : saveBytesS mz p s1 none d with
          | none => simp [hb] at h
          | some r2 =>
            obtain ⟨bb, s2⟩ := r2
            simp only [hb] at h
            cases hpt : putS mz p s2 none with
            | none => simp [hpt] at h
            | some r3 =>
              obtain ⟨pt, s3⟩ := r3
              simp only [hpt] at h
              cases hput : putS mz p s3 key with
              | none => simp [hput] at h
              | some r4 =>
                obtain ⟨pb, s4⟩ := r4
                simp only [hput, Option.some.injEq, Prod.mk.injEq] at h
                obtain ⟨rfl, rfl⟩ := h
                have hbi := saveBytesS_ok (mc := mc) (hook := hook) p s1 s2 none d bb (fun _ hk => by cases hk) hb
                have hargs : PushesG mc hook (ecfg p) (MemoInv p)
                    ((if p ≥ 2 then [] else [40]) ++ bb ++ [if p ≥ 2 then 0x85 else 116] ++ pt) (.tuple [.bytes d]) s1 s3 := by
                  by_cases h2' : p ≥ 2
                  · simp only [h2', if_true, List.nil_append]
                    have := (pushesG_tupleN (MemoInv.memoOnly p) [.bytes d] (by simp) (by simp) _ hbi.toN).put
                      (putOK_S p s2 s3 none pt hpt) (fun _ _ _ _ k hk => by cases hk)
                    exact pushesG_of_eq this (by simp)
                  · simp only [h2', if_false]
                    have := (pushesG_tupleMark (MemoInv.memoOnly p) [.bytes d] _ hbi.toN).put
                      (putOK_S p s2 s3 none pt hpt) (fun _ _ _ _ k hk => by cases hk)
                    exact pushesG_of_eq this (by simp)
                have hred := pushesG_reduce (MemoInv.memoOnly p) (res := .bytearray d) hgv hargs (by
                  intro st rs hh nn hpo hrl
                  have hrs : rs = [.bytes d] := by
                    match rs, hrl with
                    | [a], hrl =>
                      simp only [RepGList, RepG] at hrl
                      rw [hrl.1]
                    | [], hrl => simp [RepGList] at hrl
                    | _ :: _ :: _, hrl => simp [RepGList] at hrl
                  subst hrs
                  refine ⟨.bytearray d, ?_, fun _ _ => by simp [RepG]⟩
                  rw [← protoOK_mod hpo]
                  exact (C02_bytes_forms st.proto d).2.2.2.2)
                exact pushesG_of_eq (hred.put (putOK_S p s3 s4 key pb hput) hvp) (by simp)

end


theorem eraseList_length : (xs : List PyObjS) → (eraseList xs).length = xs.length
  | [] => rfl
  | _ :: xs => by simp [eraseList, eraseList_length xs]

/-! ### the induction, with the memo -/

section
variable {mc : MCfg} {hook : Hook} {mz : Option PKey → Bool}

theorem putS_none_ok (p : Nat) (s s' : PSt) (pb : Bytes) (h : putS mz p s none = some (pb, s')) :
    PutOK mc hook (ecfg p) (MemoInv p) pb (fun _ => True) s s' := by
  refine RunsP.weaken (putOK_S (mc := mc) (hook := hook) (c := ecfg p) p s s' none pb h) ?_ (fun _ _ _ _ q => q)
  intro st ⟨hj, r, rest, hs, hm, _⟩
  exact ⟨hj, r, rest, hs, hm, fun k hk => by cases hk⟩

mutual
/-- `save(obj)` with the memo: what is written, read by a decoder whose memo is as the pickler's, pushes one value
    representing the object and leaves the memo as the pickler's is afterwards. -/
theorem sk_val (hlr : mc.listRef = false) (py : Bool) (p : Nat) : (v : PyObjS) → (s : PSt) → (b : Bytes) → (s' : PSt) →
    pkOK mc.cfg p (erase v) → cpSaveS mz py p v s = some (b, s') → PushesG mc hook (ecfg p) (MemoInv p) b (erase v) s s'
  | .none, s, b, s', _, hs => by
    simp only [cpSaveS, Option.some.injEq, Prod.mk.injEq] at hs
    obtain ⟨rfl, rfl⟩ := hs
    have := pushes_none (mc := mc) (hook := hook) (c := ecfg p)
    rw [flat_emit] at this
    exact PushesG.of_pushes (MemoInv.memoOnly p) s this (fun r n hp hr => by simpa [erase, RepG] using hr)
  | .bool bv, s, b, s', _, hs => by
    simp only [cpSaveS, Option.some.injEq, Prod.mk.injEq] at hs
    obtain ⟨rfl, rfl⟩ := hs
    exact PushesG.of_pushes (MemoInv.memoOnly p) s (pushes_bool (mc := mc) (hook := hook) (c := ecfg p) bv)
      (fun r n hp hr => by simpa [erase, RepG] using hr)
  | .int i, s, b, s', _, hs => by
    cases hci : cpInt p i with
    | none => simp [cpSaveS, hci] at hs
    | some b0 =>
      simp only [cpSaveS, hci, Option.map_some, Option.some.injEq, Prod.mk.injEq] at hs
      obtain ⟨rfl, rfl⟩ := hs
      exact pushesG_int (MemoInv.memoOnly p) s p i b0 hci
  | .float f, s, b, s', hok, hs => by
    simp only [cpSaveS, Option.some.injEq, Prod.mk.injEq] at hs
    obtain ⟨rfl, rfl⟩ := hs
    exact pushesG_float (MemoInv.memoOnly p) s p f (by simpa [erase, pkOK] using hok)
  | .str oid t, s, b, s', _, hs => by
    simp only [cpSaveS] at hs
    refine saveStrS_ok p s s' (some (.str oid t)) (if strCopied py p t then none else some (.str oid t)) t b
      (fun k hk => by injection hk with hk; subst hk; rfl) ?_ hs
    intro k hk
    by_cases hc : strCopied py p t = true
    · simp [hc] at hk
    · simp [hc] at hk; subst hk; rfl
  | .bytes oid d, s, b, s', _, hs => by
    simp only [cpSaveS] at hs
    exact saveBytesS_ok p s s' (some (.bytes oid d)) d b (fun k hk => by injection hk with hk; subst hk; rfl) hs
  | .bytearray oid d, s, b, s', hok, hs => by
    simp only [cpSaveS] at hs
    exact saveBytearrayS_ok p s s' (some (.bytearray oid d)) d b (by simpa [erase, pkOK] using hok)
      (fun k hk => by injection hk with hk; subst hk; rfl) hs
  | .tuple xs, s, b, s', hok, hs => by
    simp only [erase, pkOK] at hok
    simp only [cpSaveS] at hs
    simp only [erase]
    by_cases hemp : xs.isEmpty = true
    · have hx : xs = [] := List.isEmpty_iff.mp hemp
      subst hx
      simp only [List.isEmpty_nil, if_true, Option.some.injEq, Prod.mk.injEq] at hs
      obtain ⟨rfl, rfl⟩ := hs
      simpa [eraseList] using pushesG_emptyTuple (mc := mc) (hook := hook) p s
    · simp only [hemp, Bool.false_eq_true, if_false] at hs
      cases hsl : cpSaveListS mz py p xs s with
      | none => simp [hsl] at hs
      | some r =>
        obtain ⟨fs, s1⟩ := r
        simp only [hsl] at hs
        cases hput : putS mz p s1 none with
        | none => simp [hput] at hs
        | some r2 =>
          obtain ⟨pb, s2⟩ := r2
          simp only [hput, Option.some.injEq, Prod.mk.injEq] at hs
          obtain ⟨rfl, rfl⟩ := hs
          have hfr := sk_list hlr py p xs s fs s1 hok hsl
          have hi := FragsGN.flatten hfr
          rw [flatten_map_single] at hi
          have hlen : (eraseList xs).length = xs.length := eraseList_length xs
          have hne : 1 ≤ (eraseList xs).length := by
            rw [hlen]
            cases xs with
            | nil => simp at hemp
            | cons _ _ => simp
          by_cases h23 : p ≥ 2 ∧ xs.length ≤ 3
          · simp only [h23, and_self, if_true, List.nil_append]
            have := (pushesG_tupleN (MemoInv.memoOnly p) (eraseList xs) hne (by rw [hlen]; exact h23.2) fs.flatten hi).put
              (putS_none_ok p s1 s2 pb hput) (fun _ _ _ _ => trivial)
            rw [hlen] at this
            exact pushesG_of_eq this (by simp)
          · simp only [h23, if_false]
            have := (pushesG_tupleMark (MemoInv.memoOnly p) (eraseList xs) fs.flatten hi).put
              (putS_none_ok p s1 s2 pb hput) (fun _ _ _ _ => trivial)
            exact pushesG_of_eq this (by simp)
  | .list xs, s, b, s', hok, hs => by
    simp only [erase, pkOK] at hok
    simp only [cpSaveS] at hs
    simp only [erase]
    cases hput : putS mz p s none with
    | none => simp [hput] at hs
    | some r1 =>
      obtain ⟨pb, s1⟩ := r1
      simp only [hput] at hs
      cases hsl : cpSaveListS mz py p xs s1 with
      | none => simp [hsl] at hs
      | some r =>
        obtain ⟨fs, s2⟩ := r
        simp only [hsl, Option.some.injEq, Prod.mk.injEq] at hs
        obtain ⟨rfl, rfl⟩ := hs
        exact pushesG_list (MemoInv.memoOnly p) hlr py p pb (eraseList xs) fs (putS_none_ok p s s1 pb hput) trivial
          (sk_list hlr py p xs s1 fs s2 hok hsl)
  | .dict kvs, s, b, s', hok, hs => by
    simp only [erase, pkOK] at hok
    simp only [cpSaveS] at hs
    simp only [erase]
    cases hput : putS mz p s none with
    | none => simp [hput] at hs
    | some r1 =>
      obtain ⟨pb, s1⟩ := r1
      simp only [hput] at hs
      cases hsl : cpSavePairsS mz py p kvs s1 with
      | none => simp [hsl] at hs
      | some r =>
        obtain ⟨fs, s2⟩ := r
        simp only [hsl, Option.some.injEq, Prod.mk.injEq] at hs
        obtain ⟨rfl, rfl⟩ := hs
        exact pushesG_dict (MemoInv.memoOnly p) py p pb (erasePairs kvs) fs (putS_none_ok p s s1 pb hput) (fun _ => trivial)
          (sk_pairs hlr py p kvs s1 fs s2 hok.1 hsl) hok.2
theorem sk_list (hlr : mc.listRef = false) (py : Bool) (p : Nat) : (xs : List PyObjS) → (s : PSt) → (fs : List Bytes) → (s' : PSt) →
    pkOKList mc.cfg p (eraseList xs) → cpSaveListS mz py p xs s = some (fs, s') →
    FragsGN mc hook (ecfg p) (MemoInv p) fs ((eraseList xs).map fun x => [x]) s s'
  | [], s, fs, s', _, hs => by
    simp only [cpSaveListS, Option.some.injEq, Prod.mk.injEq] at hs
    obtain ⟨rfl, rfl⟩ := hs
    simp [eraseList, FragsGN]
  | x :: xs, s, fs, s', hok, hs => by
    simp only [eraseList, pkOKList] at hok
    simp only [cpSaveListS] at hs
    cases h1 : cpSaveS mz py p x s with
    | none => simp [h1] at hs
    | some r1 =>
      obtain ⟨b, s1⟩ := r1
      simp only [h1] at hs
      cases h2 : cpSaveListS mz py p xs s1 with
      | none => simp [h2] at hs
      | some r2 =>
        obtain ⟨fs2, s2⟩ := r2
        simp only [h2, Option.some.injEq, Prod.mk.injEq] at hs
        obtain ⟨rfl, rfl⟩ := hs
        simp only [eraseList, List.map_cons, FragsGN]
        exact ⟨s1, (sk_val hlr py p x s b s1 hok.1 h1).toN, sk_list hlr py p xs s1 fs2 s2 hok.2 h2⟩
theorem sk_pairs (hlr : mc.listRef = false) (py : Bool) (p : Nat) : (kvs : List (PyObjS × PyObjS)) → (s : PSt) → (fs : List Bytes) → (s' : PSt) →
    pkOKPairs mc.cfg p (erasePairs kvs) → cpSavePairsS mz py p kvs s = some (fs, s') →
    FragsGN mc hook (ecfg p) (MemoInv p) fs ((erasePairs kvs).map fun kv => [kv.1, kv.2]) s s'
  | [], s, fs, s', _, hs => by
    simp only [cpSavePairsS, Option.some.injEq, Prod.mk.injEq] at hs
    obtain ⟨rfl, rfl⟩ := hs
    simp [erasePairs, FragsGN]
  | (k, v) :: kvs, s, fs, s', hok, hs => by
    simp only [erasePairs, pkOKPairs] at hok
    simp only [cpSavePairsS] at hs
    cases h1 : cpSaveS mz py p k s with
    | none => simp [h1] at hs
    | some r1 =>
      obtain ⟨bk, s1⟩ := r1
      simp only [h1] at hs
      cases h2 : cpSaveS mz py p v s1 with
      | none => simp [h2] at hs
      | some r2 =>
        obtain ⟨bv, s2⟩ := r2
        simp only [h2] at hs
        cases h3 : cpSavePairsS mz py p kvs s2 with
        | none => simp [h3] at hs
        | some r3 =>
          obtain ⟨fs3, s3⟩ := r3
          simp only [h3, Option.some.injEq, Prod.mk.injEq] at hs
          obtain ⟨rfl, rfl⟩ := hs
          simp only [erasePairs, List.map_cons, FragsGN]
          refine ⟨s2, ?_, sk_pairs hlr py p kvs s2 fs3 s3 hok.2.2 h3⟩
          have := PushesGN.append (sk_val hlr py p k s bk s1 hok.1 h1).toN (sk_val hlr py p v s1 bv s2 hok.2.1 h2).toN
          simpa using this
end

end

end Ogorek
