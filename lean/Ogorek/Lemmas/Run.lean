import Ogorek.Lemmas.Reader
import Ogorek.Lemmas.NoPanic

/-!
  Straight-line execution: a byte string that parses as a sequence of non-STOP instructions,
  and the effect of running them — the bridge between the encoder's output and the decode loop
  used by the round-trip theorems (C03, C05, C18).
-/
namespace Ogorek

def Insn.isStop : Insn → Bool
  | .stop => true
  | _ => false

/-- Run instructions one after another; `insn` is the number of instructions executed before. -/
def runFrom (mc : MCfg) (hook : Hook) : Nat → List Insn → DState → M DState
  | _, [], st => .ok st
  | insn, i :: is, st =>
    match exec mc hook i (insn + 1) st with
    | .ok st' => runFrom mc hook (insn + 1) is st'
    | .error e => .error e

/-- `bs` is exactly the concatenation of the encodings of the instructions `is` (none of them STOP),
    whatever follows. -/
def Parses : Bytes → List Insn → Prop
  | bs, [] => bs = []
  | bs, i :: is => ∃ b1 b2, bs = b1 ++ b2 ∧ i.isStop = false ∧ (∀ t, parseInsn (b1 ++ t) = .ok (i, t)) ∧ Parses b2 is

theorem Parses.nil : Parses [] [] := rfl

theorem Parses.single {b : Bytes} {i : Insn} (hs : i.isStop = false) (h : ∀ t, parseInsn (b ++ t) = .ok (i, t)) :
    Parses b [i] := ⟨b, [], by simp, hs, h, rfl⟩

theorem Parses.append {b1 b2 : Bytes} {is1 is2 : List Insn} (h1 : Parses b1 is1) (h2 : Parses b2 is2) :
    Parses (b1 ++ b2) (is1 ++ is2) := by
  induction is1 generalizing b1 with
  | nil => simp [Parses] at h1; subst h1; simpa using h2
  | cons i is ih =>
    obtain ⟨x, y, rfl, hs, hp, hr⟩ := h1
    exact ⟨x, y ++ b2, by simp, hs, hp, ih hr⟩

theorem runFrom_append (mc : MCfg) (hook : Hook) (is1 is2 : List Insn) (insn : Nat) (st st1 : DState)
    (h : runFrom mc hook insn is1 st = .ok st1) :
    runFrom mc hook insn (is1 ++ is2) st = runFrom mc hook (insn + is1.length) is2 st1 := by
  induction is1 generalizing insn st with
  | nil => simp [runFrom] at h; subst h; simp
  | cons i is ih =>
    simp only [runFrom, List.cons_append] at h ⊢
    cases he : exec mc hook i (insn + 1) st with
    | error e => rw [he] at h; simp at h
    | ok st' =>
      rw [he] at h
      simp only at h ⊢
      rw [ih _ _ h]
      simp [Nat.add_assoc, Nat.add_comm 1]

/-- One iteration of the loop on a non-STOP instruction that executes. -/
theorem decodeLoop_step (mc : MCfg) (hook : Hook) (f insn : Nat) (st st1 : DState) (key : UInt8) (r rest : Bytes) (i : Insn)
    (hp : parseArg key r = .ok (i, rest)) (hs : i.isStop = false) (he : exec mc hook i (insn + 1) st = .ok st1) :
    decodeLoop mc hook (f + 1) insn st (key :: r) = decodeLoop mc hook f (insn + 1) st1 rest := by
  rw [decodeLoop]
  simp only [readByte, hp]
  cases i
  case stop => simp [Insn.isStop] at hs
  all_goals simp only [he]

/-- The decode loop steps through a parsed straight-line prefix. -/
theorem decodeLoop_run (mc : MCfg) (hook : Hook) :
    ∀ (is : List Insn) (bs : Bytes) (insn : Nat) (st st' : DState) (t : Bytes) (fuel : Nat),
      Parses bs is → runFrom mc hook insn is st = .ok st' →
      decodeLoop mc hook (fuel + is.length) insn st (bs ++ t) = decodeLoop mc hook fuel (insn + is.length) st' t := by
  intro is
  induction is with
  | nil =>
    intro bs insn st st' t fuel hp hr
    simp [Parses] at hp; subst hp
    simp [runFrom] at hr; subst hr
    simp
  | cons i is ih =>
    intro bs insn st st' t fuel hp hr
    obtain ⟨b1, b2, rfl, hs, hpi, hrest⟩ := hp
    simp only [runFrom] at hr
    cases he : exec mc hook i (insn + 1) st with
    | error e => rw [he] at hr; simp at hr
    | ok st1 =>
      rw [he] at hr
      simp only at hr
      have hpi' := hpi (b2 ++ t)
      -- b1 is non-empty: it starts with the opcode byte
      cases b1 with
      | nil =>
        simp [parseInsn, Rd.bind, readByte] at hpi'
        cases hbt : b2 ++ t with
        | nil => rw [hbt] at hpi'; simp at hpi'
        | cons k r =>
          rw [hbt] at hpi'
          simp at hpi'
          have := (good_parseArg k).length_le hpi'
          simp at this
          omega
      | cons key r1 =>
        have hlen : fuel + (i :: is).length = (fuel + is.length) + 1 := by simp; omega
        rw [hlen]
        simp only [List.cons_append, List.append_assoc]
        have hpa : parseArg key (r1 ++ (b2 ++ t)) = .ok (i, b2 ++ t) := by
          have := hpi (b2 ++ t)
          simpa [parseInsn, Rd.bind, readByte] using this
        rw [decodeLoop_step mc hook _ insn st st1 key _ _ i hpa hs he, ih b2 (insn + 1) st1 st' t fuel hrest hr]
        have e : insn + 1 + is.length = insn + (is.length + 1) := by omega
        simp only [List.length_cons, e]

end Ogorek

namespace Ogorek

/-- Every instruction takes at least its opcode byte. -/
theorem parses_length_le : {is : List Insn} → {bs : Bytes} → Parses bs is → is.length ≤ bs.length
  | [], _, _ => by simp
  | i :: is, bs, h => by
    obtain ⟨b1, b2, rfl, _, hp, hr⟩ := h
    have ih := parses_length_le hr
    have : 1 ≤ b1.length := by
      cases b1 with
      | nil =>
        have := hp []
        simp [parseInsn, Rd.bind, readByte] at this
      | cons x xs => simp
    simp; omega

end Ogorek
