import Ogorek.Float
import Ogorek.Lemmas.Num

/-!
  `%g` text of a float64 holds no newline: digits, sign, point, exponent marker only.
-/
namespace Ogorek

/-- No newline among these bytes. -/
def NoLF (l : Bytes) : Prop := (10 : UInt8) ∉ l

theorem NoLF.append {a b : Bytes} (ha : NoLF a) (hb : NoLF b) : NoLF (a ++ b) := by
  unfold NoLF at *; simp [ha, hb]

theorem NoLF.of_digits {l : Bytes} (h : l.all isDigit = true) : NoLF l := by
  intro hm
  have := List.all_eq_true.mp h 10 hm
  exact absurd this (by decide)

theorem NoLF.natDigits (n : Nat) : NoLF (natDigits n) := NoLF.of_digits (natDigits_all_digit n)

theorem all_digit_sublist {a b : Bytes} (h : a.Sublist b) (hb : b.all isDigit = true) : a.all isDigit = true := by
  rw [List.all_eq_true] at hb ⊢
  intro x hx
  exact hb x (h.subset hx)

theorem search_digits (m n d : Nat) (k : Int) (parsesBack : Nat → Int → Bool) :
    ∀ (fuel nd : Nat), (F64.shortest.search m n d k parsesBack fuel nd).1.all isDigit = true := by
  intro fuel
  induction fuel with
  | zero => intro nd; simp [F64.shortest.search, natDigits_all_digit]
  | succ fuel ih =>
    intro nd
    unfold F64.shortest.search
    simp only
    split
    · rename_i v _
      apply all_digit_sublist _ (natDigits_all_digit v)
      exact List.reverse_sublist.mp (by simpa using List.dropWhile_sublist _)
    · exact ih _

theorem shortest_digits (f : F64) : (F64.shortest f).1.all isDigit = true := by
  unfold F64.shortest
  exact search_digits _ _ _ _ _ _ _

/-- The bytes `%g` can produce besides the words NaN / Inf. -/
def gByte (b : UInt8) : Bool := isDigit b || b == 45 || b == 43 || b == 46 || b == 101

theorem gByte_of_digit {b : UInt8} (h : isDigit b = true) : gByte b = true := by simp [gByte, h]

theorem all_g_of_digits {l : Bytes} (h : l.all isDigit = true) : l.all gByte = true := by
  rw [List.all_eq_true] at h ⊢
  exact fun x hx => gByte_of_digit (h x hx)

theorem all_g_take {l : Bytes} (n : Nat) (h : l.all isDigit = true) : (l.take n).all gByte = true :=
  all_g_of_digits (all_digit_sublist (List.take_sublist _ _) h)

theorem all_g_drop {l : Bytes} (n : Nat) (h : l.all isDigit = true) : (l.drop n).all gByte = true :=
  all_g_of_digits (all_digit_sublist (List.drop_sublist _ _) h)

theorem all_g_replicate (n : Nat) : (List.replicate n (48 : UInt8)).all gByte = true := by
  rw [List.all_eq_true]; intro x hx; rw [List.eq_of_mem_replicate hx]; decide

theorem all_g_pad2 (n : Nat) : (F64.pad2 n).all gByte = true := by
  unfold F64.pad2
  split
  · simp only [List.all_cons, Bool.and_eq_true]; exact ⟨by decide, all_g_of_digits (natDigits_all_digit n)⟩
  · exact all_g_of_digits (natDigits_all_digit n)

theorem noLF_of_all_g {l : Bytes} (h : l.all gByte = true) : NoLF l := by
  intro hm
  have := List.all_eq_true.mp h 10 hm
  exact absurd this (by decide)

/-- **The `%g` text of every float64 is free of newlines.** -/
theorem fmtG_no_lf (f : F64) : (10 : UInt8) ∉ F64.fmtG f := by
  unfold F64.fmtG
  split
  · decide
  · split
    · split <;> decide
    · simp only
      have hsign : (if F64.signBit f = true then [(45 : UInt8)] else []).all gByte = true := by split <;> decide
      split
      · apply noLF_of_all_g
        simp only [List.all_append, Bool.and_eq_true]
        exact ⟨hsign, by decide⟩
      · have hd := shortest_digits f
        generalize F64.shortest f = sh at hd
        obtain ⟨ds, dp⟩ := sh
        simp only at hd ⊢
        split
        · apply noLF_of_all_g
          simp only [List.all_append, Bool.and_eq_true]
          refine ⟨⟨⟨hsign, ⟨all_g_take 1 hd, ?_⟩⟩, ?_⟩, all_g_pad2 _⟩
          · split
            · decide
            · simp only [List.all_cons, Bool.and_eq_true]; exact ⟨by decide, all_g_drop 1 hd⟩
          · simp only [List.all_cons, List.all_nil, Bool.and_true, Bool.and_eq_true]
            exact ⟨by decide, by split <;> decide⟩
        · apply noLF_of_all_g
          simp only [List.all_append, Bool.and_eq_true]
          refine ⟨⟨hsign, ?_⟩, ?_⟩
          · split
            · simp only [List.all_append, Bool.and_eq_true]; exact ⟨all_g_take _ hd, all_g_replicate _⟩
            · decide
          · split
            · decide
            · simp only [List.all_cons, List.all_append, Bool.and_eq_true]
              exact ⟨by decide, all_g_replicate _, all_g_drop _ hd⟩

end Ogorek
