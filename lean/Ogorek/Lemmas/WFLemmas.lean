import Ogorek.WF
import Ogorek.Lemmas.Reader
import Ogorek.Lemmas.Num

namespace Ogorek

@[simp] theorem wfVal_list (c : Cfg) (u : Bool) (hl : Nat) (xs : List GoVal) :
    wfVal c u hl (.list xs) = xs.all (wfVal c u hl) := by
  rw [wfVal]; simp [List.all_eq]
@[simp] theorem wfVal_tuple (c : Cfg) (u : Bool) (hl : Nat) (xs : List GoVal) :
    wfVal c u hl (.tuple xs) = xs.all (wfVal c u hl) := by
  rw [wfVal]; simp [List.all_eq]
@[simp] theorem wfVal_call (c : Cfg) (u : Bool) (hl : Nat) (m n : Bytes) (xs : List GoVal) :
    wfVal c u hl (.call m n xs) = xs.all (wfVal c u hl) := by
  rw [wfVal]; simp [List.all_eq]
@[simp] theorem wfVal_ref (c : Cfg) (u : Bool) (hl : Nat) (p : GoVal) :
    wfVal c u hl (.ref p) = wfVal c u hl p := by
  rw [wfVal]
@[simp] theorem wfVal_href (c : Cfg) (u : Bool) (hl id : Nat) :
    wfVal c u hl (.href id) = decide (id < hl) := by
  rw [wfVal]

theorem wfVal_mono (c : Cfg) (u : Bool) {hl hl' : Nat} (h : hl ≤ hl') :
    ∀ v, wfVal c u hl v = true → wfVal c u hl' v = true
  | .list xs => by
    simp only [wfVal_list, List.all_eq_true]
    intro hx x hm
    exact wfVal_mono c u h x (hx x hm)
  | .tuple xs => by
    simp only [wfVal_tuple, List.all_eq_true]
    intro hx x hm
    exact wfVal_mono c u h x (hx x hm)
  | .call m n xs => by
    simp only [wfVal_call, List.all_eq_true]
    intro hx x hm
    exact wfVal_mono c u h x (hx x hm)
  | .ref p => by
    simp only [wfVal_ref]
    exact wfVal_mono c u h p
  | .href id => by
    simp only [wfVal_href, decide_eq_true_eq]
    omega
  | .none | .bool _ | .float _ | .str _ | .bytes _ | .bytearray _ | .cls _ _ | .big _ _
  | .int _ | .bytestr _ | .user _ | .mark | .uint _ | .complex _ _ | .map _ | .dict _ | .cycle | .nil => by
    simp [wfVal]
termination_by v => sizeOf v
decreasing_by
  all_goals simp_wf
  all_goals (try have := List.sizeOf_lt_of_mem hm)
  all_goals omega


theorem wfItem_mono (c : Cfg) (u : Bool) {hl hl' : Nat} (h : hl ≤ hl') (v : GoVal)
    (hv : wfItem c u hl v = true) : wfItem c u hl' v = true := by
  unfold wfItem at *
  simp only [Bool.or_eq_true] at *
  rcases hv with hv | hv
  · exact Or.inl hv
  · exact Or.inr (wfVal_mono c u h v hv)

theorem wfItem_of_wfVal {c : Cfg} {u : Bool} {hl : Nat} {v : GoVal} (h : wfVal c u hl v = true) :
    wfItem c u hl v = true := by
  simp [wfItem, h]

theorem wfVal_of_wfItem {c : Cfg} {u : Bool} {hl : Nat} {v : GoVal} (h : wfItem c u hl v = true)
    (hm : isMark v = false) : wfVal c u hl v = true := by
  simpa [wfItem, hm] using h

theorem wfObj_mono (mc : MCfg) (u : Bool) {hl hl' : Nat} (h : hl ≤ hl') (o : HObj)
    (ho : wfObj mc u hl o = true) : wfObj mc u hl' o = true := by
  unfold wfObj at *
  simp only [Bool.and_eq_true, List.all_eq_true] at *
  refine ⟨⟨ho.1.1, ?_⟩, ?_⟩
  · intro kv hkv
    exact ⟨wfVal_mono _ _ h _ (ho.1.2 kv hkv).1, wfVal_mono _ _ h _ (ho.1.2 kv hkv).2⟩
  · intro x hx
    exact wfVal_mono _ _ h _ (ho.2 x hx)

theorem Inv.withStack {mc : MCfg} {u : Bool} {st : DState} (hinv : Inv mc u st) (s : List GoVal)
    (hs : ∀ v ∈ s, wfItem mc.cfg u st.heap.length v = true) : Inv mc u { st with stack := s } :=
  ⟨hs, hinv.memo, hinv.heap, hinv.calls⟩

theorem Inv.push {mc : MCfg} {u : Bool} {st : DState} (hinv : Inv mc u st) (v : GoVal)
    (hv : wfItem mc.cfg u st.heap.length v = true) : Inv mc u (push st v) := by
  unfold Ogorek.push
  apply hinv.withStack
  intro x hx
  simp at hx
  rcases hx with rfl | hx
  · exact hv
  · exact hinv.stack x hx

/-- Allocation: the heap grows by one well-formed object. -/
theorem Inv.alloc {mc : MCfg} {u : Bool} {st : DState} (hinv : Inv mc u st) (o : HObj)
    (ho : wfObj mc u (st.heap.length + 1) o = true) :
    Inv mc u (allocObj st o).1 ∧ wfVal mc.cfg u (allocObj st o).1.heap.length (allocObj st o).2 = true ∧
      (allocObj st o).1.heap.length = st.heap.length + 1 ∧ (allocObj st o).1.stack = st.stack := by
  have hl : (allocObj st o).1.heap.length = st.heap.length + 1 := by simp [allocObj]
  have hle : st.heap.length ≤ (allocObj st o).1.heap.length := by omega
  refine ⟨⟨?_, ?_, ?_, ?_⟩, ?_, hl, rfl⟩
  · intro v hv; exact wfItem_mono _ _ hle v (hinv.stack v hv)
  · intro kv hkv; exact wfVal_mono _ _ hle _ (hinv.memo kv hkv)
  · intro o' ho'
    have : o' ∈ st.heap ∨ o' = o := by simpa [allocObj] using ho'
    rcases this with ho' | rfl
    · exact wfObj_mono _ _ hle o' (hinv.heap o' ho')
    · rw [hl]; exact ho
  · intro r hr; exact wfVal_mono _ _ hle _ (hinv.calls r hr)
  · simp [allocObj]

theorem splitAtMark_spec : ∀ (s above below : List GoVal), splitAtMark s = some (above, below) →
    (∀ v ∈ above, isMark v = false ∧ v ∈ s) ∧ (∀ v ∈ below, v ∈ s)
  | [], above, below, h => by simp [splitAtMark] at h
  | v :: s, above, below, h => by
    unfold splitAtMark at h
    split at h
    · simp at h
      obtain ⟨rfl, rfl⟩ := h
      simp
      intro x hx; exact Or.inr hx
    · rename_i hm
      split at h
      · rename_i a b hs
        simp at h
        obtain ⟨rfl, rfl⟩ := h
        obtain ⟨h1, h2⟩ := splitAtMark_spec s a b hs
        constructor
        · intro x hx
          simp at hx
          rcases hx with rfl | hx
          · exact ⟨by simpa using hm, by simp⟩
          · exact ⟨(h1 x hx).1, by simp [(h1 x hx).2]⟩
        · intro x hx; simp [h2 x hx]
      · simp at h


theorem dictSetSpec_mem {es : Entries} {k v : GoVal} {kv : GoVal × GoVal}
    (h : kv ∈ dictSetSpec es k v) : kv ∈ es ∨ kv = (k, v) := by
  unfold dictSetSpec at h
  simp only [List.mem_append, List.mem_filter, List.mem_singleton] at h
  rcases h with h | h
  · exact Or.inl h.1
  · exact Or.inr h

theorem mapSet_mem {es : Entries} {k v : GoVal} {kv : GoVal × GoVal}
    (h : kv ∈ mapSet es k v) : kv ∈ es ∨ kv = (k, v) := by
  unfold mapSet at h
  simp only [List.mem_append, List.mem_filter, List.mem_singleton] at h
  rcases h with h | h
  · exact Or.inl h.1
  · exact Or.inr h

theorem tryAssign_mem {kind : HKind} {es es' : Entries} {k v : GoVal}
    (h : tryAssign kind es k v = some es') {kv : GoVal × GoVal} (hkv : kv ∈ es') :
    kv ∈ es ∨ kv = (k, v) := by
  unfold tryAssign at h
  split at h
  · split at h
    · simp at h; subst h; exact dictSetSpec_mem hkv
    · simp at h
  · split at h
    · simp at h; subst h; exact mapSet_mem hkv
    · simp at h

theorem assignAll_mem (kind : HKind) : ∀ (items : List GoVal) (es es' : Entries),
    assignAll kind es items = some es' → ∀ kv ∈ es', kv ∈ es ∨ (kv.1 ∈ items ∧ kv.2 ∈ items)
  | [], es, es', h, kv, hkv => by simp [assignAll] at h; subst h; exact Or.inl hkv
  | [_], es, es', h, kv, hkv => by simp [assignAll] at h; subst h; exact Or.inl hkv
  | k :: v :: rest, es, es', h, kv, hkv => by
    unfold assignAll at h
    split at h
    · rename_i es1 h1
      rcases assignAll_mem kind rest es1 es' h kv hkv with h2 | h2
      · rcases tryAssign_mem h1 h2 with h3 | h3
        · exact Or.inl h3
        · subst h3; exact Or.inr ⟨by simp, by simp⟩
      · exact Or.inr ⟨by simp [h2.1], by simp [h2.2]⟩
    · simp at h

theorem Inv.heapSet {mc : MCfg} {u : Bool} {st : DState} (hinv : Inv mc u st) (id : Nat) (o : HObj)
    (ho : wfObj mc u st.heap.length o = true) : Inv mc u (heapSet st id o) := by
  have hl : (Ogorek.heapSet st id o).heap.length = st.heap.length := by simp [Ogorek.heapSet]
  refine ⟨?_, ?_, ?_, ?_⟩
  · intro v hv; rw [hl]; exact hinv.stack v hv
  · intro kv hkv; rw [hl]; exact hinv.memo kv hkv
  · intro o' ho'
    rw [hl]
    have : o' ∈ st.heap.set id o := ho'
    rcases List.mem_or_eq_of_mem_set this with h | rfl
    · exact hinv.heap o' h
    · exact ho
  · intro r hr; rw [hl]; exact hinv.calls r hr

theorem heap_get_wf {mc : MCfg} {u : Bool} {st : DState} (hinv : Inv mc u st) {id : Nat} {o : HObj}
    (h : st.heap[id]? = some o) : wfObj mc u st.heap.length o = true :=
  hinv.heap o (List.mem_of_getElem? h)

end Ogorek
