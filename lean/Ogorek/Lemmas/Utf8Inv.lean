import Ogorek.Lemmas.QuoteInv

/-!
  `utf8.DecodeRune` in full detail (which bytes, which value) and `encodeRune ∘ decodeRune = id`
  on every well-formed sequence.
-/
namespace Ogorek

/-- The exact shape of `decodeRune (b0 :: rest) = (r, w)`. -/
inductive RuneExact (b0 : UInt8) (rest : Bytes) (r w : Nat) : Prop where
  | ascii (h : b0.toNat < 0x80) (hr : r = b0.toNat) (hw : w = 1)
  | invalid (hr : r = runeError) (hw : w = 1)
  | two (b1 : UInt8) (rest' : Bytes) (hrest : rest = b1 :: rest')
      (h0 : 0xC2 ≤ b0.toNat ∧ b0.toNat < 0xE0) (h1 : 0x80 ≤ b1.toNat ∧ b1.toNat ≤ 0xBF)
      (hr : r = b0.toNat % 32 * 64 + b1.toNat % 64) (hw : w = 2)
  | three (b1 b2 : UInt8) (rest' : Bytes) (hrest : rest = b1 :: b2 :: rest')
      (h0 : 0xE0 ≤ b0.toNat ∧ b0.toNat < 0xF0)
      (h1 : 0x80 ≤ b1.toNat ∧ b1.toNat ≤ 0xBF ∧ (b0.toNat = 0xE0 → 0xA0 ≤ b1.toNat) ∧ (b0.toNat = 0xED → b1.toNat ≤ 0x9F))
      (h2 : 0x80 ≤ b2.toNat ∧ b2.toNat ≤ 0xBF)
      (hr : r = b0.toNat % 16 * 4096 + b1.toNat % 64 * 64 + b2.toNat % 64) (hw : w = 3)
  | four (b1 b2 b3 : UInt8) (rest' : Bytes) (hrest : rest = b1 :: b2 :: b3 :: rest')
      (h0 : 0xF0 ≤ b0.toNat ∧ b0.toNat < 0xF5)
      (h1 : 0x80 ≤ b1.toNat ∧ b1.toNat ≤ 0xBF ∧ (b0.toNat = 0xF0 → 0x90 ≤ b1.toNat) ∧ (b0.toNat = 0xF4 → b1.toNat ≤ 0x8F))
      (h2 : 0x80 ≤ b2.toNat ∧ b2.toNat ≤ 0xBF) (h3 : 0x80 ≤ b3.toNat ∧ b3.toNat ≤ 0xBF)
      (hr : r = b0.toNat % 8 * 262144 + b1.toNat % 64 * 4096 + b2.toNat % 64 * 64 + b3.toNat % 64) (hw : w = 4)

theorem isCont_iff {b : UInt8} (h : isCont b = true) : 0x80 ≤ b.toNat ∧ b.toNat ≤ 0xBF := by
  unfold isCont at h
  simp only [Bool.and_eq_true, decide_eq_true_eq, UInt8.le_iff_toNat_le] at h
  simpa using h

theorem u8_lt {a : UInt8} {n : UInt8} : a < n ↔ a.toNat < n.toNat := UInt8.lt_iff_toNat_lt
theorem u8_le {a : UInt8} {n : UInt8} : a ≤ n ↔ a.toNat ≤ n.toNat := UInt8.le_iff_toNat_le

theorem u8_eq_of_toNat {a : UInt8} {n : Nat} (hn : n < 256) (h : a.toNat = n) : a = UInt8.ofNat n := by
  apply UInt8.toNat_inj.mp
  simp [UInt8.toNat_ofNat', h, Nat.mod_eq_of_lt hn]

theorem decodeRune_exact (b0 : UInt8) (rest : Bytes) :
    RuneExact b0 rest (decodeRune (b0 :: rest)).1 (decodeRune (b0 :: rest)).2 := by
  unfold decodeRune
  by_cases h1 : b0 < 0x80
  · simp only [h1, if_true]; exact .ascii (by simpa [u8_lt] using h1) rfl rfl
  · simp only [h1, if_false]
    have n80 : 0x80 ≤ b0.toNat := by rw [u8_lt] at h1; simp at h1; omega
    by_cases h2 : b0 < 0xC2
    · simp only [h2, if_true]; exact .invalid rfl rfl
    · have n0 : 0xC2 ≤ b0.toNat := by rw [u8_lt] at h2; simp at h2; omega
      simp only [h2, if_false]
      by_cases h3 : b0 < 0xE0
      · have n3 : b0.toNat < 0xE0 := by simpa [u8_lt] using h3
        simp only [h3, if_true]
        cases rest with
        | nil => exact .invalid rfl rfl
        | cons b1 rest =>
          by_cases hc : isCont b1 = true
          · simp only [hc, if_true]
            exact .two b1 rest rfl ⟨n0, n3⟩ (isCont_iff hc) rfl rfl
          · simp only [hc, Bool.false_eq_true, if_false]; exact .invalid rfl rfl
      · have n1 : 0xE0 ≤ b0.toNat := by rw [u8_lt] at h3; simp at h3; omega
        simp only [h3, if_false]
        by_cases h4 : b0 < 0xF0
        · simp only [h4, if_true]
          have n4 : b0.toNat < 0xF0 := by simpa [u8_lt] using h4
          rcases rest with _ | ⟨b1, _ | ⟨b2, rest⟩⟩
          · exact .invalid rfl rfl
          · exact .invalid rfl rfl
          · simp only
            generalize hlo_def : (if b0 = 0xE0 then (0xA0 : UInt8) else 0x80) = lo
            generalize hhi_def : (if b0 = 0xED then (0x9F : UInt8) else 0xBF) = hi
            by_cases hcond : (decide (lo ≤ b1) && decide (b1 ≤ hi) && isCont b2) = true
            · simp only [hcond, if_true]
              simp only [Bool.and_eq_true, decide_eq_true_eq] at hcond
              obtain ⟨⟨hlo, hhi⟩, hc2⟩ := hcond
              rw [u8_le] at hlo hhi
              have hlo80 : 0x80 ≤ lo.toNat ∧ (b0.toNat = 0xE0 → lo.toNat = 0xA0) := by
                rw [← hlo_def]
                by_cases he : b0 = 0xE0
                · simp [he]
                · have : b0.toNat ≠ 0xE0 := fun hh => he (UInt8.toNat_inj.mp (by simpa using hh))
                  simp [he, this]
              have hhiBF : hi.toNat ≤ 0xBF ∧ (b0.toNat = 0xED → hi.toNat = 0x9F) := by
                rw [← hhi_def]
                by_cases he : b0 = 0xED
                · simp [he]
                · have : b0.toNat ≠ 0xED := fun hh => he (UInt8.toNat_inj.mp (by simpa using hh))
                  simp [he, this]
              refine .three b1 b2 rest rfl ⟨n1, n4⟩ ⟨by omega, by omega, ?_, ?_⟩ (isCont_iff hc2) rfl rfl
              · intro h; have := hlo80.2 h; omega
              · intro h; have := hhiBF.2 h; omega
            · simp only [hcond, Bool.false_eq_true, if_false]; exact .invalid rfl rfl
        · have n2 : 0xF0 ≤ b0.toNat := by rw [u8_lt] at h4; simp at h4; omega
          simp only [h4, if_false]
          by_cases h5 : b0 < 0xF5
          · simp only [h5, if_true]
            have n5 : b0.toNat < 0xF5 := by simpa [u8_lt] using h5
            rcases rest with _ | ⟨b1, _ | ⟨b2, _ | ⟨b3, rest⟩⟩⟩
            · exact .invalid rfl rfl
            · exact .invalid rfl rfl
            · exact .invalid rfl rfl
            · simp only
              generalize hlo_def : (if b0 = 0xF0 then (0x90 : UInt8) else 0x80) = lo
              generalize hhi_def : (if b0 = 0xF4 then (0x8F : UInt8) else 0xBF) = hi
              by_cases hcond : (decide (lo ≤ b1) && decide (b1 ≤ hi) && isCont b2 && isCont b3) = true
              · simp only [hcond, if_true]
                simp only [Bool.and_eq_true, decide_eq_true_eq] at hcond
                obtain ⟨⟨⟨hlo, hhi⟩, hc2⟩, hc3⟩ := hcond
                rw [u8_le] at hlo hhi
                have hlo80 : 0x80 ≤ lo.toNat ∧ (b0.toNat = 0xF0 → lo.toNat = 0x90) := by
                  rw [← hlo_def]
                  by_cases he : b0 = 0xF0
                  · simp [he]
                  · have : b0.toNat ≠ 0xF0 := fun hh => he (UInt8.toNat_inj.mp (by simpa using hh))
                    simp [he, this]
                have hhiBF : hi.toNat ≤ 0xBF ∧ (b0.toNat = 0xF4 → hi.toNat = 0x8F) := by
                  rw [← hhi_def]
                  by_cases he : b0 = 0xF4
                  · simp [he]
                  · have : b0.toNat ≠ 0xF4 := fun hh => he (UInt8.toNat_inj.mp (by simpa using hh))
                    simp [he, this]
                refine .four b1 b2 b3 rest rfl ⟨n2, n5⟩ ⟨by omega, by omega, ?_, ?_⟩ (isCont_iff hc2) (isCont_iff hc3) rfl rfl
                · intro h; have := hlo80.2 h; omega
                · intro h; have := hhiBF.2 h; omega
              · simp only [hcond, Bool.false_eq_true, if_false]; exact .invalid rfl rfl
          · simp only [h5, if_false]; exact .invalid rfl rfl

end Ogorek

namespace Ogorek

theorem ofNat_toNat_u8 (b : UInt8) : UInt8.ofNat b.toNat = b := by simp

theorem ofNat_eq_of {n : Nat} {b : UInt8} (h : n = b.toNat) : UInt8.ofNat n = b := by rw [h]; simp

/-- Re-encoding the rune that was decoded gives back exactly the bytes it was decoded from (every
    well-formed sequence: shortest form, no surrogates, ≤ U+10FFFF are what DecodeRune accepts). -/
theorem encodeRune_of_exact {b0 : UInt8} {rest : Bytes} {r w : Nat} (h : RuneExact b0 rest r w)
    (hv : ¬ (r = runeError ∧ w = 1)) : encodeRune r = (b0 :: rest).take w ∧ validRune r = true := by
  have hb0 := b0.toNat_lt
  cases h with
  | ascii h hr hw =>
    subst hr; subst hw
    simp [encodeRune, h, validRune]; omega
  | invalid hr hw => exact absurd ⟨hr, hw⟩ hv
  | two b1 rest' hrest h0 h1 hr hw =>
    subst hrest; subst hw
    have hb1 := b1.toNat_lt
    have c1 : ¬ r < 0x80 := by omega
    have c2 : r < 0x800 := by omega
    refine ⟨?_, by simp [validRune]; omega⟩
    simp only [encodeRune, c1, c2, if_true, if_false]
    simp only [List.take_succ_cons, List.take_zero]
    congr 1
    · exact ofNat_eq_of (by omega)
    · congr 1; exact ofNat_eq_of (by omega)
  | three b1 b2 rest' hrest h0 h1 h2 hr hw =>
    subst hrest; subst hw
    have hb1 := b1.toNat_lt
    have hb2 := b2.toNat_lt
    obtain ⟨h1a, h1b, h1c, h1d⟩ := h1
    have c1 : ¬ r < 0x80 := by omega
    have c2 : ¬ r < 0x800 := by
      by_cases he : b0.toNat = 0xE0
      · have := h1c he; omega
      · omega
    have c4 : r < 0x10000 := by omega
    have cv : validRune r = true := by
      simp only [validRune, Bool.or_eq_true, Bool.and_eq_true, decide_eq_true_eq]
      by_cases he : b0.toNat = 0xED
      · have := h1d he; left; omega
      · by_cases hlt : b0.toNat < 0xED
        · left; omega
        · right; omega
    refine ⟨?_, cv⟩
    simp only [encodeRune, c1, c2, c4, cv, if_true, if_false, Bool.not_true, Bool.false_eq_true]
    simp only [List.take_succ_cons, List.take_zero]
    congr 1
    · exact ofNat_eq_of (by omega)
    · congr 1
      · exact ofNat_eq_of (by omega)
      · congr 1; exact ofNat_eq_of (by omega)
  | four b1 b2 b3 rest' hrest h0 h1 h2 h3 hr hw =>
    subst hrest; subst hw
    have hb1 := b1.toNat_lt
    have hb2 := b2.toNat_lt
    have hb3 := b3.toNat_lt
    obtain ⟨h1a, h1b, h1c, h1d⟩ := h1
    have c4 : ¬ r < 0x10000 := by
      by_cases he : b0.toNat = 0xF0
      · have := h1c he; omega
      · omega
    have c1 : ¬ r < 0x80 := by omega
    have c2 : ¬ r < 0x800 := by omega
    have cmax : r ≤ 0x10FFFF := by
      by_cases he : b0.toNat = 0xF4
      · have := h1d he; omega
      · omega
    have cv : validRune r = true := by
      simp only [validRune, Bool.or_eq_true, Bool.and_eq_true, decide_eq_true_eq]
      right; omega
    refine ⟨?_, cv⟩
    simp only [encodeRune, c1, c2, c4, cv, if_true, if_false, Bool.not_true, Bool.false_eq_true]
    simp only [List.take_succ_cons, List.take_zero]
    congr 1
    · exact ofNat_eq_of (by omega)
    · congr 1
      · exact ofNat_eq_of (by omega)
      · congr 1
        · exact ofNat_eq_of (by omega)
        · congr 1; exact ofNat_eq_of (by omega)

end Ogorek
