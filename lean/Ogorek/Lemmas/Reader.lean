import Ogorek.Decoder

/-!
  The parse layer is built from four primitive readers by `Rd.bind`, `Rd.mapE`, `Rd.map`,
  `Rd.pure`, `Rd.fail`.  `Good` packages the three facts about a reader that C04 (progress),
  C10 (truncation), C11 (consumption) and C14 (chunking) need:

  * it consumes a prefix `u` of its input and hands back the rest unchanged;
  * locality: what follows `u` does not influence the result;
  * truncation: on any proper prefix of `u` it fails with `io.EOF` or `io.ErrUnexpectedEOF`,
    never with a value and never with another error.
-/
namespace Ogorek

def EofLike (e : DErr) : Prop := e = .eof ∨ e = .unexpectedEOF

def Good (r : Rd α) : Prop :=
  ∀ inp a rest, r inp = .ok (a, rest) →
    ∃ u, inp = u ++ rest ∧ (∀ t, r (u ++ t) = .ok (a, t)) ∧
      (∀ p q, u = p ++ q → q ≠ [] → ∃ e, r p = .error e ∧ EofLike e)

theorem Good.pure (a : α) : Good (Rd.pure a) := by
  intro inp a' rest h
  simp [Rd.pure] at h
  obtain ⟨rfl, rfl⟩ := h
  refine ⟨[], by simp, by simp [Rd.pure], ?_⟩
  intro p q h hq
  simp at h
  exact absurd h.2 hq

theorem Good.fail (e : DErr) : Good (Rd.fail e : Rd α) := by
  intro inp a rest h
  simp [Rd.fail] at h

theorem Good.bind {r : Rd α} {s : α → Rd β} (hr : Good r) (hs : ∀ a, Good (s a)) : Good (r.bind s) := by
  intro inp b rest h
  unfold Rd.bind at h
  split at h
  · rename_i a r1 h1
    obtain ⟨u1, hu1, loc1, tr1⟩ := hr inp a r1 h1
    obtain ⟨u2, hu2, loc2, tr2⟩ := hs a r1 b rest h
    refine ⟨u1 ++ u2, by rw [hu1, hu2, List.append_assoc], ?_, ?_⟩
    · intro t
      unfold Rd.bind
      rw [List.append_assoc, loc1]
      exact loc2 t
    · intro p q hpq hq
      rcases List.append_eq_append_iff.mp hpq with ⟨a', ha1, ha2⟩ | ⟨c', hc1, hc2⟩
      · -- p = u1 ++ a', u2 = a' ++ q
        obtain ⟨e, he, hl⟩ := tr2 a' q ha2 hq
        refine ⟨e, ?_, hl⟩
        unfold Rd.bind
        rw [ha1, loc1]
        exact he
      · -- u1 = p ++ c', q = c' ++ u2
        by_cases hc : c' = []
        · subst hc
          simp at hc1 hc2
          subst hc1
          obtain ⟨e, he, hl⟩ := tr2 [] u2 (by simp) (by rw [← hc2]; exact hq)
          refine ⟨e, ?_, hl⟩
          unfold Rd.bind
          have := loc1 []
          simp at this
          rw [this]
          exact he
        · obtain ⟨e, he, hl⟩ := tr1 p c' hc1 hc
          refine ⟨e, ?_, hl⟩
          unfold Rd.bind
          rw [he]
  · simp at h

theorem Good.mapE {r : Rd α} (f : α → Except DErr β) (hr : Good r) : Good (r.mapE f) := by
  unfold Rd.mapE
  apply Good.bind hr
  intro a
  split
  · exact Good.pure _
  · exact Good.fail _

theorem Good.map {r : Rd α} (f : α → β) (hr : Good r) : Good (r.map f) := by
  unfold Rd.map
  exact Good.bind hr fun a => Good.pure _

theorem good_readByte : Good readByte := by
  intro inp a rest h
  cases inp with
  | nil => simp [readByte] at h
  | cons b r =>
    simp [readByte] at h
    obtain ⟨rfl, rfl⟩ := h
    refine ⟨[b], by simp, by simp [readByte], ?_⟩
    intro p q hpq hq
    cases p with
    | nil => exact ⟨.eof, by simp [readByte], Or.inl rfl⟩
    | cons x xs =>
      simp at hpq
      exact absurd hpq.2.2 hq

theorem good_readFull (n : Nat) : Good (readFull n) := by
  intro inp a rest h
  unfold readFull at h
  split at h
  · rename_i hn
    simp at h
    obtain ⟨rfl, rfl⟩ := h
    refine ⟨inp.take n, by simp, ?_, ?_⟩
    · intro t
      have hl : (List.take n inp).length = n := by simp [List.length_take]; omega
      unfold readFull
      simp [hl]
    · intro p q hpq hq
      have hl : (List.take n inp).length = n := by simp [List.length_take]; omega
      have : p.length < n := by
        have := congrArg List.length hpq
        simp [hl] at this
        have : q.length > 0 := List.length_pos_iff.mpr hq
        omega
      unfold readFull
      have h1 : ¬ n ≤ p.length := by omega
      simp [h1]
      by_cases hp : p = []
      · exact ⟨.eof, by simp [hp], Or.inl rfl⟩
      · exact ⟨.unexpectedEOF, by simp [hp], Or.inr rfl⟩
  · split at h <;> simp at h

theorem good_copyN (n : Nat) : Good (copyN n) := by
  intro inp a rest h
  unfold copyN at h
  split at h
  · rename_i hn
    simp at h
    obtain ⟨rfl, rfl⟩ := h
    have hl : (List.take n inp).length = n := by simp [List.length_take]; omega
    refine ⟨inp.take n, by simp, ?_, ?_⟩
    · intro t
      unfold copyN
      simp [hl]
    · intro p q hpq hq
      have : p.length < n := by
        have := congrArg List.length hpq
        simp [hl] at this
        have : q.length > 0 := List.length_pos_iff.mpr hq
        omega
      unfold copyN
      have h1 : ¬ n ≤ p.length := by omega
      exact ⟨.eof, by simp [h1], Or.inl rfl⟩
  · simp at h



theorem splitLine_some {inp l r : Bytes} (h : splitLine inp = some (l, r)) :
    inp = l ++ 10 :: r ∧ (10 : UInt8) ∉ l := by
  induction inp generalizing l r with
  | nil => simp [splitLine] at h
  | cons b bs ih =>
    unfold splitLine at h
    split at h
    · rename_i hb
      simp at h
      obtain ⟨rfl, rfl⟩ := h
      simp [hb]
    · rename_i hb
      split at h
      · rename_i l' r' h'
        simp at h
        obtain ⟨rfl, rfl⟩ := h
        obtain ⟨h1, h2⟩ := ih h'
        refine ⟨by rw [h1]; simp, ?_⟩
        simp [h2]
        exact fun h => hb h.symm
      · simp at h

theorem splitLine_of_not_mem {l : Bytes} (hl : (10 : UInt8) ∉ l) (t : Bytes) :
    splitLine (l ++ 10 :: t) = some (l, t) := by
  induction l with
  | nil => simp [splitLine]
  | cons b bs ih =>
    simp at hl
    have hb : ¬ b = 10 := fun h => hl.1 h.symm
    simp [splitLine, hb, ih hl.2]

theorem splitLine_none {p : Bytes} (hp : (10 : UInt8) ∉ p) : splitLine p = none := by
  induction p with
  | nil => simp [splitLine]
  | cons b bs ih =>
    simp at hp
    have hb : ¬ b = 10 := fun h => hp.1 h.symm
    simp [splitLine, hb, ih hp.2]

theorem good_readLine : Good readLine := by
  intro inp a rest h
  unfold readLine at h
  split at h
  · rename_i l r hs
    simp at h
    obtain ⟨rfl, rfl⟩ := h
    obtain ⟨h1, h2⟩ := splitLine_some hs
    refine ⟨l ++ [10], by rw [h1]; simp, ?_, ?_⟩
    · intro t
      unfold readLine
      have : l ++ [10] ++ t = l ++ 10 :: t := by simp
      rw [this, splitLine_of_not_mem h2]
    · intro p q hpq hq
      -- p is a prefix of l (since q ≠ [] and the LF is the last byte)
      have hp : (10 : UInt8) ∉ p := by
        rcases List.append_eq_append_iff.mp hpq with ⟨a', ha1, ha2⟩ | ⟨c', hc1, hc2⟩
        · -- p = l ++ a', [10] = a' ++ q
          cases a' with
          | nil => simp at ha1; rw [ha1]; exact h2
          | cons x xs =>
            simp at ha2
            have : q = [] := by
              have := ha2.2
              cases xs <;> simp_all
            exact absurd this hq
        · -- l = p ++ c'
          intro hm
          apply h2
          rw [hc1]
          simp [hm]
      unfold readLine
      rw [splitLine_none hp]
      exact ⟨.eof, rfl, Or.inl rfl⟩
  · simp at h

theorem good_readCounted (n : Nat) : Good (readCounted n) := by
  unfold readCounted
  apply Good.bind (good_readFull n)
  intro lb
  split
  · exact Good.fail _
  · exact good_copyN _

theorem good_readCounted1 : Good readCounted1 := by
  unfold readCounted1
  exact Good.bind good_readByte fun b => good_copyN _

theorem Good.ite {c : Prop} [Decidable c] {a b : Rd α} (ha : Good a) (hb : Good b) :
    Good (if c then a else b) := by
  split <;> assumption

theorem good_parseArg (key : UInt8) : Good (parseArg key) := by
  unfold parseArg
  repeat' first
    | apply Good.ite
    | exact Good.pure _
    | exact Good.mapE _ good_readLine
    | exact Good.map _ good_readLine
    | exact Good.map _ good_readByte
    | exact Good.map _ (good_readFull _)
    | exact Good.map _ (good_readCounted _)
    | exact Good.map _ good_readCounted1
    | exact Good.bind good_readLine fun m => Good.map _ good_readLine

theorem good_parseInsn : Good parseInsn := Good.bind good_readByte good_parseArg

/-- What a successful reader returns is a suffix of its input: no more than was there. -/
theorem Good.length_le {r : Rd α} (hr : Good r) {inp : Bytes} {a : α} {rest : Bytes}
    (h : r inp = .ok (a, rest)) : rest.length ≤ inp.length := by
  obtain ⟨u, hu, _, _⟩ := hr inp a rest h
  rw [hu]; simp

end Ogorek
