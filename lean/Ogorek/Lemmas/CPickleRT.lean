import Ogorek.Lemmas.CPickleDict
import Ogorek.Lemmas.CpRueInv

/-!
  Decoding what CPython's pickler writes (C02): the induction over the object.
-/
namespace Ogorek

/-- Protocol 0 writes floats as `repr` text: the decoder's float parser reads it back (Python's
    shortest-repr round trip, the counterpart of `FloatTextOK`; not proved). -/
def PyFloatTextOK (f : F64) : Prop :=
  parseFloatArg (pyFloatRepr f) = .ok (.pushFloat f) ∧ (10 : UInt8) ∉ pyFloatRepr f

mutual
/-- What the theorem asks of the object: the keys of every dict are acceptable to the decoder's table and
    pairwise different for it (`keysOK`), a bytearray is below 4 GiB, and at protocol 0 the text
    hypothesis for every float in it. -/
def pkOK (cfg : Cfg) (p : Nat) : PyObj → Prop
  | .none => True
  | .bool _ => True
  | .int _ => True
  | .float f => p ≥ 1 ∨ PyFloatTextOK f
  | .str _ => True
  | .bytes _ => True
  | .bytearray s => s.length < 2 ^ 32
  | .tuple xs => pkOKList cfg p xs
  | .list xs => pkOKList cfg p xs
  | .dict kvs => pkOKPairs cfg p kvs ∧ keysOK cfg false (goOfPairs kvs) = true
def pkOKList (cfg : Cfg) (p : Nat) : List PyObj → Prop
  | [] => True
  | x :: xs => pkOK cfg p x ∧ pkOKList cfg p xs
def pkOKPairs (cfg : Cfg) (p : Nat) : List (PyObj × PyObj) → Prop
  | [] => True
  | (k, v) :: r => pkOK cfg p k ∧ pkOK cfg p v ∧ pkOKPairs cfg p r
end

/-! ### the least LONG1 width is a width on which the number fits -/

theorem two_mul_lt_pow (m : Nat) : 2 * m < 256 ^ (m + 1) := by
  induction m with
  | zero => decide
  | succ m ih =>
    have : 256 ^ (m + 1 + 1) = 256 ^ (m + 1) * 256 := Nat.pow_succ ..
    have hpos : 0 < 256 ^ (m + 1) := Nat.pow_pos (by decide)
    omega

theorem fitsTwos_big (n : Int) : fitsTwos (n.natAbs + 1) n = true := by
  have h := two_mul_lt_pow n.natAbs
  have hc : ((256 ^ (n.natAbs + 1) : Nat) : Int) = (256 : Int) ^ (n.natAbs + 1) := by rw [Int.natCast_pow]; rfl
  simp only [fitsTwos, Bool.and_eq_true, decide_eq_true_eq]
  rw [← hc]
  omega

theorem long1WidthFrom_fits : (fuel k : Nat) → (n : Int) → (∃ j, j ≤ fuel ∧ fitsTwos (k + j) n = true) →
    fitsTwos (long1WidthFrom fuel k n) n = true ∧ k ≤ long1WidthFrom fuel k n
  | 0, k, n, ⟨j, hj, hf⟩ => by
    have : j = 0 := by omega
    subst this
    exact ⟨by simpa [long1WidthFrom] using hf, by simp [long1WidthFrom]⟩
  | fuel + 1, k, n, ⟨j, hj, hf⟩ => by
    unfold long1WidthFrom
    by_cases hk : fitsTwos k n = true
    · simp [hk]
    · simp only [hk, Bool.false_eq_true, if_false]
      have hj0 : j ≠ 0 := by
        intro h0; subst h0; exact hk (by simpa using hf)
      obtain ⟨h1, h2⟩ := long1WidthFrom_fits fuel (k + 1) n ⟨j - 1, by omega, by
        have : k + 1 + (j - 1) = k + j := by omega
        rw [this]; exact hf⟩
      exact ⟨h1, by omega⟩

theorem long1Width_fits (n : Int) : fitsTwos (long1Width n) n = true ∧ 0 < long1Width n := by
  obtain ⟨h1, h2⟩ := long1WidthFrom_fits (n.natAbs + 1) 1 n ⟨n.natAbs, by omega, by
    rw [Nat.add_comm]; exact fitsTwos_big n⟩
  exact ⟨h1, by unfold long1Width; omega⟩

section
variable {mc : MCfg} {hook : Hook} {σ : Type} {I : σ → DState → Prop}

theorem ecfg_ge (p k : Nat) : ((ecfg p).proto ≥ (k : Int)) ↔ p ≥ k := by
  simp only [ecfg, ge_iff_le]; omega

theorem pushes_long1 {c : ECfg} (k : Nat) (i : Int) (hk : 0 < k) (hk2 : k < 256) (hf : fitsTwos k i = true) :
    Pushes mc hook c (0x8a :: UInt8.ofNat k :: twos k i) (fun _ r => ∃ id, r = .big id i) := by
  have hp : Parses (0x8a :: UInt8.ofNat k :: twos k i) [.pushBig i] := by
    apply Parses.single rfl
    intro t
    simp only [fitsTwos, Bool.and_eq_true, decide_eq_true_eq] at hf
    have hl : (twos k i).length = k := by unfold twos; exact natLE_length _ _
    have hkb : (UInt8.ofNat k).toNat = k := by simp [UInt8.toNat_ofNat']; omega
    have hc := copyN_exact (twos k i) t
    rw [hl] at hc
    simp [parseInsn, Rd.bind, readByte, parseArg_138, Rd.map, Rd.pure, readCounted1, hkb, hc, decodeLong_twos k i hk hf.1 hf.2]
  exact Runs.one hp fun _ st _ =>
    ⟨push { st with nbig := st.nbig + 1 } (.big st.nbig i), rfl, ⟨rfl, rfl, [], by simp [push]⟩, .big st.nbig i, rfl, st.nbig, rfl⟩

theorem fits32_inInt64 {i : Int} (h : fits32 i = true) : inInt64 i = true := by
  unfold fits32 at h
  unfold inInt64 minInt64 maxInt64
  simp only [Bool.and_eq_true, decide_eq_true_eq] at h ⊢
  constructor <;> omega

/-- `save_long`. -/
theorem pushesG_int (hI : MemoOnly I) (s : σ) (p : Nat) (i : Int) (b : Bytes) (h : cpInt p i = some b) :
    PushesG mc hook (ecfg p) I b (.int i) s s := by
  unfold cpInt at h
  by_cases hf : fits32 i = true
  · simp only [hf, if_true, Option.some.injEq] at h
    subst h
    exact PushesG.of_pushes hI s (pushes_int (mc := mc) (hook := hook) (c := ecfg p) i (fits32_inInt64 hf))
      (fun r n hp hr => by simp only [RepG, hf, if_true]; exact hr)
  · simp only [hf, Bool.false_eq_true, if_false] at h
    by_cases h2 : p ≥ 2
    · simp only [h2, if_true] at h
      by_cases hk : long1Width i < 256
      · simp only [hk, if_true, Option.some.injEq] at h
        subst h
        obtain ⟨hfit, hpos⟩ := long1Width_fits i
        exact PushesG.of_pushes hI s (pushes_long1 (mc := mc) (hook := hook) (c := ecfg p) _ i hpos hk hfit)
          (fun r n hp hr => by simp only [RepG, hf, Bool.false_eq_true, if_false]; exact hr)
      · simp [hk] at h
    · simp only [h2, if_false, Option.some.injEq] at h
      subst h
      exact PushesG.of_pushes hI s (pushes_long (mc := mc) (hook := hook) (c := ecfg p) i)
        (fun r n hp hr => by simp only [RepG, hf, Bool.false_eq_true, if_false]; exact hr)

/-- `save_float`. -/
theorem pushesG_float (hI : MemoOnly I) (s : σ) (p : Nat) (f : F64) (hok : p ≥ 1 ∨ PyFloatTextOK f) :
    PushesG mc hook (ecfg p) I (cpFloat p f) (.float f) s s := by
  unfold cpFloat
  by_cases hp : p ≥ 1
  · simp only [hp, if_true]
    have hp' : (ecfg p).proto ≥ 1 := (ecfg_ge p 1).mpr hp
    have := pushes_float (mc := mc) (hook := hook) (c := ecfg p) f (Or.inl hp')
    simp only [encodeFloat, hp', if_true, flat_emit] at this
    exact PushesG.of_pushes hI s this (fun r n hp hr => by simpa [RepG] using hr)
  · simp only [hp, if_false]
    obtain ⟨hparse, hlf⟩ := hok.resolve_left hp
    have hpar : Parses (70 :: pyFloatRepr f ++ [10]) [.pushFloat f] := by
      apply Parses.single rfl
      intro t
      have e : (70 :: pyFloatRepr f ++ [10]) ++ t = 70 :: (pyFloatRepr f ++ 10 :: t) := by simp
      rw [e]
      simp only [parseInsn, Rd.bind, readByte, parseArg_70, Rd.mapE, readLine_line _ _ hlf, hparse, Rd.pure]
    exact PushesG.of_pushes hI s (P := fun r => r = .float f)
      (Pushes.one (fun _ => .float f) hpar (fun _ _ => rfl) (fun _ => rfl)) (fun r n hp hr => by simpa [RepG] using hr)

/-- `save_unicode` (before the memo). -/
theorem pushesG_str (hI : MemoOnly I) (s0 : σ) (p : Nat) (s b : Bytes) (h : cpStr p s = some b) :
    PushesG mc hook (ecfg p) I b (.str s) s0 s0 := by
  unfold cpStr at h
  by_cases hp : p ≥ 1
  · simp only [hp, if_true] at h
    by_cases hl : s.length < 2 ^ 32
    · simp only [hl, if_true, Option.some.injEq] at h
      subst h
      have hp' : (ecfg p).proto ≥ 1 := (ecfg_ge p 1).mpr hp
      exact PushesG.of_pushes hI s0 (pushes_unicode (mc := mc) (hook := hook) (c := ecfg p) s hl (encodeUnicode_err s hp'))
        (fun r n hp hr => by simpa [RepG] using hr)
    · simp [hl] at h
  · simp only [hp, if_false] at h
    cases hu : cpRue s with
    | none => simp [hu] at h
    | some u =>
      simp only [hu, Option.some.injEq] at h
      subst h
      have hinv := cpRue_inv s u hu
      have hlf := cpRue_no_lf s u hu
      have hpar : Parses (86 :: u ++ [10]) [.pushStr s] := by
        apply Parses.single rfl
        intro t
        have e : (86 :: u ++ [10]) ++ t = 86 :: (u ++ 10 :: t) := by simp
        rw [e]
        simp only [parseInsn, Rd.bind, readByte, parseArg_86, Rd.mapE, readLine_line _ _ hlf, parseUnicodeArg, hinv, Rd.pure]
      exact PushesG.of_pushes hI s0 (P := fun r => r = .str s)
        (Pushes.one (fun _ => .str s) hpar (fun _ _ => rfl) (fun _ => rfl)) (fun r n hp hr => by simpa [RepG] using hr)

/-- `save_bytes`, protocol 3 and later (before the memo). -/
theorem pushesG_bytes (hI : MemoOnly I) (s0 : σ) (p : Nat) (s b : Bytes) (h : cpBytes p s = some b) :
    PushesG mc hook (ecfg p) I b (.bytes s) s0 s0 := by
  unfold cpBytes at h
  by_cases hc : p ≥ 3 ∧ s.length < 2 ^ 32
  · simp only [hc, and_self, if_true, Option.some.injEq] at h
    subst h
    have hp' : (ecfg p).proto ≥ 3 := (ecfg_ge p 3).mpr hc.1
    have hpar := parses_bytes_hi (fun _ => false) (ecfg p) s hp' hc.2
    have e : flat (encodeBytes (fun _ => false) (ecfg p) s) =
        (if s.length < 256 then [67, UInt8.ofNat s.length] else 66 :: le4 s.length) ++ s := by
      simp only [encodeBytes, hp', if_true]
      split <;> simp [flat, Out.seq, emit]
    rw [e] at hpar
    exact PushesG.of_pushes hI s0 (P := fun r => r = .bytes s)
      (Pushes.one (fun _ => .bytes s) hpar (fun _ _ => rfl) (fun _ => rfl)) (fun r n hp hr => by simpa [RepG] using hr)
  · simp [hc] at h

/-- `save_bytearray`, protocol 5 (before the memo). -/
theorem pushesG_bytearray (hI : MemoOnly I) (s0 : σ) (p : Nat) (s b : Bytes) (hl : s.length < 2 ^ 32) (h : cpBytearray p s = some b) :
    PushesG mc hook (ecfg p) I b (.bytearray s) s0 s0 := by
  unfold cpBytearray at h
  by_cases hc : p ≥ 5
  · simp only [hc, if_true, Option.some.injEq] at h
    subst h
    have hp' : (ecfg p).proto ≥ 5 := (ecfg_ge p 5).mpr hc
    have hpar := parses_bytearray_hi (fun _ => false) (ecfg p) s hp' hl
    have e : flat (encodeByteArray (fun _ => false) (ecfg p) s) = 0x96 :: le8 s.length ++ s := by
      simp [encodeByteArray, hp', flat, Out.seq, emit]
    rw [e] at hpar
    exact PushesG.of_pushes hI s0 (P := fun r => r = .bytearray s)
      (Pushes.one (fun _ => .bytearray s) hpar (fun _ _ => rfl) (fun _ => rfl)) (fun r n hp hr => by simpa [RepG] using hr)
  · simp [hc] at h

end


/-! ### opening a container -/

section
variable {mc : MCfg} {hook : Hook} {c : ECfg} {σ : Type} {I : σ → DState → Prop}

theorem flatten_map_single : (l : List PyObj) → (l.map fun x => [x]).flatten = l
  | [] => rfl
  | x :: l => by simp [flatten_map_single l]

/-- `]` (or `(l` at protocol 0): an empty list. -/
theorem runs_openList (hI : MemoOnly I) (hlr : mc.listRef = false) (p : Nat) (s : σ) :
    RunsP mc hook c (if p ≥ 1 then [93] else [40, 108]) (I s)
      (fun st st' => I s st' ∧ st'.stack = .list [] :: st.stack ∧ st'.heap = st.heap) := by
  split
  · refine RunsP.one (parses_op 93 .emptyList rfl parseArg_93) ?_
    intro pos st _ hj
    exact ⟨push st (.list []), by simp [exec, mkList, hlr], rfl, hI s st _ rfl hj, rfl, rfl⟩
  · have hp : Parses [40, 108] [.mark, .list] := by
      simpa using Parses.append (parses_op 40 .mark rfl parseArg_40) (parses_op 108 .list rfl parseArg_108)
    refine ⟨[.mark, .list], hp, fun insn st _ hj => ?_⟩
    refine ⟨{ st with stack := .list [] :: st.stack }, ?_, rfl, hI s st _ rfl hj, rfl, rfl⟩
    simp [runFrom, exec, push, splitAtMark, isMark, mkList, hlr]

/-- `}` (or `(d` at protocol 0): a new empty dict in the heap. -/
theorem runs_openDict (hI : MemoOnly I) (p : Nat) (s : σ) :
    RunsP mc hook c (if p ≥ 1 then [125] else [40, 100]) (I s)
      (fun st st' => I s st' ∧ st'.stack = .href st.heap.length :: st.stack ∧ st'.heap = st.heap ++ [{ kind := dictKind mc.cfg }]) := by
  split
  · refine RunsP.one (parses_op 125 .emptyDict rfl parseArg_125) ?_
    intro pos st _ hj
    exact ⟨push { st with heap := st.heap ++ [{ kind := dictKind mc.cfg }] } (.href st.heap.length), by simp [exec, allocObj], rfl,
      hI s st _ rfl hj, rfl, rfl⟩
  · have hp : Parses [40, 100] [.mark, .dict] := by
      simpa using Parses.append (parses_op 40 .mark rfl parseArg_40) (parses_op 100 .dict rfl parseArg_100)
    refine ⟨[.mark, .dict], hp, fun insn st _ hj => ?_⟩
    refine ⟨{ st with heap := st.heap ++ [{ kind := dictKind mc.cfg }], stack := .href st.heap.length :: st.stack }, ?_, rfl,
      hI s st _ rfl hj, rfl, rfl⟩
    simp [runFrom, exec, push, splitAtMark, isMark, assignAll, allocObj]

/-- A list: created empty, memoized, filled by the APPEND(S) groups. -/
theorem pushesG_list (hI : MemoOnly I) (hlr : mc.listRef = false) (py : Bool) (p : Nat) (pb : Bytes) (xs : List PyObj) (fs : List Bytes)
    {s s1 s' : σ} {vp : GoVal → Prop} (hput : PutOK mc hook c I pb vp s s1) (hvp : vp (.list []))
    (hf : FragsGN mc hook c I fs (xs.map fun x => [x]) s1 s') :
    PushesG mc hook c I ((if p ≥ 1 then [93] else [40, 108]) ++ pb ++ cpBatchList py p fs) (.list xs) s s' := by
  have hlen : fs.length = xs.length := by simpa using hf.length
  obtain ⟨gs, e1, e2⟩ := batchList_groups py p (fs.zip xs)
  rw [List.map_fst_zip (by omega)] at e1
  have hsnd : (fs.zip xs).map (·.2) = xs := List.map_snd_zip (by omega)
  have hfst : (fs.zip xs).map (·.1) = fs := List.map_fst_zip (by omega)
  have hf' : FragsGN mc hook c I ((grpItems gs).map (·.1)) ((grpItems gs).map fun x => [x.2]) s1 s' := by
    rw [e2, hfst]
    have : ((fs.zip xs).map fun x => [x.2]) = xs.map fun x => [x] := by
      have := congrArg (List.map fun x => [x]) hsnd
      simpa [List.map_map, Function.comp_def] using this
    rw [this]; exact hf
  have hg := runs_listGroups (mc := mc) (hook := hook) (c := c) hI gs hf'
  rw [e2, hsnd] at hg
  rw [e1]
  refine RunsP.weaken (RunsP.seq (RunsP.seq (runs_openList hI hlr p s) hput ?_) hg ?_) (fun _ h => h) ?_
  · intro st st1 _ _ ⟨hj, hs, _⟩
    exact ⟨hj, _, _, hs, rfl, hvp⟩
  · intro st st2 _ _ ⟨st1, _, ⟨_, hs1, _⟩, hj2, hs2, _⟩
    exact ⟨hj2, [], st.stack, by rw [hs2, hs1]⟩
  · intro st st3 _ _ ⟨st2, _, ⟨st1, _, ⟨_, hs1, hh1⟩, _, hs2, hh2⟩, hj3, q⟩
    have hs : st2.stack = .list [] :: st.stack := by rw [hs2, hs1]
    have hh : st2.heap = st.heap := by rw [hh2, hh1]
    obtain ⟨rs, hs3, hr, hk⟩ := q [] st.stack hs
    refine ⟨hj3, .list rs, by simpa using hs3, ?_, ?_⟩
    · simp only [RepG]
      exact ⟨rs, rfl, by rw [← hh]; exact hr⟩
    · unfold KeepsH at hk ⊢
      rw [hh] at hk
      exact hk

/-- A dict: created empty in the heap, memoized, filled in place by the SETITEM(S) groups. -/
theorem pushesG_dict (hI : MemoOnly I) (py : Bool) (p : Nat) (pb : Bytes) (kvs : List (PyObj × PyObj)) (fs : List Bytes)
    {s s1 s' : σ} {vp : GoVal → Prop} (hput : PutOK mc hook c I pb vp s s1) (hvp : ∀ id, vp (.href id))
    (hf : FragsGN mc hook c I fs (kvs.map fun kv => [kv.1, kv.2]) s1 s')
    (hkeys : keysOK mc.cfg false (goOfPairs kvs) = true) :
    PushesG mc hook c I ((if p ≥ 1 then [125] else [40, 100]) ++ pb ++ cpBatchDict py p fs) (.dict kvs) s s' := by
  have hlen : fs.length = kvs.length := by simpa using hf.length
  obtain ⟨gs, e1, e2⟩ := batchDict_groups py p (fs.zip kvs)
  rw [List.map_fst_zip (by omega)] at e1
  have hsnd : (fs.zip kvs).map (·.2) = kvs := List.map_snd_zip (by omega)
  have hfst : (fs.zip kvs).map (·.1) = fs := List.map_fst_zip (by omega)
  have hf' : FragsGN mc hook c I ((grpItems gs).map (·.1)) ((grpItems gs).map fun x => [x.2.1, x.2.2]) s1 s' := by
    rw [e2, hfst]
    have : ((fs.zip kvs).map fun x => [x.2.1, x.2.2]) = kvs.map fun kv => [kv.1, kv.2] := by
      have := congrArg (List.map fun (kv : PyObj × PyObj) => [kv.1, kv.2]) hsnd
      simpa [List.map_map, Function.comp_def] using this
    rw [this]; exact hf
  have hg := runs_dictGroups (mc := mc) (hook := hook) (c := c) hI gs [] hf' (by rw [e2, hsnd]; simpa using hkeys)
  rw [e2, hsnd] at hg
  rw [e1]
  refine RunsP.weaken (RunsP.seq (RunsP.seq (runs_openDict hI p s) hput ?_) hg ?_) (fun _ h => h) ?_
  · intro st st1 _ _ ⟨hj, hs, _⟩
    exact ⟨hj, _, _, hs, rfl, hvp _⟩
  · intro st st2 _ _ ⟨st1, _, ⟨_, hs1, hh1⟩, hj2, hs2, hh2⟩
    refine ⟨hj2, st.heap.length, st.stack, [], by rw [hs2, hs1], ?_, by simp [RepGPairs]⟩
    rw [hh2, hh1]; simp
  · intro st st3 _ _ ⟨st2, _, ⟨st1, _, ⟨_, hs1, hh1⟩, _, hs2, hh2⟩, hj3, q⟩
    have hs : st2.stack = .href st.heap.length :: st.stack := by rw [hs2, hs1]
    have hh : st2.heap = st.heap ++ [{ kind := dictKind mc.cfg }] := by rw [hh2, hh1]
    obtain ⟨es1, hs3, hh3, hr, hl, ho⟩ := q st.heap.length st.stack [] hs (by rw [hh]; simp) (by simp [RepGPairs])
    have hl' : st.heap.length + 1 ≤ st3.heap.length := by rw [hh] at hl; simpa using hl
    refine ⟨hj3, .href st.heap.length, hs3, ?_, ⟨by omega, ?_⟩⟩
    · simp only [RepG]
      refine ⟨st.heap.length, es1, rfl, Nat.le_refl _, by simpa using hh3, ?_⟩
      exact RepGPairs.congr mc.cfg (AgreeFrom.refl _ _) (Nat.le_succ _) es1 kvs (by simpa using hr)
    · intro i _ hi
      rw [ho i (by rw [hh]; simp; omega) (by omega), hh, List.getElem?_append_left hi]

end

/-! ### the induction (tree-shaped objects: nothing is fetched from the memo) -/

section
variable {mc : MCfg} {hook : Hook}

/-- The trivial memo invariant. -/
abbrev ITriv : Unit → DState → Prop := fun _ _ => True

theorem pushesG_of_eq {c : ECfg} {σ : Type} {I : σ → DState → Prop} {s s' : σ} {b b' : Bytes} {v : PyObj}
    (h : PushesG mc hook c I b v s s') (e : b' = b) : PushesG mc hook c I b' v s s' := e ▸ h

mutual
/-- `save(obj)`: what is written, read by the decoder from any state, pushes one value representing the object. -/
theorem pk_val (hlr : mc.listRef = false) (py : Bool) (p : Nat) : (v : PyObj) → (n : Nat) → (b : Bytes) → (n' : Nat) →
    pkOK mc.cfg p v → cpSave py p v n = some (b, n') → PushesG mc hook (ecfg p) ITriv b v () ()
  | .none, n, b, n', _, hs => by
    simp only [cpSave, Option.some.injEq, Prod.mk.injEq] at hs
    obtain ⟨rfl, _⟩ := hs
    have := pushes_none (mc := mc) (hook := hook) (c := ecfg p)
    rw [flat_emit] at this
    exact PushesG.of_pushes MemoOnly.trivial () this (fun r n hp hr => by simpa [RepG] using hr)
  | .bool bv, n, b, n', _, hs => by
    simp only [cpSave, Option.some.injEq, Prod.mk.injEq] at hs
    obtain ⟨rfl, _⟩ := hs
    exact PushesG.of_pushes MemoOnly.trivial () (pushes_bool (mc := mc) (hook := hook) (c := ecfg p) bv)
      (fun r n hp hr => by simpa [RepG] using hr)
  | .int i, n, b, n', _, hs => by
    cases hci : cpInt p i with
    | none => simp [cpSave, hci] at hs
    | some b0 =>
      simp only [cpSave, hci, Option.map_some, Option.some.injEq, Prod.mk.injEq] at hs
      obtain ⟨rfl, _⟩ := hs
      exact pushesG_int MemoOnly.trivial () p i b0 hci
  | .float f, n, b, n', hok, hs => by
    simp only [cpSave, Option.some.injEq, Prod.mk.injEq] at hs
    obtain ⟨rfl, _⟩ := hs
    exact pushesG_float MemoOnly.trivial () p f (by simpa [pkOK] using hok)
  | .str s, n, b, n', _, hs => by
    cases hcs : cpStr p s with
    | none => simp [cpSave, hcs] at hs
    | some b0 =>
      simp only [cpSave, hcs, Option.map_some, Option.some.injEq, Prod.mk.injEq] at hs
      obtain ⟨rfl, _⟩ := hs
      exact (pushesG_str MemoOnly.trivial () p s b0 hcs).put (PutOK.trivial p n (fun _ => True)) (fun _ _ _ _ => trivial)
  | .bytes s, n, b, n', _, hs => by
    cases hcs : cpBytes p s with
    | none => simp [cpSave, hcs] at hs
    | some b0 =>
      simp only [cpSave, hcs, Option.map_some, Option.some.injEq, Prod.mk.injEq] at hs
      obtain ⟨rfl, _⟩ := hs
      exact (pushesG_bytes MemoOnly.trivial () p s b0 hcs).put (PutOK.trivial p n (fun _ => True)) (fun _ _ _ _ => trivial)
  | .bytearray s, n, b, n', hok, hs => by
    cases hcs : cpBytearray p s with
    | none => simp [cpSave, hcs] at hs
    | some b0 =>
      simp only [cpSave, hcs, Option.map_some, Option.some.injEq, Prod.mk.injEq] at hs
      obtain ⟨rfl, _⟩ := hs
      exact (pushesG_bytearray MemoOnly.trivial () p s b0 (by simpa [pkOK] using hok) hcs).put
        (PutOK.trivial p n (fun _ => True)) (fun _ _ _ _ => trivial)
  | .tuple xs, n, b, n', hok, hs => by
    simp only [pkOK] at hok
    simp only [cpSave] at hs
    by_cases hemp : xs.isEmpty = true
    · have hx : xs = [] := List.isEmpty_iff.mp hemp
      subst hx
      simp only [List.isEmpty_nil, if_true, Option.some.injEq, Prod.mk.injEq] at hs
      obtain ⟨rfl, _⟩ := hs
      split
      · refine PushesG.of_pushes MemoOnly.trivial () (P := fun r => r = .tuple []) (Pushes.one (fun _ => .tuple [])
          (parses_op 41 .emptyTuple rfl parseArg_41) (fun _ _ => rfl) (fun _ => rfl)) ?_
        intro r n hp hr
        simp only [RepG]; exact ⟨[], hr, by simp [RepGList]⟩
      · exact pushesG_tupleMark MemoOnly.trivial [] [] (PushesGN.nil ())
    · simp only [hemp, Bool.false_eq_true, if_false] at hs
      cases hsl : cpSaveList py p xs n with
      | none => simp [hsl] at hs
      | some r =>
        obtain ⟨fs, n1⟩ := r
        simp only [hsl, Option.some.injEq, Prod.mk.injEq] at hs
        obtain ⟨rfl, _⟩ := hs
        have hfr := pk_list hlr py p xs n fs n1 hok hsl
        have hi := FragsGN.flatten hfr
        rw [flatten_map_single] at hi
        have hne : 1 ≤ xs.length := by
          cases xs with
          | nil => simp at hemp
          | cons _ _ => simp
        unfold cpTupleClose
        by_cases h23 : p ≥ 2 ∧ xs.length ≤ 3
        · simp only [h23, and_self, if_true, List.nil_append]
          have := (pushesG_tupleN MemoOnly.trivial xs hne h23.2 fs.flatten hi).put (PutOK.trivial p n1 (fun _ => True)) (fun _ _ _ _ => trivial)
          exact pushesG_of_eq this (by simp)
        · simp only [h23, if_false]
          have := (pushesG_tupleMark MemoOnly.trivial xs fs.flatten hi).put (PutOK.trivial p n1 (fun _ => True)) (fun _ _ _ _ => trivial)
          exact pushesG_of_eq this (by simp)
  | .list xs, n, b, n', hok, hs => by
    simp only [pkOK] at hok
    simp only [cpSave] at hs
    cases hsl : cpSaveList py p xs (n + 1) with
    | none => simp [hsl] at hs
    | some r =>
      obtain ⟨fs, n1⟩ := r
      simp only [hsl, Option.some.injEq, Prod.mk.injEq] at hs
      obtain ⟨rfl, _⟩ := hs
      exact pushesG_list MemoOnly.trivial hlr py p (cpPut p n) xs fs (PutOK.trivial p n (fun _ => True)) trivial
        (pk_list hlr py p xs (n + 1) fs n1 hok hsl)
  | .dict kvs, n, b, n', hok, hs => by
    simp only [pkOK] at hok
    simp only [cpSave] at hs
    cases hsl : cpSavePairs py p kvs (n + 1) with
    | none => simp [hsl] at hs
    | some r =>
      obtain ⟨fs, n1⟩ := r
      simp only [hsl, Option.some.injEq, Prod.mk.injEq] at hs
      obtain ⟨rfl, _⟩ := hs
      exact pushesG_dict MemoOnly.trivial py p (cpPut p n) kvs fs (PutOK.trivial p n (fun _ => True)) (fun _ => trivial)
        (pk_pairs hlr py p kvs (n + 1) fs n1 hok.1 hsl) hok.2
theorem pk_list (hlr : mc.listRef = false) (py : Bool) (p : Nat) : (xs : List PyObj) → (n : Nat) → (fs : List Bytes) → (n' : Nat) →
    pkOKList mc.cfg p xs → cpSaveList py p xs n = some (fs, n') → FragsGN mc hook (ecfg p) ITriv fs (xs.map fun x => [x]) () ()
  | [], n, fs, n', _, hs => by
    simp only [cpSaveList, Option.some.injEq, Prod.mk.injEq] at hs
    obtain ⟨rfl, _⟩ := hs
    simp [FragsGN]
  | x :: xs, n, fs, n', hok, hs => by
    simp only [pkOKList] at hok
    simp only [cpSaveList] at hs
    cases h1 : cpSave py p x n with
    | none => simp [h1] at hs
    | some r1 =>
      obtain ⟨b, n1⟩ := r1
      simp only [h1] at hs
      cases h2 : cpSaveList py p xs n1 with
      | none => simp [h2] at hs
      | some r2 =>
        obtain ⟨fs2, n2⟩ := r2
        simp only [h2, Option.some.injEq, Prod.mk.injEq] at hs
        obtain ⟨rfl, _⟩ := hs
        simp only [List.map_cons, FragsGN]
        exact ⟨(), (pk_val hlr py p x n b n1 hok.1 h1).toN, pk_list hlr py p xs n1 fs2 n2 hok.2 h2⟩
theorem pk_pairs (hlr : mc.listRef = false) (py : Bool) (p : Nat) : (kvs : List (PyObj × PyObj)) → (n : Nat) → (fs : List Bytes) → (n' : Nat) →
    pkOKPairs mc.cfg p kvs → cpSavePairs py p kvs n = some (fs, n') → FragsGN mc hook (ecfg p) ITriv fs (kvs.map fun kv => [kv.1, kv.2]) () ()
  | [], n, fs, n', _, hs => by
    simp only [cpSavePairs, Option.some.injEq, Prod.mk.injEq] at hs
    obtain ⟨rfl, _⟩ := hs
    simp [FragsGN]
  | (k, v) :: kvs, n, fs, n', hok, hs => by
    simp only [pkOKPairs] at hok
    simp only [cpSavePairs] at hs
    cases h1 : cpSave py p k n with
    | none => simp [h1] at hs
    | some r1 =>
      obtain ⟨bk, n1⟩ := r1
      simp only [h1] at hs
      cases h2 : cpSave py p v n1 with
      | none => simp [h2] at hs
      | some r2 =>
        obtain ⟨bv, n2⟩ := r2
        simp only [h2] at hs
        cases h3 : cpSavePairs py p kvs n2 with
        | none => simp [h3] at hs
        | some r3 =>
          obtain ⟨fs3, n3⟩ := r3
          simp only [h3, Option.some.injEq, Prod.mk.injEq] at hs
          obtain ⟨rfl, _⟩ := hs
          simp only [List.map_cons, FragsGN]
          refine ⟨(), ?_, pk_pairs hlr py p kvs n2 fs3 n3 hok.2.2 h3⟩
          have := PushesGN.append (pk_val hlr py p k n bk n1 hok.1 h1).toN (pk_val hlr py p v n1 bv n2 hok.2.1 h2).toN
          simpa using this
end

end

end Ogorek
