import Ogorek.Lemmas.PvmRun
import Ogorek.Lemmas.RoundTrip

/-!
  Encode → CPython: what the model of CPython's unpickler makes of the encoder's output (C01).

  `PRep heap r pv` — the machine value `r` (with its `obj`s into `heap`) *is* the resolved Python value `pv`:
  immutable values literally, lists / dicts / bytearrays as heap objects holding (representations of) their
  content.  `table c v` is the documented Go → Python type table; `pt_val` (in `Props/C01Pvm.lean`) shows, by
  structural recursion over the Go value, that running `enc v` pushes exactly one value that is `table c v`.
-/
namespace Ogorek

mutual
def PRep (heap : List PObj) (r : PyVal) : PyVal → Prop
  | .none => r = .none
  | .bool b => r = .bool b
  | .int i => r = .int i
  | .float f => r = .float f
  | .str s => r = .str s
  | .str2 s => r = .str2 s
  | .bytes s => r = .bytes s
  | .glob m n => r = .glob m n
  | .tuple xs => ∃ rs, r = .tuple rs ∧ PRepList heap rs xs
  | .call f xs => ∃ g rs, r = .call g rs ∧ PRep heap g f ∧ PRepList heap rs xs
  | .pers p => ∃ q, r = .pers q ∧ PRep heap q p
  | .list xs => ∃ id rs, r = .obj id ∧ heap[id]? = some (.list rs) ∧ PRepList heap rs xs
  | .dict kvs => ∃ id es, r = .obj id ∧ heap[id]? = some (.dict es) ∧ PRepEntries heap es kvs
  | .bytearray s => ∃ id, r = .obj id ∧ heap[id]? = some (.bytearray s)
  | .obj _ | .cycle => False
def PRepList (heap : List PObj) : List PyVal → List PyVal → Prop
  | [], [] => True
  | r :: rs, x :: xs => PRep heap r x ∧ PRepList heap rs xs
  | _, _ => False
/-- Dict entries: keys are immutable values and stand for themselves, values are represented. -/
def PRepEntries (heap : List PObj) : List (PyVal × PyVal) → List (PyVal × PyVal) → Prop
  | [], [] => True
  | (rk, rv) :: es, (k, v) :: kvs => rk = k ∧ PRep heap rv v ∧ PRepEntries heap es kvs
  | _, _ => False
end

mutual
theorem PRep.mono (h t : List PObj) (r : PyVal) : (v : PyVal) → PRep h r v → PRep (h ++ t) r v
  | .none, hr | .bool _, hr | .int _, hr | .float _, hr | .str _, hr | .str2 _, hr | .bytes _, hr | .glob _ _, hr => by
    simpa [PRep] using hr
  | .obj _, hr | .cycle, hr => by simp [PRep] at hr
  | .tuple xs, hr => by
    simp only [PRep] at hr ⊢
    obtain ⟨rs, e, hl⟩ := hr
    exact ⟨rs, e, PRepList.mono h t rs xs hl⟩
  | .call f xs, hr => by
    simp only [PRep] at hr ⊢
    obtain ⟨g, rs, e, hf, hl⟩ := hr
    exact ⟨g, rs, e, PRep.mono h t g f hf, PRepList.mono h t rs xs hl⟩
  | .pers p, hr => by
    simp only [PRep] at hr ⊢
    obtain ⟨q, e, hp⟩ := hr
    exact ⟨q, e, PRep.mono h t q p hp⟩
  | .list xs, hr => by
    simp only [PRep] at hr ⊢
    obtain ⟨id, rs, e, hg, hl⟩ := hr
    exact ⟨id, rs, e, getElem?_append_of_some t hg, PRepList.mono h t rs xs hl⟩
  | .dict kvs, hr => by
    simp only [PRep] at hr ⊢
    obtain ⟨id, es, e, hg, hp⟩ := hr
    exact ⟨id, es, e, getElem?_append_of_some t hg, PRepEntries.mono h t es kvs hp⟩
  | .bytearray s, hr => by
    simp only [PRep] at hr ⊢
    obtain ⟨id, e, hg⟩ := hr
    exact ⟨id, e, getElem?_append_of_some t hg⟩
theorem PRepList.mono (h t : List PObj) : (rs xs : List PyVal) → PRepList h rs xs → PRepList (h ++ t) rs xs
  | [], [], _ => by simp [PRepList]
  | [], _ :: _, hr => by simp [PRepList] at hr
  | _ :: _, [], hr => by simp [PRepList] at hr
  | r :: rs, x :: xs, hr => by
    simp only [PRepList] at hr ⊢
    exact ⟨PRep.mono h t r x hr.1, PRepList.mono h t rs xs hr.2⟩
theorem PRepEntries.mono (h t : List PObj) : (es kvs : List (PyVal × PyVal)) → PRepEntries h es kvs → PRepEntries (h ++ t) es kvs
  | [], [], _ => by simp [PRepEntries]
  | [], _ :: _, hr => by simp [PRepEntries] at hr
  | _ :: _, [], hr => by simp [PRepEntries] at hr
  | (rk, rv) :: es, (k, v) :: kvs, hr => by
    simp only [PRepEntries] at hr ⊢
    exact ⟨hr.1, PRep.mono h t rv v hr.2.1, PRepEntries.mono h t es kvs hr.2.2⟩
end

theorem PRepList.length {h : List PObj} : {rs xs : List PyVal} → PRepList h rs xs → rs.length = xs.length
  | [], [], _ => rfl
  | [], _ :: _, hr => by simp [PRepList] at hr
  | _ :: _, [], hr => by simp [PRepList] at hr
  | _ :: rs, _ :: xs, hr => by
    simp only [PRepList] at hr
    simp [PRepList.length hr.2]

mutual
/-- A hashable Python value holds no mutable object: its representation is the value itself. -/
theorem PRep.eq_of_hashable {h : List PObj} {r : PyVal} : (v : PyVal) → pyHashable v = true → PRep h r v → r = v
  | .none, _, hr | .bool _, _, hr | .int _, _, hr | .float _, _, hr | .str _, _, hr | .str2 _, _, hr | .bytes _, _, hr
  | .glob _ _, _, hr => by simpa [PRep] using hr
  | .obj _, hh, _ | .cycle, hh, _ | .list _, hh, _ | .dict _, hh, _ | .bytearray _, hh, _ => by simp [pyHashable] at hh
  | .tuple xs, hh, hr => by
    simp only [PRep] at hr
    obtain ⟨rs, e, hl⟩ := hr
    simp only [pyHashable] at hh
    rw [e, PRepList.eq_of_hashable xs hh hl]
  | .call f xs, hh, hr => by
    simp only [PRep] at hr
    obtain ⟨g, rs, e, hf, hl⟩ := hr
    simp only [pyHashable, Bool.and_eq_true] at hh
    rw [e, PRep.eq_of_hashable f hh.1 hf, PRepList.eq_of_hashable xs hh.2 hl]
  | .pers p, hh, hr => by
    simp only [PRep] at hr
    obtain ⟨q, e, hp⟩ := hr
    simp only [pyHashable] at hh
    rw [e, PRep.eq_of_hashable p hh hp]
theorem PRepList.eq_of_hashable {h : List PObj} : {rs : List PyVal} → (xs : List PyVal) → pyHashableList xs = true → PRepList h rs xs → rs = xs
  | [], [], _, _ => rfl
  | [], _ :: _, _, hr => by simp [PRepList] at hr
  | _ :: _, [], _, hr => by simp [PRepList] at hr
  | r :: rs, x :: xs, hh, hr => by
    simp only [PRepList] at hr
    simp only [pyHashableList, Bool.and_eq_true] at hh
    rw [PRep.eq_of_hashable x hh.1 hr.1, PRepList.eq_of_hashable xs hh.2 hr.2]
end

/-! ### the documented type table -/

/-- A Go `string`: Python unicode when StrictUnicode is on or from protocol 3, else a Python-2 byte str. -/
def pyStrOf (c : ECfg) (s : Bytes) : PyVal := if c.su ∨ c.proto ≥ 3 then .str s else .str2 s

/-- A Python dict built by assigning the pairs one after another. -/
def pyDictOf (kvs : List (PyVal × PyVal)) : List (PyVal × PyVal) := kvs.foldl (fun es e => pyDictSet es e.1 e.2) []

mutual
/-- doc.go's Go → Python table (`nil` and `None{}` are None; every integer type is int; float32/64 are float;
    `string` by mode; ByteString is a py2 str; Bytes is bytes; []byte is bytearray; slices are lists; Tuple is
    tuple; builtin maps and Dict are dicts; Class is a global; Call is a call of a global; Ref is a persistent
    reference; a pointer to the application struct `UserObj{N}` is the dict of its fields). -/
def table (c : ECfg) : GoVal → PyVal
  | .nil => .none
  | .none => .none
  | .bool b => .bool b
  | .int i => .int i
  | .uint u => .int u
  | .big _ i => .int i
  | .float f => .float f
  | .str s => pyStrOf c s
  | .bytestr s => .str2 s
  | .bytes s => .bytes s
  | .bytearray s => .bytearray s
  | .list xs => .list (tableList c xs)
  | .tuple xs => .tuple (tableList c xs)
  | .map kvs => .dict (pyDictOf (tablePairs c kvs))
  | .dict kvs => .dict (pyDictOf (tablePairs c kvs))
  | .cls m n => .glob m n
  | .call m n args => .call (.glob m n) (tableList c args)
  | .ref pid => .pers (table c pid)
  | .user n => .dict [(pyStrOf c (sb "N"), .int n)]
  | .complex _ _ => .none
  | .mark => .none
  | .href _ => .none
  | .cycle => .none
def tableList (c : ECfg) : List GoVal → List PyVal
  | [] => []
  | x :: xs => table c x :: tableList c xs
def tablePairs (c : ECfg) : List (GoVal × GoVal) → List (PyVal × PyVal)
  | [] => []
  | (k, v) :: r => (table c k, table c v) :: tablePairs c r
end

/-- `[k1, v1, k2, v2, …]`. -/
def flatP : List (PyVal × PyVal) → List PyVal
  | [] => []
  | (k, v) :: r => k :: v :: flatP r

theorem flatP_length (es : List (PyVal × PyVal)) : (flatP es).length = 2 * es.length := by
  induction es with
  | nil => rfl
  | cons e es ih => obtain ⟨k, v⟩ := e; simp [flatP, ih]; omega

end Ogorek
