import Ogorek.Lemmas.PvmForms

/-! The composite forms of the encoder on the Python machine: globals, tuples, REDUCE, bytes, bytearray. -/
namespace Ogorek

theorem ptake_reverse_append {α} (rs s0 : List α) : (rs.reverse ++ s0).take rs.length = rs.reverse := by
  have : rs.length = rs.reverse.length := by simp
  rw [this, List.take_left']
  rfl

theorem pdrop_reverse_append {α} (rs s0 : List α) : (rs.reverse ++ s0).drop rs.length = s0 := by
  have : rs.length = rs.reverse.length := by simp
  rw [this, List.drop_left']
  rfl

section forms
variable {c : ECfg} (ip : IsPrint)

/-- A module / class name CPython can take: valid UTF-8 of bounded length. -/
def nameOK (s : Bytes) : Bool := decide (s.length < 2 ^ 32) && validUtf8 s

theorem ppushes_class (hip : ip 10 = false) (m n : Bytes) (hm : nameOK m = true) (hn : nameOK n = true)
    (he : (encodeClass ip c m n).err = none) :
    PPushes c (flat (encodeClass ip c m n)) (fun _ r => r = .glob m n) := by
  simp only [nameOK, Bool.and_eq_true, decide_eq_true_eq] at hm hn
  by_cases h4 : c.proto ≥ 4
  · have e : encodeClass ip c m n = encodeString ip c m +> encodeString ip c n +> emit [0x93] := by
      simp [encodeClass, h4]
    rw [e] at he ⊢
    obtain ⟨h12, _⟩ := seq_err_none he
    obtain ⟨h1, h2⟩ := seq_err_none h12
    rw [flat_seq _ _ h12, flat_seq _ _ h1, flat_emit]
    have hsm : strOK c m = true := by simp [strOK, hm.1, hm.2]
    have hsn : strOK c n = true := by simp [strOK, hn.1, hn.2]
    have hu : (c.su ∨ c.proto ≥ 3) := Or.inr (by omega)
    have pm := ppushes_string (c := c) ip hip m hsm h1
    have pn := ppushes_string (c := c) ip hip n hsn h2
    refine PRuns.snoc (PRuns.seq pm pn) (parses_op 0x93 .stackGlobal rfl parseArg_147) ?_
    intro st st2 _ _ ⟨st1, _, _, ⟨a, ha, ea⟩, ⟨b, hb, eb⟩⟩
    simp only [pyStrOf, hu, if_true] at ea eb
    subst ea; subst eb
    have hst : st2.stack = .str n :: .str m :: st.stack := by rw [hb, ha]
    refine ⟨{ st2 with stack := .glob m n :: st.stack }, ?_, ⟨rfl, rfl, rfl, [], by simp⟩, .glob m n, rfl, rfl⟩
    simp [pexec, hst, pyUtf8Valid_of_valid false m hm.2, pyUtf8Valid_of_valid false n hn.2]
  · refine PPushes.one (.glob m n) (parses_class_global ip c m n h4 he) (fun st => ?_) (fun _ => rfl)
    simp [pexec, pyUtf8Valid_of_valid false m hm.2, pyUtf8Valid_of_valid false n hn.2]

/-- `encodeTupleOf`: whatever the items push becomes one tuple. -/
theorem ppushes_tupleOf (l : Nat) (items : Out) (PL : List PObj → List PyVal → Prop)
    (he : items.err = none) (hl0 : l = 0 → flat items = [])
    (hi : PPushesN c (flat items) l PL) :
    PPushes c (flat (encodeTupleOf c l items)) (fun h r => ∃ rs, r = .tuple rs ∧ PL h rs) := by
  unfold encodeTupleOf
  split
  · rename_i h
    obtain ⟨_, h1, h3⟩ := h
    rw [flat_seq _ _ he, flat_emit]
    have hp : Parses [if l = 1 then (0x85 : UInt8) else if l = 2 then 0x86 else 0x87] [.tupleN l] := by
      have : l = 1 ∨ l = 2 ∨ l = 3 := by omega
      rcases this with rfl | rfl | rfl
      · exact parses_op 0x85 (.tupleN 1) rfl parseArg_133
      · exact parses_op 0x86 (.tupleN 2) rfl parseArg_134
      · exact parses_op 0x87 (.tupleN 3) rfl parseArg_135
    refine PRuns.snoc hi hp ?_
    intro st st' _ _ ⟨rs, hst, hlen, hPL⟩
    refine ⟨{ st' with stack := .tuple rs :: st.stack }, ?_, ⟨rfl, rfl, rfl, [], by simp⟩, .tuple rs, rfl, rs, rfl, hPL⟩
    have hl' : ¬ st'.stack.length < l := by rw [hst]; simp; omega
    have ht : st'.stack.take l = rs.reverse := by rw [hst, ← hlen]; exact ptake_reverse_append rs _
    have hd : st'.stack.drop l = st.stack := by rw [hst, ← hlen]; exact pdrop_reverse_append rs _
    simp only [pexec, hl', if_false, ht, hd, List.reverse_reverse]
  · split
    · rename_i h
      obtain ⟨_, rfl⟩ := h
      rw [flat_emit]
      obtain ⟨is, hp, _, hr⟩ := hi
      rw [hl0 rfl] at hp
      have := parses_nil_eq hp; subst this
      refine PRuns.one (parses_op 41 .emptyTuple rfl parseArg_41) fun st hpo => ?_
      obtain ⟨st', e, _, rs, _, hlen, hPL⟩ := hr st hpo
      simp [prunFrom] at e; subst e
      have : rs = [] := List.length_eq_zero_iff.mp hlen
      subst this
      exact ⟨ppush st (.tuple []), by simp [pexec], PFrame.push st _, .tuple [], rfl, [], rfl, by simpa [ppush] using hPL⟩
    · have h1 : (emit [40] +> items).err = none := by simp [Out.seq, emit, he]
      rw [flat_seq _ _ h1, flat_seq _ _ (by simp [emit]), flat_emit, flat_emit]
      refine PRuns.marked hi (parses_op 116 .tuple rfl parseArg_116) ?_
      intro st st1 rs _ f1 hs hlen hPL
      have hme : st1.metas = st.stack :: st.metas := f1.metas
      refine ⟨{ st1 with stack := .tuple rs :: st.stack, metas := st.metas }, ?_, f1.memo, f1.proto, rfl, ?_, .tuple rs, rfl, rs, rfl, hPL⟩
      · simp [pexec, popMark, hme, hs, ppush, bind, Except.bind, pure, Except.pure]
      · simpa using f1.heap

/-- `callable, args-tuple, REDUCE`. -/
theorem ppushes_reduce (m n : Bytes) (clsOut argsOut : Out) (PL : List PObj → List PyVal → Prop)
    (R : List PObj → PyVal → Prop)
    (h1 : clsOut.err = none) (h2 : argsOut.err = none)
    (hc : PPushes c (flat clsOut) (fun _ r => r = .glob m n))
    (ha : PPushes c (flat argsOut) (fun h r => ∃ rs, r = .tuple rs ∧ PL h rs))
    (hred : ∀ (st : PState) rs, PProtoOK c st → PL st.heap rs →
      ∃ t v, pyCall st (.glob m n) rs = .ok ({ st with heap := st.heap ++ t }, v) ∧ R (st.heap ++ t) v) :
    PPushes c (flat (clsOut +> argsOut +> emit [82])) R := by
  have h12 : (clsOut +> argsOut).err = none := by simp [Out.seq, h1, h2]
  rw [flat_seq _ _ h12, flat_seq _ _ h1, flat_emit]
  refine PRuns.snoc (PRuns.seq hc ha) (parses_op 82 .reduce rfl parseArg_82) ?_
  intro st st2 hpo f ⟨st1, _, _, ⟨a, ha', ea⟩, ⟨b, hb, rs, eb, hPL⟩⟩
  subst ea; subst eb
  have hst : st2.stack = .tuple rs :: .glob m n :: st.stack := by rw [hb, ha']
  obtain ⟨t, v, hv, hR⟩ := hred st2 rs (hpo.frame f) hPL
  refine ⟨{ st2 with heap := st2.heap ++ t, stack := v :: st.stack }, ?_, ⟨rfl, rfl, rfl, t, rfl⟩, v, rfl, hR⟩
  simp [pexec, hst, pyArgs, hv, bind, Except.bind, pure, Except.pure]

theorem pyLatin1Encode_latin1 (d : Bytes) : pyLatin1Encode (latin1ToUtf8 d) = some d := by
  have h := decodeLatin1Bytes_latin1 d
  unfold decodeLatin1Bytes at h
  unfold pyLatin1Encode
  simp only [] at h ⊢
  by_cases hall : ((runes (latin1ToUtf8 d)).all fun x => decide (x.1 < 0x100)) = true
  · have hall' : ((runes (latin1ToUtf8 d)).all fun (x : Nat × Nat) => decide (x.1 < 0x100) && !(x.1 == runeError && x.2 == 1)) = true := by
      rw [List.all_eq_true] at hall ⊢
      intro x hx
      have := hall x hx
      simp only [decide_eq_true_eq] at this
      have hne : (x.1 == runeError) = false := by
        simp [runeError]; omega
      simp [this, hne]
    simp only [hall, if_true] at h
    simp only [hall', if_true]
    exact h
  · simp [hall] at h

theorem validUtf8_latin1 (d : Bytes) : validUtf8 (latin1ToUtf8 d) = true := by
  have h := pyLatin1Encode_latin1 d
  unfold pyLatin1Encode at h
  simp only [] at h
  split at h
  · rename_i hall
    unfold validUtf8
    rw [List.all_eq_true] at hall ⊢
    intro x hx
    have := hall x hx
    simp only [Bool.and_eq_true] at this
    exact this.2
  · cases h

theorem pyExecModule_ne_codecs (p : Nat) : (pyExecModule p == sb "_codecs") = false := by
  unfold pyExecModule; split <;> decide

theorem ppushes_bytes (hip : ip 10 = false) (s : Bytes) (hl : s.length < 2 ^ 31)
    (he : (encodeBytes ip c s).err = none) :
    PPushes c (flat (encodeBytes ip c s)) (fun _ r => r = .bytes s) := by
  by_cases h3 : c.proto ≥ 3
  · exact PPushes.one (.bytes s) (parses_bytes_hi ip c s h3 (by omega)) (fun _ => rfl) (fun _ => rfl)
  · have e : encodeBytes ip c s = encodeClass ip c (sb "_codecs") (sb "encode")
        +> encodeTupleOf c 2 (encodeUnicode c (latin1ToUtf8 s) +> encodeByteString ip c (sb "latin1")) +> emit [82] := by
      simp [encodeBytes, h3, latin1ToUtf8]
    rw [e] at he ⊢
    obtain ⟨h12, _⟩ := seq_err_none he
    obtain ⟨hce, hte⟩ := seq_err_none h12
    have hie := encodeTupleOf_err_inv 2 _ (by omega) hte
    obtain ⟨hue, hbe⟩ := seq_err_none hie
    have hul : (latin1ToUtf8 s).length < 2 ^ 32 := by have := latin1ToUtf8_length_le s; omega
    have hu := ppushes_unicode (c := c) (latin1ToUtf8 s) (validUtf8_latin1 s) hul hue
    have hb := ppushes_bytestring (c := c) ip hip (sb "latin1") (by decide)
    have hitems : PPushesN c (flat (encodeUnicode c (latin1ToUtf8 s) +> encodeByteString ip c (sb "latin1"))) 2
        (fun _ rs => rs = [.str (latin1ToUtf8 s), .str2 (sb "latin1")]) := by
      rw [flat_seq _ _ hue]
      refine PRuns.weaken (PRuns.seq hu hb) ?_
      intro st st' _ _ ⟨st1, _, _, ⟨a, ha, pa⟩, ⟨b, hb', pb⟩⟩
      subst pa; subst pb
      exact ⟨_, by simp [hb', ha], rfl, rfl⟩
    have htup := ppushes_tupleOf (c := c) 2 _ _ hie (by omega) hitems
    refine ppushes_reduce (sb "_codecs") (sb "encode") _ _ _ _ hce hte
      (ppushes_class ip hip _ _ (by decide) (by decide) hce) htup ?_
    intro st rs _ hrs
    subst hrs
    refine ⟨[], .bytes s, ?_, rfl⟩
    have hn : isLatin1Name (sb "latin1") = true := by decide
    have ha : isAscii (sb "latin1") = true := by decide
    have hc1 : (sb "_codecs" == sb "_codecs" && sb "encode" == sb "encode") = true := by decide
    simp only [pyCall, pyCallGlob, hc1, if_true, pyCodecsEncode, pyTextOf, ha, hn, pyLatin1Encode_latin1, List.append_nil]

theorem ppushes_bytearray (hip : ip 10 = false) (s : Bytes) (hl : s.length < 2 ^ 31)
    (he : (encodeByteArray ip c s).err = none) :
    PPushes c (flat (encodeByteArray ip c s)) (fun h r => ∃ id, r = .obj id ∧ h[id]? = some (.bytearray s)) := by
  by_cases h5 : c.proto ≥ 5
  · refine PRuns.one (parses_bytearray_hi ip c s h5 (by omega)) fun st _ => ?_
    refine ⟨ppush { st with heap := st.heap ++ [.bytearray s] } (.obj st.heap.length), ?_, ⟨rfl, rfl, rfl, [.bytearray s], by simp [ppush]⟩,
      .obj st.heap.length, rfl, st.heap.length, rfl, by simp [ppush]⟩
    simp [pexec, palloc]
  · have e : encodeByteArray ip c s = encodeClass ip c (pybuiltinModuleE c.proto) (sb "bytearray")
        +> encodeTupleOf c 1 (encodeBytes ip c s) +> emit [82] := by
      simp [encodeByteArray, h5]
    rw [e] at he ⊢
    obtain ⟨h12, _⟩ := seq_err_none he
    obtain ⟨hce, hte⟩ := seq_err_none h12
    have hbe := encodeTupleOf_err_inv 1 _ (by omega) hte
    have hitems : PPushesN c (flat (encodeBytes ip c s)) 1 (fun _ rs => rs = [.bytes s]) := by
      refine PRuns.weaken (ppushes_bytes ip hip s hl hbe) ?_
      intro st st' _ _ ⟨r, hs, hr⟩
      subst hr
      exact ⟨[.bytes s], by simpa using hs, rfl, rfl⟩
    have htup := ppushes_tupleOf (c := c) 1 _ _ hbe (by omega) hitems
    have hname : nameOK (pybuiltinModuleE c.proto) = true := by
      unfold pybuiltinModuleE; split <;> decide
    refine ppushes_reduce (pybuiltinModuleE c.proto) (sb "bytearray") _ _ _ _ hce hte
      (ppushes_class ip hip _ _ hname (by decide) hce) htup ?_
    intro st rs hpo hrs
    subst hrs
    refine ⟨[.bytearray s], .obj st.heap.length, ?_, st.heap.length, rfl, by simp⟩
    unfold PProtoOK at hpo
    have hne : (pybuiltinModuleE c.proto == sb "_codecs") = false := by
      unfold pybuiltinModuleE; split <;> decide
    have hnb : (sb "bytearray" == sb "bytes") = false := by decide
    have hself : (pyExecModule st.proto == pyExecModule st.proto) = true := by simp
    have hba : (sb "bytearray" == sb "bytearray") = true := by decide
    simp only [pyCall, pyCallGlob, ← hpo, pyExecModule_ne_codecs, hnb, hself, hba, Bool.false_and, Bool.and_false, Bool.and_self,
      Bool.false_eq_true, if_false, if_true, pyBytearrayOf, palloc]

/-- A call of any other global stays symbolic. -/
theorem pyCall_symbolic (st : PState) (m n : Bytes) (rs : List PyVal) (h : reservedCall m n = false) :
    pyCall st (.glob m n) rs = .ok ({ st with heap := st.heap ++ [] }, .call (.glob m n) rs) := by
  unfold reservedCall at h
  have hst : ({ st with heap := st.heap ++ [] } : PState) = st := by simp
  rw [hst]
  unfold pyCall pyCallGlob pyExecModule
  cases h1 : m == sb "_codecs" <;> cases h2 : n == sb "encode" <;> cases h3 : m == sb "__builtin__" <;>
    cases h4 : m == sb "builtins" <;> cases h5 : n == sb "bytes" <;> cases h6 : n == sb "bytearray" <;>
    simp_all <;> split <;> simp_all

end forms

end Ogorek
