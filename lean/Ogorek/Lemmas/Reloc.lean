import Ogorek.Decoder
import Ogorek.Props.C07

/-!
  Relocation: what a pickle decodes to does not depend on where in a stream it stands (C11).

  A pickle decoded after others meets a Decoder whose heap already holds containers, whose `*big.Int` id supply has
  advanced and whose memo has entries.  `shiftV dh db` renames a value accordingly (container references move up by `dh`,
  big-int ids by `db`); everything the decoder computes with values — marks, hashing, both equalities, the assignments of
  both table kinds, the interpreted calls — is invariant under that renaming.
-/
namespace Ogorek

mutual
def shiftV (dh db : Nat) : GoVal → GoVal
  | .href id => .href (id + dh)
  | .big id i => .big (id + db) i
  | .list xs => .list (shiftL dh db xs)
  | .tuple xs => .tuple (shiftL dh db xs)
  | .call m n args => .call m n (shiftL dh db args)
  | .ref p => .ref (shiftV dh db p)
  | .map kvs => .map (shiftP dh db kvs)
  | .dict kvs => .dict (shiftP dh db kvs)
  | .mark => .mark
  | .none => .none
  | .bool b => .bool b
  | .int i => .int i
  | .uint u => .uint u
  | .float f => .float f
  | .complex re im => .complex re im
  | .str s => .str s
  | .bytestr s => .bytestr s
  | .bytes s => .bytes s
  | .bytearray s => .bytearray s
  | .cls m n => .cls m n
  | .user n => .user n
  | .cycle => .cycle
  | .nil => .nil
def shiftL (dh db : Nat) : List GoVal → List GoVal
  | [] => []
  | x :: xs => shiftV dh db x :: shiftL dh db xs
def shiftP (dh db : Nat) : List (GoVal × GoVal) → List (GoVal × GoVal)
  | [] => []
  | (k, v) :: r => (shiftV dh db k, shiftV dh db v) :: shiftP dh db r
end

def shiftO (dh db : Nat) (o : HObj) : HObj := { kind := o.kind, kvs := shiftP dh db o.kvs, xs := shiftL dh db o.xs }

theorem beq_add_right (a b d : Nat) : (a + d == b + d) = (a == b) := by
  cases h : a == b <;> simp at h ⊢ <;> omega

section
variable (dh db : Nat)

theorem shiftL_eq_map (xs : List GoVal) : shiftL dh db xs = xs.map (shiftV dh db) := by
  induction xs with
  | nil => rfl
  | cons x xs ih => simp [shiftL, ih]

theorem shiftP_eq_map (es : List (GoVal × GoVal)) : shiftP dh db es = es.map (fun e => (shiftV dh db e.1, shiftV dh db e.2)) := by
  induction es with
  | nil => rfl
  | cons e es ih => obtain ⟨k, v⟩ := e; simp [shiftP, ih]

theorem isMark_shift (v : GoVal) : isMark (shiftV dh db v) = isMark v := by
  cases v <;> rfl

theorem strKind_shift (v : GoVal) : strKind? (shiftV dh db v) = strKind? v := by
  cases v <;> rfl

theorem numOf_shift (v : GoVal) : numOf? (shiftV dh db v) = numOf? v := by
  cases v <;> rfl

mutual
theorem hashTree_shift : ∀ v : GoVal, hashTree (shiftV dh db v) = hashTree v
  | .tuple xs => by simp only [shiftV, hashTree, hashTreeList_shift xs]
  | .call m n xs => by simp only [shiftV, hashTree, hashTreeList_shift xs]
  | .ref p => by simp only [shiftV, hashTree, hashTree_shift p]
  | .href _ | .big _ _ | .list _ | .map _ | .dict _ | .mark | .none | .bool _ | .int _ | .uint _ | .float _ | .complex _ _ | .str _
  | .bytestr _ | .bytes _ | .bytearray _ | .cls _ _ | .user _ | .cycle | .nil => by simp [shiftV, hashTree]
theorem hashTreeList_shift : ∀ xs : List GoVal, hashTreeList (shiftL dh db xs) = hashTreeList xs
  | [] => rfl
  | x :: xs => by simp only [shiftL, hashTreeList, hashTree_shift x, hashTreeList_shift xs]
end

theorem hashable_shift (v : GoVal) : hashable (shiftV dh db v) = hashable v := by
  simp [hashable, hashTree_shift]

mutual
theorem goEqual_shift : ∀ a b : GoVal, goEqual (shiftV dh db a) (shiftV dh db b) = goEqual a b
  | .tuple xs, b => by
    cases b <;> simp only [shiftV, goEqual, strKind?, numOf?]
    case tuple ys => exact goEqualList_shift xs ys
    case list ys => exact goEqualList_shift xs ys
  | .list xs, b => by
    cases b <;> simp only [shiftV, goEqual, strKind?, numOf?]
    case tuple ys => exact goEqualList_shift xs ys
    case list ys => exact goEqualList_shift xs ys
  | .call m n xs, b => by
    cases b <;> simp only [shiftV, goEqual, strKind?, numOf?]
    case call m' n' ys => rw [goEqualList_shift xs ys]
  | .ref p, b => by
    cases b <;> simp only [shiftV, goEqual, strKind?, numOf?]
    case ref q => exact goEqual_shift p q
  | .href x, b => by cases b <;> simp [shiftV, goEqual, strKind?, numOf?, beq_add_right]
  | .big _ x, b => by cases b <;> simp [shiftV, goEqual, strKind?, numOf?]
  | .map _, b => by cases b <;> simp [shiftV, goEqual, strKind?, numOf?]
  | .dict _, b => by cases b <;> simp [shiftV, goEqual, strKind?, numOf?]
  | .mark, b => by cases b <;> simp [shiftV, goEqual, strKind?, numOf?]
  | .none, b => by cases b <;> simp [shiftV, goEqual, strKind?, numOf?]
  | .nil, b => by cases b <;> simp [shiftV, goEqual, strKind?, numOf?]
  | .cycle, b => by cases b <;> simp [shiftV, goEqual, strKind?, numOf?]
  | .bool x, b => by cases b <;> simp [shiftV, goEqual, strKind?, numOf?]
  | .int x, b => by cases b <;> simp [shiftV, goEqual, strKind?, numOf?]
  | .uint x, b => by cases b <;> simp [shiftV, goEqual, strKind?, numOf?]
  | .float x, b => by cases b <;> simp [shiftV, goEqual, strKind?, numOf?]
  | .complex x y, b => by cases b <;> simp [shiftV, goEqual, strKind?, numOf?]
  | .str x, b => by cases b <;> simp [shiftV, goEqual, strKind?, numOf?]
  | .bytestr x, b => by cases b <;> simp [shiftV, goEqual, strKind?, numOf?]
  | .bytes x, b => by cases b <;> simp [shiftV, goEqual, strKind?, numOf?]
  | .bytearray x, b => by cases b <;> simp [shiftV, goEqual, strKind?, numOf?]
  | .cls m n, b => by cases b <;> simp [shiftV, goEqual, strKind?, numOf?]
  | .user x, b => by cases b <;> simp [shiftV, goEqual, strKind?, numOf?]
theorem goEqualList_shift : ∀ xs ys : List GoVal, goEqualList (shiftL dh db xs) (shiftL dh db ys) = goEqualList xs ys
  | [], [] => rfl
  | [], _ :: _ => by simp [shiftL, goEqualList]
  | _ :: _, [] => by simp [shiftL, goEqualList]
  | x :: xs, y :: ys => by
    simp only [shiftL, goEqualList]
    rw [goEqual_shift x y, goEqualList_shift xs ys]
end

theorem goMapHashable_shift : ∀ v : GoVal, goMapHashable (shiftV dh db v) = goMapHashable v
  | .ref p => by simp only [shiftV, goMapHashable, goMapHashable_shift p]
  | .href _ | .big _ _ | .list _ | .tuple _ | .call _ _ _ | .map _ | .dict _ | .mark | .none | .bool _ | .int _ | .uint _ | .float _
  | .complex _ _ | .str _ | .bytestr _ | .bytes _ | .bytearray _ | .cls _ _ | .user _ | .cycle | .nil => by simp [shiftV, goMapHashable]

theorem goKeyEq_shift : ∀ a b : GoVal, goKeyEq (shiftV dh db a) (shiftV dh db b) = goKeyEq a b
  | .ref p, b => by
    cases b <;> simp only [shiftV, goKeyEq]
    case ref q => exact goKeyEq_shift p q
  | .big x _, b => by cases b <;> simp [shiftV, goKeyEq, beq_add_right]
  | .href _, b => by cases b <;> simp [shiftV, goKeyEq]
  | .list _, b => by cases b <;> simp [shiftV, goKeyEq]
  | .tuple _, b => by cases b <;> simp [shiftV, goKeyEq]
  | .call _ _ _, b => by cases b <;> simp [shiftV, goKeyEq]
  | .map _, b => by cases b <;> simp [shiftV, goKeyEq]
  | .dict _, b => by cases b <;> simp [shiftV, goKeyEq]
  | .mark, b => by cases b <;> simp [shiftV, goKeyEq]
  | .none, b => by cases b <;> simp [shiftV, goKeyEq]
  | .nil, b => by cases b <;> simp [shiftV, goKeyEq]
  | .cycle, b => by cases b <;> simp [shiftV, goKeyEq]
  | .bool _, b => by cases b <;> simp [shiftV, goKeyEq]
  | .int _, b => by cases b <;> simp [shiftV, goKeyEq]
  | .uint _, b => by cases b <;> simp [shiftV, goKeyEq]
  | .float _, b => by cases b <;> simp [shiftV, goKeyEq]
  | .complex _ _, b => by cases b <;> simp [shiftV, goKeyEq]
  | .str _, b => by cases b <;> simp [shiftV, goKeyEq]
  | .bytestr _, b => by cases b <;> simp [shiftV, goKeyEq]
  | .bytes _, b => by cases b <;> simp [shiftV, goKeyEq]
  | .bytearray _, b => by cases b <;> simp [shiftV, goKeyEq]
  | .cls _ _, b => by cases b <;> simp [shiftV, goKeyEq]
  | .user _, b => by cases b <;> simp [shiftV, goKeyEq]

/-! ### assignments -/

theorem dictSetSpec_shift (es : Entries) (k v : GoVal) :
    dictSetSpec (shiftP dh db es) (shiftV dh db k) (shiftV dh db v) = shiftP dh db (dictSetSpec es k v) := by
  unfold dictSetSpec
  rw [shiftP_eq_map, shiftP_eq_map]
  simp only [List.map_append, List.map_cons, List.map_nil, List.filter_map]
  congr 1
  congr 1
  apply List.filter_congr
  intro e _
  simp [Function.comp, goEqual_shift]

theorem mapSet_shift (es : Entries) (k v : GoVal) :
    mapSet (shiftP dh db es) (shiftV dh db k) (shiftV dh db v) = shiftP dh db (mapSet es k v) := by
  unfold mapSet
  rw [shiftP_eq_map, shiftP_eq_map]
  simp only [List.map_append, List.map_cons, List.map_nil, List.filter_map]
  congr 1
  congr 1
  apply List.filter_congr
  intro e _
  simp [Function.comp, goKeyEq_shift]

theorem tryAssign_shift (kind : HKind) (es : Entries) (k v : GoVal) :
    tryAssign kind (shiftP dh db es) (shiftV dh db k) (shiftV dh db v) = (tryAssign kind es k v).map (shiftP dh db) := by
  cases kind <;> simp only [tryAssign, hashable_shift, goMapHashable_shift, dictSetSpec_shift, mapSet_shift] <;> split <;> rfl

theorem assignAll_shift (kind : HKind) : ∀ (items : List GoVal) (es : Entries),
    assignAll kind (shiftP dh db es) (shiftL dh db items) = (assignAll kind es items).map (shiftP dh db)
  | [], es => by simp [shiftL, assignAll]
  | [_], es => by simp [shiftL, assignAll]
  | k :: v :: rest, es => by
    simp only [shiftL, assignAll, tryAssign_shift]
    cases h : tryAssign kind es k v with
    | none => simp
    | some es' => simp only [Option.map_some]; exact assignAll_shift kind rest es'

/-! ### the stack -/

theorem splitAtMark_shift : ∀ s : List GoVal,
    splitAtMark (shiftL dh db s) = (splitAtMark s).map (fun p => (shiftL dh db p.1, shiftL dh db p.2))
  | [] => rfl
  | v :: s => by
    simp only [shiftL, splitAtMark, isMark_shift]
    split
    · rfl
    · rw [splitAtMark_shift s]
      cases splitAtMark s <;> simp [shiftL]

theorem userOK_shift (v : GoVal) : userOK (shiftV dh db v) = userOK v := by
  cases v <;> rfl

theorem userOKAll_shift : ∀ vs : List GoVal, userOKAll (shiftL dh db vs) = userOKAll vs
  | [] => rfl
  | v :: vs => by simp only [shiftL, userOKAll, userOK_shift, userOKAll_shift vs]

theorem shiftL_reverse (xs : List GoVal) : shiftL dh db xs.reverse = (shiftL dh db xs).reverse := by
  simp [shiftL_eq_map]

theorem shiftL_append (xs ys : List GoVal) : shiftL dh db (xs ++ ys) = shiftL dh db xs ++ shiftL dh db ys := by
  simp [shiftL_eq_map]

theorem shiftL_length (xs : List GoVal) : (shiftL dh db xs).length = xs.length := by
  simp [shiftL_eq_map]

theorem shiftL_take (n : Nat) (xs : List GoVal) : shiftL dh db (xs.take n) = (shiftL dh db xs).take n := by
  simp [shiftL_eq_map, List.map_take]

theorem shiftL_drop (n : Nat) (xs : List GoVal) : shiftL dh db (xs.drop n) = (shiftL dh db xs).drop n := by
  simp [shiftL_eq_map, List.map_drop]

/-! ### interpreted calls -/

theorem stringEQ_shift (x : GoVal) (lit : String) : stringEQ (shiftV dh db x) lit = stringEQ x lit := by
  cases x <;> rfl

theorem decodeLatin1Bytes_shift (x : GoVal) : decodeLatin1Bytes (shiftV dh db x) = decodeLatin1Bytes x := by
  cases x <;> rfl

end

end Ogorek

namespace Ogorek

/-! ### the two runs -/

/-- Run `B` is run `A` moved: `A` started from the empty heap, memo and id supply; `B` from a decoder that had
    already decoded other pickles (heap `H0`, some memo, `db` more big-int ids handed out). -/
structure Reloc (dh db : Nat) (H0 : List HObj) (A B : DState) : Prop where
  hdh : dh = H0.length
  stack : B.stack = shiftL dh db A.stack
  memo : ∃ M', B.memo = (A.memo.map fun e => (e.1, shiftV dh db e.2)) ++ M'
  heap : B.heap = H0 ++ A.heap.map (shiftO dh db)
  proto : B.proto = A.proto
  nbig : B.nbig = A.nbig + db

section
variable {dh db : Nat} {H0 : List HObj}

theorem Reloc.push {A B : DState} (h : Reloc dh db H0 A B) (v : GoVal) :
    Reloc dh db H0 (Ogorek.push A v) (Ogorek.push B (shiftV dh db v)) :=
  ⟨h.hdh, by simp [Ogorek.push, shiftL, h.stack], h.memo, h.heap, h.proto, h.nbig⟩

theorem Reloc.setStack {A B : DState} (h : Reloc dh db H0 A B) (s : List GoVal) :
    Reloc dh db H0 { A with stack := s } { B with stack := shiftL dh db s } :=
  ⟨h.hdh, rfl, h.memo, h.heap, h.proto, h.nbig⟩

theorem Reloc.heap_get {A B : DState} (h : Reloc dh db H0 A B) {id : Nat} {o : HObj} (hg : A.heap[id]? = some o) :
    B.heap[id + dh]? = some (shiftO dh db o) := by
  rw [h.heap, h.hdh]
  rw [List.getElem?_append_right (by omega)]
  simp [hg]

theorem Reloc.heap_len {A B : DState} (h : Reloc dh db H0 A B) : B.heap.length = A.heap.length + dh := by
  rw [h.heap, h.hdh]; simp; omega

theorem Reloc.alloc {A B : DState} (h : Reloc dh db H0 A B) (o : HObj) (s : List GoVal) :
    Reloc dh db H0 { A with heap := A.heap ++ [o], stack := s } { B with heap := B.heap ++ [shiftO dh db o], stack := shiftL dh db s } :=
  ⟨h.hdh, rfl, h.memo, by simp [h.heap], h.proto, h.nbig⟩

theorem Reloc.heapSet {A B : DState} (h : Reloc dh db H0 A B) (id : Nat) (o : HObj) (s : List GoVal) :
    Reloc dh db H0 { A with heap := A.heap.set id o, stack := s } { B with heap := B.heap.set (id + dh) (shiftO dh db o), stack := shiftL dh db s } := by
  refine ⟨h.hdh, rfl, h.memo, ?_, h.proto, h.nbig⟩
  simp only [h.heap, h.hdh]
  rw [List.set_append_right _ _ (by omega)]
  simp [List.map_set]

theorem lookup_map_append {key : Bytes} {v : GoVal} (f : GoVal → GoVal) : (l : List (Bytes × GoVal)) → (M : List (Bytes × GoVal)) →
    l.lookup key = some v → ((l.map fun e => (e.1, f e.2)) ++ M).lookup key = some (f v)
  | [], _, h => by simp at h
  | (k, x) :: l, M, h => by
    simp only [List.map_cons, List.cons_append, List.lookup] at h ⊢
    by_cases hk : key == k
    · simp only [hk] at h ⊢; cases h; rfl
    · simp only [Bool.not_eq_true] at hk
      simp only [hk] at h ⊢
      exact lookup_map_append f l M h

theorem Reloc.memo_get {A B : DState} (h : Reloc dh db H0 A B) {key : Bytes} {v : GoVal} (hg : memoGet A key = some v) :
    memoGet B key = some (shiftV dh db v) := by
  obtain ⟨M', hm⟩ := h.memo
  unfold memoGet at *
  rw [hm]
  exact lookup_map_append _ _ _ hg

theorem Reloc.memo_put {A B : DState} (h : Reloc dh db H0 A B) (key : Bytes) (v : GoVal) :
    Reloc dh db H0 (memoPut A key v) (memoPut B key (shiftV dh db v)) := by
  obtain ⟨M', hm⟩ := h.memo
  refine ⟨h.hdh, by simp [memoPut, h.stack], ⟨M'.filter (·.1 != key), ?_⟩, by simp [memoPut, h.heap], by simp [memoPut, h.proto], by simp [memoPut, h.nbig]⟩
  simp only [memoPut, hm, List.filter_append, List.map_cons, List.cons_append, List.filter_map]
  congr 1

end

end Ogorek
