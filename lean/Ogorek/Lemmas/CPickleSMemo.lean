import Ogorek.CPickleS
import Ogorek.Lemmas.CPickleRT
import Ogorek.Props.C02

/-!
  Decoding what CPython's pickler writes (C02), with the memo read: the memo invariant.

  `MemoInv p s st`: the decoder's memo holds exactly the keys `"0" … "n-1"` (so MEMOIZE, which numbers
  by the size of the memo, and the explicit PUT forms agree), and under every index the pickler may
  fetch again lies the value that stands for the object memoized there.
-/
namespace Ogorek

/-- The decoder value of what the pickler memoized under a key. -/
def valOf (p : Nat) : PKey → GoVal
  | .str _ s => .str s
  | .bytes _ s => .bytes s
  | .bytearray _ s => .bytearray s
  | .gEncode => .cls (sb "_codecs") (sb "encode")
  | .sLatin1 => .str (sb "latin1")
  | .gBytes => .cls (pybuiltinModuleE p) (sb "bytes")
  | .gBytearray => .cls (pybuiltinModuleE p) (sb "bytearray")

def MemoInv (p : Nat) (s : PSt) (st : DState) : Prop :=
  st.memo.length = s.n ∧ s.n ≤ 2 ^ 32 ∧
  (∀ k, k ∈ st.memo.map (·.1) → ∃ i, i < s.n ∧ k = natDigits i) ∧
  (∀ k idx, (k, idx) ∈ s.tab → idx < s.n ∧ memoGet st (natDigits idx) = some (valOf p k))

theorem MemoInv.memoOnly (p : Nat) : MemoOnly (MemoInv p) := by
  intro s st st' e h
  unfold MemoInv memoGet at *
  rw [e]; exact h

theorem natDigits_inj {a b : Nat} (h : natDigits a = natDigits b) : a = b := by
  have := congrArg digitsVal h
  rwa [digitsVal_natDigits, digitsVal_natDigits] at this

theorem PSt.find_mem {s : PSt} {k : PKey} {idx : Nat} (h : s.find k = some idx) : (k, idx) ∈ s.tab := by
  unfold PSt.find at h
  cases hf : s.tab.find? (fun e => decide (e.1 = k)) with
  | none => simp [hf] at h
  | some e =>
    simp only [hf, Option.map_some, Option.some.injEq] at h
    have hp := List.find?_some hf
    have hm := List.mem_of_find?_eq_some hf
    simp only [decide_eq_true_eq] at hp
    obtain ⟨a, b⟩ := e
    simp only at hp h
    subst hp; subst h
    exact hm

/-- After `memoPut` under the next index. -/
theorem MemoInv.put {p : Nat} {s : PSt} {st : DState} (h : MemoInv p s st) (hn : s.n < 2 ^ 32) (key : Option PKey) (r : GoVal)
    (hr : ∀ k, key = some k → r = valOf p k) :
    MemoInv p (s.put key) (memoPut st (natDigits s.n) r) := by
  obtain ⟨hlen, _, hkeys, hfacts⟩ := h
  unfold PSt.put
  have hfil : st.memo.filter (fun e => e.1 != natDigits s.n) = st.memo := by
    apply List.filter_eq_self.mpr
    intro e he
    obtain ⟨i, hi, hk⟩ := hkeys e.1 (List.mem_map_of_mem he)
    have : e.1 ≠ natDigits s.n := by
      rw [hk]; intro hh; have := natDigits_inj hh; omega
    simpa using this
  have hmemo : (memoPut st (natDigits s.n) r).memo = (natDigits s.n, r) :: st.memo := by
    simp only [memoPut]; rw [hfil]
  refine ⟨by rw [hmemo]; simp [hlen], by simp only; omega, ?_, ?_⟩
  · intro k hk
    rw [hmemo] at hk
    simp only [List.map_cons, List.mem_cons] at hk
    rcases hk with rfl | hk
    · exact ⟨s.n, by simp, rfl⟩
    · obtain ⟨i, hi, e⟩ := hkeys k hk
      exact ⟨i, by simp only; omega, e⟩
  · intro k idx hmem
    have hold : ∀ k idx, (k, idx) ∈ s.tab → idx < s.n + 1 ∧ memoGet (memoPut st (natDigits s.n) r) (natDigits idx) = some (valOf p k) := by
      intro k idx hm
      obtain ⟨hlt, hg⟩ := hfacts k idx hm
      refine ⟨by omega, ?_⟩
      unfold memoGet at hg ⊢
      rw [hmemo, List.lookup_cons]
      have : (natDigits idx == natDigits s.n) = false := by
        have : natDigits idx ≠ natDigits s.n := by intro hh; have := natDigits_inj hh; omega
        simpa using this
      rw [this]; exact hg
    cases key with
    | none => exact hold k idx hmem
    | some k0 =>
      simp only [List.mem_cons, Prod.mk.injEq] at hmem
      rcases hmem with ⟨rfl, rfl⟩ | hmem
      · refine ⟨by simp, ?_⟩
        unfold memoGet
        rw [hmemo, List.lookup_cons]
        simp [hr k rfl]
      · exact hold k idx hmem

section
variable {mc : MCfg} {hook : Hook} {c : ECfg}

/-- `memo_put` with the key it writes made explicit: with `n` entries in the memo every form writes under `"n"`. -/
theorem runs_put_key (p n : Nat) (hn : n < 2 ^ 32) :
    RunsP mc hook c (cpPut p n) (fun st => st.memo.length = n ∧ ∃ r rest, st.stack = r :: rest ∧ isMark r = false)
      (fun st st' => ∃ r rest, st.stack = r :: rest ∧ st' = memoPut st (natDigits n) r) := by
  unfold cpPut
  split
  · refine RunsP.one (parses_op 0x94 .memoize rfl parseArg_148) ?_
    intro pos st _ ⟨hl, v, s, hs, hm⟩
    refine ⟨memoPut st (natDigits n) v, ?_, rfl, v, s, hs, rfl⟩
    simp [exec, hs, userOK_nm hm, bind, Except.bind, pure, Except.pure, memoKey, hl]
  · split
    · split
      · rename_i h256
        have hb : (UInt8.ofNat n).toNat = n := by simp [UInt8.toNat_ofNat']; omega
        refine RunsP.one (i := .put (natDigits n)) (Parses.single rfl fun t => ?_) ?_
        · simp [parseInsn, Rd.bind, readByte, parseArg_113, Rd.map, Rd.pure, memoKey, hb]
        · intro pos st _ ⟨_, v, s, hs, hm⟩
          exact ⟨_, exec_put pos st _ hs hm, rfl, v, s, hs, rfl⟩
      · refine RunsP.one (i := .put (natDigits n)) (Parses.single rfl fun t => ?_) ?_
        · have e : (114 :: le4 n) ++ t = 114 :: (natLE 4 n ++ t) := by simp [le4]
          rw [e]
          simp [parseInsn, Rd.bind, readByte, parseArg_114, Rd.map, Rd.pure, readFull_exact 4 _ t (natLE_length 4 _), memoKey,
            leNat_natLE_of_lt (show n < 256 ^ 4 by omega)]
        · intro pos st _ ⟨_, v, s, hs, hm⟩
          exact ⟨_, exec_put pos st _ hs hm, rfl, v, s, hs, rfl⟩
    · refine RunsP.one (i := .put (natDigits n)) (Parses.single rfl fun t => ?_) ?_
      · have e : (112 :: natDigits n ++ [10]) ++ t = 112 :: (natDigits n ++ 10 :: t) := by simp
        rw [e]
        have hl : (10 : UInt8) ∉ natDigits n := natDigits_no n 10 (by decide)
        simp [parseInsn, Rd.bind, readByte, parseArg_112, Rd.map, Rd.pure, readLine_line _ _ hl]
      · intro pos st _ ⟨_, v, s, hs, hm⟩
        exact ⟨_, exec_put pos st _ hs hm, rfl, v, s, hs, rfl⟩

/-- `memo_put` keeps the invariant, adding the new fact (or nothing is written and nothing changes). -/
theorem putOK_S {mz : Option PKey → Bool} (p : Nat) (s s' : PSt) (key : Option PKey) (pb : Bytes) (h : putS mz p s key = some (pb, s')) :
    PutOK mc hook c (MemoInv p) pb (fun r => ∀ k, key = some k → r = valOf p k) s s' := by
  unfold putS at h
  by_cases hm : mz key = true
  · simp only [hm, if_true] at h
    unfold putS1 at h
    by_cases hn : s.n < 2 ^ 32
    · simp only [hn, if_true, Option.some.injEq, Prod.mk.injEq] at h
      obtain ⟨rfl, rfl⟩ := h
      refine RunsP.weaken (runs_put_key p s.n hn) ?_ ?_
      · intro st ⟨hinv, r, rest, hs, hm', _⟩
        exact ⟨hinv.1, r, rest, hs, hm'⟩
      · intro st st' ⟨hinv, r0, rest0, hs0, _, hv⟩ _ ⟨r, rest, hs, e⟩
        rw [hs0] at hs
        injection hs with h1 h2
        subst h1; subst h2
        subst e
        exact ⟨hinv.put hn key r0 hv, rfl, rfl⟩
    · simp [hn] at h
  · simp only [hm, Bool.false_eq_true, if_false, Option.some.injEq, Prod.mk.injEq] at h
    obtain ⟨rfl, rfl⟩ := h
    refine RunsP.weaken RunsP.nil (fun _ h => h) ?_
    intro st st' hp _ e
    subst e
    exact ⟨hp.1, rfl, rfl⟩

/-- `memo_get` of something the pickler memoized: the value stored for it is pushed. -/
theorem runs_get (p : Nat) (s : PSt) (k : PKey) (idx : Nat) (hf : s.find k = some idx) :
    RunsP mc hook c (cpGet p idx) (MemoInv p s)
      (fun st st' => MemoInv p s st' ∧ st'.stack = valOf p k :: st.stack ∧ st'.heap = st.heap) := by
  have hmem := PSt.find_mem hf
  have hex : ∀ pos st, MemoInv p s st → exec mc hook (.get (natDigits idx)) pos st = .ok (push st (valOf p k)) := by
    intro pos st hinv
    obtain ⟨_, hg⟩ := hinv.2.2.2 k idx hmem
    simp [exec, hg]
  have hfin : ∀ pos st, ProtoOK c st → MemoInv p s st → ∃ st', exec mc hook (.get (natDigits idx)) pos st = .ok st' ∧
      st'.proto = st.proto ∧ MemoInv p s st' ∧ st'.stack = valOf p k :: st.stack ∧ st'.heap = st.heap := by
    intro pos st _ hinv
    exact ⟨_, hex pos st hinv, rfl, MemoInv.memoOnly p s st _ rfl hinv, rfl, rfl⟩
  unfold cpGet
  split
  · split
    · rename_i h256
      have hb : (UInt8.ofNat idx).toNat = idx := by simp [UInt8.toNat_ofNat']; omega
      refine RunsP.one (i := .get (natDigits idx)) (Parses.single rfl fun t => ?_) hfin
      simp [parseInsn, Rd.bind, readByte, parseArg_104, Rd.map, Rd.pure, memoKey, hb]
    · refine RunsP.one (i := .get (memoKey (leNat (natLE 4 idx)))) (Parses.single rfl fun t => ?_) ?_
      · have e : (106 :: le4 idx) ++ t = 106 :: (natLE 4 idx ++ t) := by simp [le4]
        rw [e]
        simp [parseInsn, Rd.bind, readByte, parseArg_106, Rd.map, Rd.pure, readFull_exact 4 _ t (natLE_length 4 _)]
      · intro pos st hpo hinv
        -- the index is below the number of entries, which is at most 2^32
        have hlt : idx < 2 ^ 32 := by
          have := (hinv.2.2.2 k idx hmem).1
          have := hinv.2.1
          omega
        have hk : memoKey (leNat (natLE 4 idx)) = natDigits idx := by
          rw [leNat_natLE_of_lt (show idx < 256 ^ 4 by omega)]; rfl
        rw [hk]
        exact hfin pos st hpo hinv
  · refine RunsP.one (i := .get (natDigits idx)) (Parses.single rfl fun t => ?_) hfin
    have e : (103 :: natDigits idx ++ [10]) ++ t = 103 :: (natDigits idx ++ 10 :: t) := by simp
    rw [e]
    have hl : (10 : UInt8) ∉ natDigits idx := natDigits_no idx 10 (by decide)
    simp [parseInsn, Rd.bind, readByte, parseArg_103, Rd.map, Rd.pure, readLine_line _ _ hl]

end

end Ogorek
