import Ogorek.Lemmas.CPickleCont

/-!
  Decoding what CPython's pickler writes (C02): the SETITEM / SETITEMS groups that fill a dict
  created empty.  The dict lives in the heap and is updated in place; the keys and values decoded
  so far stay valid because they only refer to objects allocated after the dict (`RepG` locality).
-/
namespace Ogorek

theorem freshOver_split {eqf : GoVal → GoVal → Bool} : (a b old : List GoVal) → freshOver eqf old (a ++ b) →
    freshOver eqf (old ++ a) b
  | [], b, old, h => by simpa using h
  | k :: a, b, old, h => by
    simp only [List.cons_append, freshOver] at h
    have := freshOver_split a b (old ++ [k]) h.2
    simpa [List.append_assoc] using this

theorem freshOverB_prefix {eqf : GoVal → GoVal → Bool} : (a b old : List GoVal) → freshOverB eqf old (a ++ b) = true →
    freshOverB eqf old a = true
  | [], _, _, _ => rfl
  | k :: a, b, old, h => by
    simp only [List.cons_append, freshOverB, Bool.and_eq_true] at h ⊢
    exact ⟨h.1, freshOverB_prefix a b _ h.2⟩

theorem keysOK_prefix (cfg : Cfg) (rk : Bool) (a b : Entries) (h : keysOK cfg rk (a ++ b) = true) : keysOK cfg rk a = true := by
  unfold keysOK at *
  by_cases hpd : cfg.pyDict = true
  · simp only [hpd, if_true] at h ⊢
    rw [Bool.and_eq_true] at h ⊢
    rw [List.all_append, Bool.and_eq_true, List.map_append] at h
    exact ⟨h.1.1, freshOverB_prefix _ _ _ h.2⟩
  · simp only [hpd, Bool.false_eq_true, if_false] at h ⊢
    rw [Bool.and_eq_true] at h ⊢
    rw [List.all_append, Bool.and_eq_true, List.map_append] at h
    exact ⟨h.1.1, freshOverB_prefix _ _ _ h.2⟩

theorem goOfPairs_append : (a b : List (PyObj × PyObj)) → goOfPairs (a ++ b) = goOfPairs a ++ goOfPairs b
  | [], _ => rfl
  | (k, v) :: a, b => by simp [goOfPairs, goOfPairs_append a b]

section
variable {mc : MCfg} {hook : Hook} {c : ECfg} {ρ : GoVal → GoVal} {rk : Bool}

/-- One more batch of entries goes into a table that already holds `es0`: given that the keys of all of
    them are `keysOK`, every assignment adds a new entry. -/
theorem assignAll_batch (hρ : rk = true → ∀ p, ρ p = .ref p) {h : List HObj} (kvs es0 es1 : Entries)
    (hk : keysOK mc.cfg rk kvs = true) (hp : RepPairs mc ρ h (es0 ++ es1) kvs) :
    assignAll (dictKind mc.cfg) es0 (flatE es1) = some (es0 ++ es1) := by
  have hkeys := hp.keys
  unfold keysOK at hk
  unfold dictKind
  by_cases hpd : mc.cfg.pyDict = true
  · simp only [hpd, if_true, Bool.and_eq_true, List.all_eq_true] at hk ⊢
    obtain ⟨hall, hfresh⟩ := hk
    have hkl := keyLikeList_of_all (su := mc.cfg.su) kvs (fun e he => (hall e he).1)
    have hh : ∀ e ∈ es0 ++ es1, hashable e.1 = true := by
      intro e he
      obtain ⟨x, hx, h1, h2⟩ := RepList.mem hkeys hkl e.1 (List.mem_map_of_mem he)
      rw [Rep.hashable_eq hρ h1 h2]
      obtain ⟨kv, hkv, rfl⟩ := List.mem_map.mp hx
      exact (hall kv hkv).2
    have hf := freshOver_rep hρ (kvs.map (·.1)) ((es0 ++ es1).map (·.1)) [] [] hkeys hkl (by simp [RepList]) rfl
      (freshOver_of_B [] _ hfresh)
    rw [List.map_append] at hf
    have hf2 := freshOver_split _ _ [] hf
    exact assignAll_dict_append es1 es0 (fun e he => hh e (List.mem_append_right _ he)) (by simpa using hf2)
  · simp only [hpd, Bool.false_eq_true, if_false, Bool.and_eq_true, List.all_eq_true] at hk ⊢
    obtain ⟨hall, hfresh⟩ := hk
    have hpl : ∀ k ∈ kvs.map (·.1), mapKeyPlain mc.cfg.su rk k = true := by
      intro k hk'
      obtain ⟨kv, hkv, rfl⟩ := List.mem_map.mp hk'
      exact hall kv hkv
    have heq := RepList.eq_of_plain hρ hkeys hpl
    have hh : ∀ e ∈ es0 ++ es1, goMapHashable e.1 = true := by
      intro e he
      have : e.1 ∈ kvs.map (·.1) := by rw [← heq]; exact List.mem_map_of_mem he
      exact goMapHashable_of_plain _ (hpl _ this)
    have hf := freshOver_of_B [] _ hfresh
    rw [← heq, List.map_append] at hf
    have hf2 := freshOver_split _ _ [] hf
    exact assignAll_map_append es1 es0 (fun e he => hh e (List.mem_append_right _ he)) (by simpa using hf2)

end

section
variable {mc : MCfg} {hook : Hook} {c : ECfg} {σ : Type} {I : σ → DState → Prop}

def DictTop (cfg : Cfg) (kvs0 : List (PyObj × PyObj)) (st : DState) : Prop :=
  ∃ id s0 es0, st.stack = .href id :: s0 ∧ st.heap[id]? = some { kind := dictKind cfg, kvs := es0 } ∧
    RepGPairs cfg (id + 1) st.heap es0 kvs0

/-- From a dict (holding entries for `kvs0`) on top of the stack: it gets entries for `kvs1` added in place;
    the stack and every other old heap object stay. -/
def DictQ (cfg : Cfg) (kvs0 kvs1 : List (PyObj × PyObj)) (st st' : DState) : Prop :=
  ∀ id s0 es0, st.stack = .href id :: s0 → st.heap[id]? = some { kind := dictKind cfg, kvs := es0 } →
    RepGPairs cfg (id + 1) st.heap es0 kvs0 →
    ∃ es1, st'.stack = .href id :: s0 ∧ st'.heap[id]? = some { kind := dictKind cfg, kvs := es0 ++ es1 } ∧
      RepGPairs cfg (id + 1) st'.heap (es0 ++ es1) (kvs0 ++ kvs1) ∧ st.heap.length ≤ st'.heap.length ∧
      (∀ i, i < st.heap.length → i ≠ id → st'.heap[i]? = st.heap[i]?)

theorem dictKind_not_list (cfg : Cfg) : (dictKind cfg == HKind.list) = false := by
  unfold dictKind; split <;> rfl

/-- What the group's closing SETITEM(S) finds and does. -/
theorem dict_assign_core (st st1 : DState) (id : Nat) (es0 : Entries) (kvs0 kvsg : List (PyObj × PyObj)) (rs : List GoVal)
    (hh : st.heap[id]? = some { kind := dictKind mc.cfg, kvs := es0 }) (hr0 : RepGPairs mc.cfg (id + 1) st.heap es0 kvs0)
    (hr : RepGList mc.cfg st.heap.length st1.heap rs (flatPy kvsg)) (hk : KeepsH st st1)
    (hkeys : keysOK mc.cfg false (goOfPairs (kvs0 ++ kvsg)) = true) :
    ∃ es1, rs = flatE es1 ∧ st1.heap[id]? = some { kind := dictKind mc.cfg, kvs := es0 } ∧
      assignAll (dictKind mc.cfg) es0 rs = some (es0 ++ es1) ∧
      RepGPairs mc.cfg (id + 1) (st1.heap.set id { kind := dictKind mc.cfg, kvs := es0 ++ es1 }) (es0 ++ es1) (kvs0 ++ kvsg) := by
  have hlt : id < st.heap.length := getElem?_lt_of_some hh
  obtain ⟨es1, rfl, hp1⟩ := repGPairs_of_flat kvsg rs hr
  have h0 : RepGPairs mc.cfg (id + 1) st1.heap es0 kvs0 :=
    RepGPairs.congr mc.cfg (hk.2.mono (Nat.zero_le _)) (Nat.le_refl _) es0 kvs0 hr0
  have h1 : RepGPairs mc.cfg (id + 1) st1.heap es1 kvsg :=
    RepGPairs.congr mc.cfg (AgreeFrom.refl _ _) (by omega) es1 kvsg hp1
  have hall := RepGPairs.append h0 h1
  have hrep := RepGPairs.toRep mc _root_.id (es0 ++ es1) (kvs0 ++ kvsg) hall
  refine ⟨es1, rfl, (hk.2 id (Nat.zero_le _) hlt).trans hh, ?_, ?_⟩
  · exact assignAll_batch (mc := mc) (ρ := _root_.id) (rk := false) (fun h => by cases h) _ es0 es1 hkeys hrep
  · exact RepGPairs.congr mc.cfg (AgreeFrom.set _ id _ (Nat.lt_succ_self id)) (Nat.le_refl _) _ _ hall

theorem runs_dictGroup (hI : MemoOnly I) (kvs0 : List (PyObj × PyObj)) (g : Grp (PyObj × PyObj)) {s s' : σ}
    (hf : FragsGN mc hook c I (g.items.map (·.1)) (g.items.map fun x => [x.2.1, x.2.2]) s s')
    (hkeys : keysOK mc.cfg false (goOfPairs (kvs0 ++ g.items.map (·.2))) = true) :
    RunsP mc hook c (encGrp 115 117 g) (fun st => I s st ∧ DictTop mc.cfg kvs0 st)
      (fun st st' => I s' st' ∧ DictQ mc.cfg kvs0 (g.items.map (·.2)) st st') := by
  cases g with
  | single x =>
    simp only [Grp.items, List.map_cons, List.map_nil, FragsGN] at hf hkeys
    obtain ⟨s1, hf1, rfl⟩ := hf
    simp only [encGrp, Grp.items, List.map_cons, List.map_nil]
    refine RunsP.snoc (RunsP.weaken hf1 (fun _ h => h.1) (fun _ _ _ _ q => q)) (parses_op 115 .setitem rfl parseArg_115) ?_
    intro pos st st' ⟨_, id, s0, es0, hs, hh, hr0⟩ _ ⟨hj, rs, hst, hr, hk⟩
    have hr' : RepGList mc.cfg st.heap.length st'.heap rs (flatPy [x.2]) := by simpa [flatPy] using hr
    obtain ⟨es1, hrs, hh1, hass, hrep⟩ := dict_assign_core st st' id es0 kvs0 [x.2] rs hh hr0 hr' hk hkeys
    obtain ⟨rk, rv, rfl⟩ : ∃ rk rv, es1 = [(rk, rv)] := by
      have hl := hr.length
      rw [hrs, flatE_length] at hl
      match es1, hl with
      | [(a, b)], _ => exact ⟨a, b, rfl⟩
      | [], h => simp at h
      | _ :: _ :: _, h => simp at h; omega
    subst hrs
    have hmk : isMark rk = false := hr.no_mark rk (by simp [flatE])
    have hmv : isMark rv = false := hr.no_mark rv (by simp [flatE])
    have hst' : st'.stack = rv :: rk :: .href id :: s0 := by rw [hst, hs]; simp [flatE]
    have hta : tryAssign (dictKind mc.cfg) es0 rk rv = some (es0 ++ [(rk, rv)]) := by
      simp only [flatE, assignAll] at hass
      cases ht : tryAssign (dictKind mc.cfg) es0 rk rv with
      | none => rw [ht] at hass; simp at hass
      | some es' => rw [ht] at hass; simpa [assignAll] using hass
    have hlt : id < st'.heap.length := getElem?_lt_of_some hh1
    refine ⟨heapSet { st' with stack := .href id :: s0 } id { kind := dictKind mc.cfg, kvs := es0 ++ [(rk, rv)] }, ?_, rfl,
      hI _ st' _ rfl hj, ?_⟩
    · simp only [exec, xpop, hst', bind, Except.bind, userOK_nm hmk, userOK_nm hmv, pure, Except.pure]
      simp [hh1, dictKind_not_list, hta, heapSet]
    · intro id' s0' es0' hs' hh' _
      rw [hs] at hs'
      injection hs' with h1 h2
      injection h1 with h1
      subst h1; subst h2
      rw [hh] at hh'
      injection hh' with hh'
      injection hh' with _ hes _
      subst hes
      refine ⟨[(rk, rv)], rfl, ?_, by simpa [heapSet] using hrep, by simp [heapSet]; exact hk.1, ?_⟩
      · simp [heapSet, List.getElem?_set_self hlt]
      · intro i hi hne
        simp only [heapSet]
        rw [List.getElem?_set_ne (Ne.symm hne)]
        exact hk.2 i (Nat.zero_le _) hi
  | multi xs =>
    simp only [Grp.items] at hf hkeys ⊢
    have hfl := FragsGN.flatten hf
    rw [flatten_map_pair] at hfl
    show RunsP mc hook c ((40 :: (xs.map (·.1)).flatten) ++ [117]) _ _
    refine RunsP.snoc (RunsP.weaken (PushesGN.marked hI hfl) (fun _ h => h.1) (fun _ _ _ _ q => q)) (parses_op 117 .setitems rfl parseArg_117) ?_
    intro pos st st' ⟨_, id, s0, es0, hs, hh, hr0⟩ _ ⟨hj, rs, hst, hr, hk⟩
    obtain ⟨es1, hrs, hh1, hass, hrep⟩ := dict_assign_core st st' id es0 kvs0 (xs.map (·.2)) rs hh hr0 hr hk hkeys
    have hst' : st'.stack = rs.reverse ++ .mark :: .href id :: s0 := by rw [hst, hs]
    have hlt : id < st'.heap.length := getElem?_lt_of_some hh1
    refine ⟨heapSet { st' with stack := .href id :: s0 } id { kind := dictKind mc.cfg, kvs := es0 ++ es1 }, ?_, rfl,
      hI _ st' _ rfl hj, ?_⟩
    · have hsp : splitAtMark st'.stack = some (rs.reverse, .href id :: s0) := by
        rw [hst']
        exact splitAtMark_append rs.reverse _ (fun r hr' => hr.no_mark r (by simpa using hr'))
      have heven : ¬ (rs.reverse.length % 2 ≠ 0) := by rw [hrs]; simp [flatE_length]
      simp only [exec, hsp, heven, if_false, List.reverse_reverse, hh1, dictKind_not_list, hass]
      simp [heapSet]
    · intro id' s0' es0' hs' hh' _
      rw [hs] at hs'
      injection hs' with h1 h2
      injection h1 with h1
      subst h1; subst h2
      rw [hh] at hh'
      injection hh' with hh'
      injection hh' with _ hes _
      subst hes
      refine ⟨es1, rfl, ?_, by simpa [heapSet] using hrep, by simp [heapSet]; exact hk.1, ?_⟩
      · simp [heapSet, List.getElem?_set_self hlt]
      · intro i hi hne
        simp only [heapSet]
        rw [List.getElem?_set_ne (Ne.symm hne)]
        exact hk.2 i (Nat.zero_le _) hi

theorem runs_dictGroups (hI : MemoOnly I) : (gs : List (Grp (PyObj × PyObj))) → (kvs0 : List (PyObj × PyObj)) → {s s' : σ} →
    FragsGN mc hook c I ((grpItems gs).map (·.1)) ((grpItems gs).map fun x => [x.2.1, x.2.2]) s s' →
    keysOK mc.cfg false (goOfPairs (kvs0 ++ (grpItems gs).map (·.2))) = true →
    RunsP mc hook c (encGrps 115 117 gs) (fun st => I s st ∧ DictTop mc.cfg kvs0 st)
      (fun st st' => I s' st' ∧ DictQ mc.cfg kvs0 ((grpItems gs).map (·.2)) st st')
  | [], kvs0, s, _, hf, _ => by
    simp only [grpItems_nil, List.map_nil, FragsGN] at hf
    subst hf
    refine RunsP.weaken RunsP.nil (fun _ h => h) ?_
    intro st st' hp _ e
    subst e
    refine ⟨hp.1, ?_⟩
    intro id s0 es0 hs hh hr
    exact ⟨[], hs, by simpa using hh, by simpa using hr, Nat.le_refl _, fun _ _ _ => rfl⟩
  | g :: gs, kvs0, s, s', hf, hkeys => by
    simp only [grpItems_cons, List.map_append] at hf hkeys ⊢
    obtain ⟨sm, h1, h2⟩ := FragsGN.append_inv (by simp) hf
    rw [encGrps_cons]
    have hk1 : keysOK mc.cfg false (goOfPairs (kvs0 ++ g.items.map (·.2))) = true := by
      rw [← List.append_assoc, goOfPairs_append] at hkeys
      exact keysOK_prefix _ _ _ _ hkeys
    have hk2 : keysOK mc.cfg false (goOfPairs ((kvs0 ++ g.items.map (·.2)) ++ (grpItems gs).map (·.2))) = true := by
      rw [List.append_assoc]; exact hkeys
    refine RunsP.weaken (RunsP.seq (runs_dictGroup hI kvs0 g h1 hk1) (runs_dictGroups hI gs (kvs0 ++ g.items.map (·.2)) h2 hk2) ?_) (fun _ h => h) ?_
    · intro st st1 ⟨_, id, s0, es0, hs, hh, hr⟩ _ ⟨hj, q⟩
      obtain ⟨es1, hs1, hh1, hr1, _⟩ := q id s0 es0 hs hh hr
      exact ⟨hj, id, s0, es0 ++ es1, hs1, hh1, hr1⟩
    · intro st st2 _ _ ⟨st1, _, ⟨_, q1⟩, hj2, q2⟩
      refine ⟨hj2, ?_⟩
      intro id s0 es0 hs hh hr
      obtain ⟨es1, hs1, hh1, hr1, hl1, ho1⟩ := q1 id s0 es0 hs hh hr
      obtain ⟨es2, hs2, hh2, hr2, hl2, ho2⟩ := q2 id s0 (es0 ++ es1) hs1 hh1 hr1
      refine ⟨es1 ++ es2, hs2, by simpa [List.append_assoc] using hh2, by simpa [List.append_assoc] using hr2, Nat.le_trans hl1 hl2, ?_⟩
      intro i hi hne
      rw [ho2 i (by omega) hne, ho1 i hi hne]

end

end Ogorek
