import Ogorek.Lemmas.Rep

/-!
  Dict / map keys under `Rep`: a key comes back identical except that `*big.Int` objects are new
  allocations; equality (`goEqual`) and hashing (`hashTree`) do not look at the identity of a
  big int, so the decoder's DICT rebuilds exactly the entries the encoder wrote.
-/
namespace Ogorek

set_option linter.unusedSimpArgs false

mutual
/-- Forget which allocation a `*big.Int` is. -/
def strip : GoVal → GoVal
  | .big _ i => .big 0 i
  | .tuple xs => .tuple (stripL xs)
  | .list xs => .list (stripL xs)
  | .call m n args => .call m n (stripL args)
  | .ref p => .ref (strip p)
  | v => v
def stripL : List GoVal → List GoVal
  | [] => []
  | x :: xs => strip x :: stripL xs
end

mutual
theorem goEqual_strip : (a b : GoVal) → goEqual (strip a) (strip b) = goEqual a b
  | .tuple xs, b => by
    cases b <;> simp [goEqual, strip]
    case tuple ys => exact goEqualList_strip xs ys
    case list ys => exact goEqualList_strip xs ys
  | .list xs, b => by
    cases b <;> simp [goEqual, strip]
    case tuple ys => exact goEqualList_strip xs ys
    case list ys => exact goEqualList_strip xs ys
  | .call m n args, b => by
    cases b <;> simp [goEqual, strip]
    case call m' n' args' => rw [goEqualList_strip args args']
  | .ref p, b => by
    cases b <;> simp [goEqual, strip]
    case ref q => exact goEqual_strip p q
  | .none, b => by cases b <;> simp [goEqual, strip, strKind?, numOf?]
  | .nil, b => by cases b <;> simp [goEqual, strip, strKind?, numOf?]
  | .bool _, b => by cases b <;> simp [goEqual, strip, strKind?, numOf?]
  | .int _, b => by cases b <;> simp [goEqual, strip, strKind?, numOf?]
  | .uint _, b => by cases b <;> simp [goEqual, strip, strKind?, numOf?]
  | .big _ _, b => by cases b <;> simp [goEqual, strip, strKind?, numOf?]
  | .float _, b => by cases b <;> simp [goEqual, strip, strKind?, numOf?]
  | .complex _ _, b => by cases b <;> simp [goEqual, strip, strKind?, numOf?]
  | .str _, b => by cases b <;> simp [goEqual, strip, strKind?, numOf?]
  | .bytestr _, b => by cases b <;> simp [goEqual, strip, strKind?, numOf?]
  | .bytes _, b => by cases b <;> simp [goEqual, strip, strKind?, numOf?]
  | .bytearray _, b => by cases b <;> simp [goEqual, strip, strKind?, numOf?]
  | .map _, b => by cases b <;> simp [goEqual, strip, strKind?, numOf?]
  | .dict _, b => by cases b <;> simp [goEqual, strip, strKind?, numOf?]
  | .cls _ _, b => by cases b <;> simp [goEqual, strip, strKind?, numOf?]
  | .user _, b => by cases b <;> simp [goEqual, strip, strKind?, numOf?]
  | .mark, b => by cases b <;> simp [goEqual, strip, strKind?, numOf?]
  | .href _, b => by cases b <;> simp [goEqual, strip, strKind?, numOf?]
  | .cycle, b => by cases b <;> simp [goEqual, strip, strKind?, numOf?]
theorem goEqualList_strip : (xs ys : List GoVal) → goEqualList (stripL xs) (stripL ys) = goEqualList xs ys
  | [], [] => by simp [goEqualList, stripL]
  | [], _ :: _ => by simp [goEqualList, stripL]
  | _ :: _, [] => by simp [goEqualList, stripL]
  | x :: xs, y :: ys => by
    simp only [goEqualList, stripL]
    rw [goEqual_strip x y, goEqualList_strip xs ys]
end

end Ogorek

namespace Ogorek

set_option linter.unusedSimpArgs false

mutual
theorem hashTree_strip : (a : GoVal) → hashTree (strip a) = hashTree a
  | .tuple xs => by simp [hashTree, strip, hashTreeList_strip xs]
  | .list _ => by simp [hashTree, strip]
  | .call m n args => by simp [hashTree, strip, hashTreeList_strip args]
  | .ref p => by simp [hashTree, strip, hashTree_strip p]
  | .big _ _ => by simp [hashTree, strip]
  | .none | .nil | .bool _ | .int _ | .uint _ | .float _ | .complex _ _ | .str _ | .bytestr _ | .bytes _
  | .bytearray _ | .map _ | .dict _ | .cls _ _ | .user _ | .mark | .href _ | .cycle => by simp [strip]
theorem hashTreeList_strip : (xs : List GoVal) → hashTreeList (stripL xs) = hashTreeList xs
  | [] => by simp [stripL]
  | x :: xs => by simp [stripL, hashTreeList, hashTree_strip x, hashTreeList_strip xs]
end

mutual
/-- Values that can be Dict keys (no list / dict / bytearray inside) and that come back unchanged but
    for the identity of big ints. `su`: the decoder's StrictUnicode (a ByteString key comes back as a
    string otherwise, which changes what it equals). -/
def keyLike (su rk : Bool) : GoVal → Bool
  | .none | .bool _ | .int _ | .float _ | .str _ | .bytes _ | .cls _ _ | .big _ _ => true
  | .bytestr _ => su
  | .tuple xs => keyLikeList su rk xs
  | .call _ _ args => keyLikeList su rk args
  | .ref p => rk && keyLike su rk p
  | _ => false
def keyLikeList (su rk : Bool) : List GoVal → Bool
  | [] => true
  | x :: xs => keyLike su rk x && keyLikeList su rk xs
end

mutual
theorem Rep.strip_eq {mc : MCfg} {ρ : GoVal → GoVal} {rk : Bool} (hρ : rk = true → ∀ p, ρ p = .ref p) {h : List HObj} {r : GoVal} : (k : GoVal) → Rep mc ρ h r k → keyLike mc.cfg.su rk k = true →
    strip r = strip k
  | .none, hr, _ | .bool _, hr, _ | .int _, hr, _ | .float _, hr, _ | .str _, hr, _ | .bytes _, hr, _ | .cls _ _, hr, _ => by
    simp only [Rep] at hr; subst hr; rfl
  | .big _ i, hr, _ => by
    simp only [Rep] at hr; obtain ⟨id, rfl⟩ := hr; simp [strip]
  | .bytestr s, hr, hk => by
    simp only [keyLike] at hk
    simp only [Rep, hk, if_true] at hr; subst hr; rfl
  | .tuple xs, hr, hk => by
    simp only [Rep] at hr; obtain ⟨rs, rfl, hl⟩ := hr
    simp only [keyLike] at hk
    simp [strip, RepList.strip_eq hρ xs hl hk]
  | .call m n args, hr, hk => by
    simp only [Rep] at hr; obtain ⟨rs, rfl, hl⟩ := hr
    simp only [keyLike] at hk
    simp [strip, RepList.strip_eq hρ args hl hk]
  | .ref p, hr, hk => by
    simp only [Rep] at hr; obtain ⟨q, rfl, _, hp⟩ := hr
    simp only [keyLike, Bool.and_eq_true] at hk
    rw [hρ hk.1 q]
    simp [strip, Rep.strip_eq hρ p hp hk.2]
  | .nil, _, hk | .uint _, _, hk | .complex _ _, _, hk | .bytearray _, _, hk | .list _, _, hk | .map _, _, hk
  | .dict _, _, hk | .user _, _, hk | .mark, _, hk | .href _, _, hk | .cycle, _, hk => by simp [keyLike] at hk
theorem RepList.strip_eq {mc : MCfg} {ρ : GoVal → GoVal} {rk : Bool} (hρ : rk = true → ∀ p, ρ p = .ref p) {h : List HObj} : {rs : List GoVal} → (xs : List GoVal) → RepList mc ρ h rs xs →
    keyLikeList mc.cfg.su rk xs = true → stripL rs = stripL xs
  | [], [], _, _ => rfl
  | [], _ :: _, hr, _ => by simp [RepList] at hr
  | _ :: _, [], hr, _ => by simp [RepList] at hr
  | r :: rs, x :: xs, hr, hk => by
    simp only [RepList] at hr
    simp only [keyLikeList, Bool.and_eq_true] at hk
    simp [stripL, Rep.strip_eq hρ x hr.1 hk.1, RepList.strip_eq hρ xs hr.2 hk.2]
end

/-- Equality between decoded keys is equality between the keys that were encoded. -/
theorem Rep.goEqual_eq {mc : MCfg} {ρ : GoVal → GoVal} {rk : Bool} (hρ : rk = true → ∀ p, ρ p = .ref p) {h : List HObj} {r1 r2 k1 k2 : GoVal} (h1 : Rep mc ρ h r1 k1) (h2 : Rep mc ρ h r2 k2)
    (hk1 : keyLike mc.cfg.su rk k1 = true) (hk2 : keyLike mc.cfg.su rk k2 = true) : goEqual r1 r2 = goEqual k1 k2 := by
  rw [← goEqual_strip r1 r2, Rep.strip_eq hρ k1 h1 hk1, Rep.strip_eq hρ k2 h2 hk2, goEqual_strip]

theorem Rep.hashable_eq {mc : MCfg} {ρ : GoVal → GoVal} {rk : Bool} (hρ : rk = true → ∀ p, ρ p = .ref p) {h : List HObj} {r k : GoVal} (h1 : Rep mc ρ h r k)
    (hk : keyLike mc.cfg.su rk k = true) : hashable r = hashable k := by
  unfold hashable
  rw [← hashTree_strip r, Rep.strip_eq hρ k h1 hk, hashTree_strip]

/-- Keys of builtin maps that come back literally: no `*big.Int` (a pointer: the decoded one is a
    different key by Go's `==`), no Tuple / Call (not comparable). -/
def mapKeyPlain (su rk : Bool) : GoVal → Bool
  | .none | .bool _ | .int _ | .float _ | .str _ | .bytes _ | .cls _ _ => true
  | .bytestr _ => su
  | .ref p => rk && mapKeyPlain su rk p
  | _ => false

theorem Rep.eq_of_plain {mc : MCfg} {ρ : GoVal → GoVal} {rk : Bool} (hρ : rk = true → ∀ p, ρ p = .ref p) {h : List HObj} {r : GoVal} : (k : GoVal) → Rep mc ρ h r k → mapKeyPlain mc.cfg.su rk k = true → r = k
  | .none, hr, _ | .bool _, hr, _ | .int _, hr, _ | .float _, hr, _ | .str _, hr, _ | .bytes _, hr, _ | .cls _ _, hr, _ => by
    simp only [Rep] at hr; exact hr
  | .bytestr s, hr, hk => by
    simp only [mapKeyPlain] at hk
    simp only [Rep, hk, if_true] at hr; exact hr
  | .ref p, hr, hk => by
    simp only [Rep] at hr; obtain ⟨q, rfl, _, hp⟩ := hr
    simp only [mapKeyPlain, Bool.and_eq_true] at hk
    rw [hρ hk.1 q, Rep.eq_of_plain hρ p hp hk.2]
  | .nil, _, hk | .uint _, _, hk | .complex _ _, _, hk | .bytearray _, _, hk | .list _, _, hk | .map _, _, hk | .big _ _, _, hk
  | .dict _, _, hk | .user _, _, hk | .mark, _, hk | .href _, _, hk | .cycle, _, hk | .tuple _, _, hk | .call _ _ _, _, hk => by
    simp [mapKeyPlain] at hk

end Ogorek

namespace Ogorek

/-! ### DICT rebuilds the entries -/

/-- `k1 v1 k2 v2 …`: what the encoder writes between MARK and DICT, and what DICT finds above the mark. -/
def flatE : Entries → List GoVal
  | [] => []
  | (k, v) :: r => k :: v :: flatE r

theorem flatE_length (es : Entries) : (flatE es).length = 2 * es.length := by
  induction es with
  | nil => rfl
  | cons e es ih => obtain ⟨k, v⟩ := e; simp [flatE, ih]; omega

/-- Each key differs (under `eqf`, new key first) from all keys before it and from `old`. -/
def freshOver (eqf : GoVal → GoVal → Bool) : List GoVal → List GoVal → Prop
  | _, [] => True
  | old, k :: ks => (∀ o ∈ old, eqf k o = false) ∧ freshOver eqf (old ++ [k]) ks

theorem filter_none_eq {es : Entries} {p : GoVal × GoVal → Bool} (h : ∀ e ∈ es, p e = true) : es.filter p = es :=
  List.filter_eq_self.mpr h

theorem assignAll_dict_append : (reps es0 : Entries) → (∀ e ∈ reps, hashable e.1 = true) →
    freshOver goEqual (es0.map (·.1)) (reps.map (·.1)) → assignAll .dict es0 (flatE reps) = some (es0 ++ reps)
  | [], es0, _, _ => by simp [flatE, assignAll]
  | (k, v) :: reps, es0, hh, hf => by
    simp only [List.map_cons, freshOver] at hf
    have hk : hashable k = true := hh (k, v) (by simp)
    have hset : dictSetSpec es0 k v = es0 ++ [(k, v)] := by
      unfold dictSetSpec
      rw [filter_none_eq]
      intro e he
      have := hf.1 e.1 (List.mem_map_of_mem he)
      simp [this]
    have ih := assignAll_dict_append reps (es0 ++ [(k, v)]) (fun e he => hh e (by simp [he])) (by simpa using hf.2)
    simp only [flatE, assignAll, tryAssign, hk, if_true, hset, ih]
    simp

theorem assignAll_map_append : (reps es0 : Entries) → (∀ e ∈ reps, goMapHashable e.1 = true) →
    freshOver goKeyEq (es0.map (·.1)) (reps.map (·.1)) → assignAll .map es0 (flatE reps) = some (es0 ++ reps)
  | [], es0, _, _ => by simp [flatE, assignAll]
  | (k, v) :: reps, es0, hh, hf => by
    simp only [List.map_cons, freshOver] at hf
    have hk : goMapHashable k = true := hh (k, v) (by simp)
    have hset : mapSet es0 k v = es0 ++ [(k, v)] := by
      unfold mapSet
      rw [filter_none_eq]
      intro e he
      have := hf.1 e.1 (List.mem_map_of_mem he)
      simp [this]
    have ih := assignAll_map_append reps (es0 ++ [(k, v)]) (fun e he => hh e (by simp [he])) (by simpa using hf.2)
    simp only [flatE, assignAll, tryAssign, hk, if_true, hset, ih]
    simp

/-- The values above the mark are the entries' keys and values alternating. -/
theorem repPairs_of_flat {mc : MCfg} {ρ : GoVal → GoVal} {h : List HObj} : (kvs : Entries) → (rs : List GoVal) → RepList mc ρ h rs (flatE kvs) →
    ∃ es, rs = flatE es ∧ RepPairs mc ρ h es kvs
  | [], [], _ => ⟨[], rfl, by simp [RepPairs]⟩
  | [], _ :: _, hr => by simp [flatE, RepList] at hr
  | (k, v) :: kvs, [], hr => by simp [flatE, RepList] at hr
  | (k, v) :: kvs, [_], hr => by simp [flatE, RepList] at hr
  | (k, v) :: kvs, rk :: rv :: rs, hr => by
    simp only [flatE, RepList] at hr
    obtain ⟨es, rfl, hp⟩ := repPairs_of_flat kvs rs hr.2.2
    exact ⟨(rk, rv) :: es, rfl, by simp only [RepPairs]; exact ⟨hr.1, hr.2.1, hp⟩⟩

theorem RepPairs.keys {mc : MCfg} {ρ : GoVal → GoVal} {h : List HObj} : {es kvs : Entries} → RepPairs mc ρ h es kvs →
    RepList mc ρ h (es.map (·.1)) (kvs.map (·.1))
  | [], [], _ => by simp [RepList]
  | [], _ :: _, hr => by simp [RepPairs] at hr
  | _ :: _, [], hr => by simp [RepPairs] at hr
  | (rk, rv) :: es, (k, v) :: kvs, hr => by
    simp only [RepPairs] at hr
    simp only [List.map_cons, RepList]
    exact ⟨hr.1, RepPairs.keys hr.2.2⟩

theorem RepList.mem {mc : MCfg} {ρ : GoVal → GoVal} {h : List HObj} {su rk : Bool} : {rs xs : List GoVal} → RepList mc ρ h rs xs → keyLikeList su rk xs = true →
    ∀ r ∈ rs, ∃ x ∈ xs, Rep mc ρ h r x ∧ keyLike su rk x = true
  | [], [], _, _ => by simp
  | [], _ :: _, hr, _ => by simp [RepList] at hr
  | _ :: _, [], hr, _ => by simp [RepList] at hr
  | r :: rs, x :: xs, hr, hk => by
    simp only [RepList] at hr
    simp only [keyLikeList, Bool.and_eq_true] at hk
    intro y hy
    rcases List.mem_cons.mp hy with rfl | hy
    · exact ⟨x, by simp, hr.1, hk.1⟩
    · obtain ⟨z, hz, h1, h2⟩ := RepList.mem hr.2 hk.2 y hy
      exact ⟨z, by simp [hz], h1, h2⟩

theorem keyLikeList_snoc {su rk : Bool} : (xs : List GoVal) → (x : GoVal) → keyLikeList su rk xs = true → keyLike su rk x = true →
    keyLikeList su rk (xs ++ [x]) = true
  | [], x, _, hx => by simp [keyLikeList, hx]
  | y :: ys, x, hxs, hx => by
    simp only [keyLikeList, Bool.and_eq_true, List.cons_append] at hxs ⊢
    exact ⟨hxs.1, keyLikeList_snoc ys x hxs.2 hx⟩

/-- Freshness of the encoded keys carries over to the decoded keys (Dict mode). -/
theorem freshOver_rep {mc : MCfg} {ρ : GoVal → GoVal} {rk : Bool} (hρ : rk = true → ∀ p, ρ p = .ref p) {h : List HObj} : (ks rks : List GoVal) → (old rold : List GoVal) →
    RepList mc ρ h rks ks → keyLikeList mc.cfg.su rk ks = true → RepList mc ρ h rold old → keyLikeList mc.cfg.su rk old = true →
    freshOver goEqual old ks → freshOver goEqual rold rks
  | [], [], _, _, _, _, _, _, _ => by simp [freshOver]
  | [], _ :: _, _, _, hr, _, _, _, _ => by simp [RepList] at hr
  | _ :: _, [], _, _, hr, _, _, _, _ => by simp [RepList] at hr
  | k :: ks, rk' :: rks, old, rold, hr, hk, hro, hko, hf => by
    simp only [RepList] at hr
    simp only [keyLikeList, Bool.and_eq_true] at hk
    simp only [freshOver] at hf ⊢
    refine ⟨?_, freshOver_rep hρ ks rks (old ++ [k]) (rold ++ [rk']) hr.2 hk.2 (RepList.snoc hro hr.1)
      (keyLikeList_snoc old k hko hk.1) hf.2⟩
    intro o ho
    obtain ⟨x, hx, h1, h2⟩ := RepList.mem hro hko o ho
    rw [Rep.goEqual_eq hρ hr.1 h1 hk.1 h2]
    exact hf.1 x hx

end Ogorek
