import Ogorek.Lemmas.PkRT

/-!
  CPython's unpickler on CPython's pickler: lists and dicts (created empty, memoized, filled in place), and the
  induction over the object.
-/
namespace Ogorek

section
variable {p : Nat} {mz : Option PKey → Bool}

/-- `]` (or `(l`): a new empty list in the heap. -/
theorem pruns_openList (s : PSt) :
    PRunsP (ecfg p) (if p ≥ 1 then [93] else [40, 108]) (PMemoInv p s)
      (fun st st' => PMemoInv p s st' ∧ st'.stack = .obj st.heap.length :: st.stack ∧ st'.metas = st.metas ∧
        st'.heap = st.heap ++ [.list []]) := by
  split
  · refine PRunsP.one (parses_op 93 .emptyList rfl parseArg_93) ?_
    intro st _ hj
    exact ⟨ppush { st with heap := st.heap ++ [.list []] } (.obj st.heap.length), by simp [pexec, palloc], rfl,
      hj.stable rfl (KeepsBA.append _ _), rfl, rfl, rfl⟩
  · have hp : Parses [40, 108] [.mark, .list] := by
      simpa using Parses.append (parses_op 40 .mark rfl parseArg_40) (parses_op 108 .list rfl parseArg_108)
    refine ⟨[.mark, .list], hp, rfl, fun st _ hj => ?_⟩
    refine ⟨{ st with heap := st.heap ++ [.list []], stack := .obj st.heap.length :: st.stack }, ?_, rfl,
      hj.stable rfl (KeepsBA.append _ _), rfl, rfl, rfl⟩
    simp [prunFrom, pexec, popMark, palloc, ppush, bind, Except.bind, pure, Except.pure]

/-- `}` (or `(d`): a new empty dict in the heap. -/
theorem pruns_openDict (s : PSt) :
    PRunsP (ecfg p) (if p ≥ 1 then [125] else [40, 100]) (PMemoInv p s)
      (fun st st' => PMemoInv p s st' ∧ st'.stack = .obj st.heap.length :: st.stack ∧ st'.metas = st.metas ∧
        st'.heap = st.heap ++ [.dict []]) := by
  split
  · refine PRunsP.one (parses_op 125 .emptyDict rfl parseArg_125) ?_
    intro st _ hj
    exact ⟨ppush { st with heap := st.heap ++ [.dict []] } (.obj st.heap.length), by simp [pexec, palloc], rfl,
      hj.stable rfl (KeepsBA.append _ _), rfl, rfl, rfl⟩
  · have hp : Parses [40, 100] [.mark, .dict] := by
      simpa using Parses.append (parses_op 40 .mark rfl parseArg_40) (parses_op 100 .dict rfl parseArg_100)
    refine ⟨[.mark, .dict], hp, rfl, fun st _ hj => ?_⟩
    refine ⟨{ st with heap := st.heap ++ [.dict []], stack := .obj st.heap.length :: st.stack }, ?_, rfl,
      hj.stable rfl (KeepsBA.append _ _), rfl, rfl, rfl⟩
    simp [prunFrom, pexec, popMark, palloc, ppush, pyAssignAll, bind, Except.bind, pure, Except.pure]

theorem pputS_none_ok (s s' : PSt) (pb : Bytes) (h : putS mz p s none = some (pb, s')) :
    PPutOK (ecfg p) p pb (fun _ _ => True) s s' := by
  refine PRunsP.weaken (pputOK_S (c := ecfg p) p s s' none pb h) ?_ (fun _ _ _ _ q => q)
  intro st ⟨hj, r, rest, hs, _⟩
  exact ⟨hj, r, rest, hs, fun k hk => by cases hk⟩

/-- A list on the Python machine: created empty, memoized, filled in place. -/
theorem ppushesG_list (py : Bool) (pb : Bytes) (xs : List PyVal) (fs : List Bytes) {s s1 s' : PSt}
    (hput : PPutOK (ecfg p) p pb (fun _ _ => True) s s1)
    (hf : PFragsGN (ecfg p) p fs (xs.map fun x => [x]) s1 s') :
    PPushesG (ecfg p) p ((if p ≥ 1 then [93] else [40, 108]) ++ pb ++ cpBatchList py p fs) (.list xs) s s' := by
  have hlen : fs.length = xs.length := by simpa using hf.length
  obtain ⟨gs, e1, e2⟩ := batchList_groups py p (fs.zip xs)
  rw [List.map_fst_zip (by omega)] at e1
  have hsnd : (fs.zip xs).map (·.2) = xs := List.map_snd_zip (by omega)
  have hfst : (fs.zip xs).map (·.1) = fs := List.map_fst_zip (by omega)
  have hf' : PFragsGN (ecfg p) p ((grpItems gs).map (·.1)) ((grpItems gs).map fun x => [x.2]) s1 s' := by
    rw [e2, hfst]
    have : ((fs.zip xs).map fun x => [x.2]) = xs.map fun x => [x] := by
      have := congrArg (List.map fun x => [x]) hsnd
      simpa [List.map_map, Function.comp_def] using this
    rw [this]; exact hf
  have hg := pruns_listGroups (c := ecfg p) gs [] hf'
  rw [e2, hsnd] at hg
  rw [e1]
  refine PRunsP.weaken (PRunsP.seq (PRunsP.seq (pruns_openList s) hput ?_) hg ?_) (fun _ h => h) ?_
  · intro st st1 _ _ ⟨hj, hs, _⟩
    exact ⟨hj, _, _, hs, trivial⟩
  · intro st st2 _ _ ⟨st1, _, ⟨_, hs1, _, hh1⟩, hj2, hs2, _, hh2⟩
    refine ⟨hj2, st.heap.length, st.stack, [], by rw [hs2, hs1], ?_, by simp [PRepGList]⟩
    rw [hh2, hh1]; simp
  · intro st st3 _ _ ⟨st2, _, ⟨st1, _, ⟨_, hs1, hm1, hh1⟩, _, hs2, hm2, hh2⟩, hj3, q⟩
    have hs : st2.stack = .obj st.heap.length :: st.stack := by rw [hs2, hs1]
    have hh : st2.heap = st.heap ++ [.list []] := by rw [hh2, hh1]
    obtain ⟨rs, hs3, hm3, hh3, hr, hl, ho⟩ := q st.heap.length st.stack [] hs (by rw [hh]; simp) (by simp [PRepGList])
    have hl' : st.heap.length + 1 ≤ st3.heap.length := by rw [hh] at hl; simpa using hl
    refine ⟨hj3, .obj st.heap.length, hs3, by rw [hm3, hm2, hm1], ?_, ⟨by omega, ?_⟩⟩
    · simp only [PRepG]
      refine ⟨st.heap.length, rs, rfl, Nat.le_refl _, by simpa using hh3, ?_⟩
      exact PRepGList.congr (PAgreeFrom.refl _ _) (KeepsBA.refl _) (Nat.le_succ _) rs xs (by simpa using hr)
    · intro i _ hi
      rw [ho i (by rw [hh]; simp; omega) (by omega), hh, List.getElem?_append_left hi]

/-- A dict on the Python machine: created empty, memoized, filled in place; it ends up holding the pairs assigned one
    after another. -/
theorem ppushesG_dict (py : Bool) (pb : Bytes) (kvs : List (PyVal × PyVal)) (fs : List Bytes) {s s1 s' : PSt}
    (hput : PPutOK (ecfg p) p pb (fun _ _ => True) s s1)
    (hf : PFragsGN (ecfg p) p fs (kvs.map fun kv => [kv.1, kv.2]) s1 s')
    (hhash : (kvs.all fun e => pyHashable e.1) = true) (hnan : nanKeys kvs ≤ 1) :
    PPushesG (ecfg p) p ((if p ≥ 1 then [125] else [40, 100]) ++ pb ++ cpBatchDict py p fs) (.dict (pyDictOf kvs)) s s' := by
  have hlen : fs.length = kvs.length := by simpa using hf.length
  obtain ⟨gs, e1, e2⟩ := batchDict_groups py p (fs.zip kvs)
  rw [List.map_fst_zip (by omega)] at e1
  have hsnd : (fs.zip kvs).map (·.2) = kvs := List.map_snd_zip (by omega)
  have hfst : (fs.zip kvs).map (·.1) = fs := List.map_fst_zip (by omega)
  have hf' : PFragsGN (ecfg p) p ((grpItems gs).map (·.1)) ((grpItems gs).map fun x => [x.2.1, x.2.2]) s1 s' := by
    rw [e2, hfst]
    have : ((fs.zip kvs).map fun x => [x.2.1, x.2.2]) = kvs.map fun kv => [kv.1, kv.2] := by
      have := congrArg (List.map fun (kv : PyVal × PyVal) => [kv.1, kv.2]) hsnd
      simpa [List.map_map, Function.comp_def] using this
    rw [this]; exact hf
  have hg := pruns_dictGroups (c := ecfg p) gs [] hf' (by rw [e2, hsnd]; exact hhash) (by rw [e2, hsnd]; simpa [nanKeys] using hnan)
  rw [e2, hsnd] at hg
  rw [e1]
  refine PRunsP.weaken (PRunsP.seq (PRunsP.seq (pruns_openDict s) hput ?_) hg ?_) (fun _ h => h) ?_
  · intro st st1 _ _ ⟨hj, hs, _⟩
    exact ⟨hj, _, _, hs, trivial⟩
  · intro st st2 _ _ ⟨st1, _, ⟨_, hs1, _, hh1⟩, hj2, hs2, _, hh2⟩
    refine ⟨hj2, st.heap.length, st.stack, [], by rw [hs2, hs1], ?_, by simp [PRepGEntries]⟩
    rw [hh2, hh1]; simp
  · intro st st3 _ _ ⟨st2, _, ⟨st1, _, ⟨_, hs1, hm1, hh1⟩, _, hs2, hm2, hh2⟩, hj3, q⟩
    have hs : st2.stack = .obj st.heap.length :: st.stack := by rw [hs2, hs1]
    have hh : st2.heap = st.heap ++ [.dict []] := by rw [hh2, hh1]
    obtain ⟨es, hs3, hm3, hh3, hr, hl, ho⟩ := q st.heap.length st.stack [] hs (by rw [hh]; simp) (by simp [PRepGEntries])
    have hl' : st.heap.length + 1 ≤ st3.heap.length := by rw [hh] at hl; simpa using hl
    refine ⟨hj3, .obj st.heap.length, hs3, by rw [hm3, hm2, hm1], ?_, ⟨by omega, ?_⟩⟩
    · simp only [PRepG]
      refine ⟨st.heap.length, es, rfl, Nat.le_refl _, hh3, ?_⟩
      exact PRepGEntries.congr (PAgreeFrom.refl _ _) (KeepsBA.refl _) (Nat.le_succ _) es _ hr
    · intro i _ hi
      rw [ho i (by rw [hh]; simp; omega) (by omega), hh, List.getElem?_append_left hi]

theorem pyOfList_length : (xs : List PyObj) → (pyOfList xs).length = xs.length
  | [] => rfl
  | _ :: xs => by simp [pyOfList, pyOfList_length xs]

theorem flatten_map_singleP : (l : List PyVal) → (l.map fun x => [x]).flatten = l
  | [] => rfl
  | x :: l => by simp [flatten_map_singleP l]

mutual
/-- `save(obj)` read by the Python machine: one value that is the object, the memo as the pickler's. -/
theorem psk_val (py : Bool) : (v : PyObjS) → (s : PSt) → (b : Bytes) → (s' : PSt) →
    pyOKp p (erase v) → cpSaveS mz py p v s = some (b, s') → PPushesG (ecfg p) p b (pyOf (erase v)) s s'
  | .none, s, b, s', _, hs => by
    simp only [cpSaveS, Option.some.injEq, Prod.mk.injEq] at hs
    obtain ⟨rfl, rfl⟩ := hs
    exact PPushesG.one .none _ s (parses_op 78 .pushNone rfl parseArg_78) (fun _ => rfl) (fun _ _ => by simp [erase, pyOf, PRepG])
  | .bool bv, s, b, s', _, hs => by
    simp only [cpSaveS, Option.some.injEq, Prod.mk.injEq] at hs
    obtain ⟨rfl, rfl⟩ := hs
    exact PPushesG.one (.bool bv) _ s (parses_bool' (ecfg p) bv) (fun _ => rfl) (fun _ _ => by simp [erase, pyOf, PRepG])
  | .int i, s, b, s', _, hs => by
    cases hci : cpInt p i with
    | none => simp [cpSaveS, hci] at hs
    | some b0 =>
      simp only [cpSaveS, hci, Option.map_some, Option.some.injEq, Prod.mk.injEq] at hs
      obtain ⟨rfl, rfl⟩ := hs
      rcases parses_cpInt p i b0 hci with hp | hp
      · exact PPushesG.one (.int i) _ s hp (fun _ => rfl) (fun _ _ => by simp [erase, pyOf, PRepG])
      · exact PPushesG.one (.int i) _ s hp (fun _ => rfl) (fun _ _ => by simp [erase, pyOf, PRepG])
  | .float f, s, b, s', hok, hs => by
    simp only [cpSaveS, Option.some.injEq, Prod.mk.injEq] at hs
    obtain ⟨rfl, rfl⟩ := hs
    exact PPushesG.one (.float f) _ s (parses_cpFloat p f (by simpa [erase, pyOKp] using hok)) (fun _ => rfl)
      (fun _ _ => by simp [erase, pyOf, PRepG])
  | .str oid t, s, b, s', hok, hs => by
    simp only [cpSaveS] at hs
    simp only [erase, pyOKp] at hok
    refine (psaveStrS_okV (c := ecfg p) p s s' (some (.str oid t)) (if strCopied py p t then none else some (.str oid t)) t b hok
      (fun k hk => by injection hk with hk; subst hk; exact fun _ _ => Iff.rfl)
      (fun k hk => by
        by_cases hc : strCopied py p t = true
        · simp [hc] at hk
        · simp [hc] at hk; subst hk; exact fun _ _ => Iff.rfl) hs).toG
      (fun n hp r hr => by simp only [erase, pyOf, PRepG]; exact hr)
  | .bytes oid d, s, b, s', _, hs => by
    simp only [cpSaveS] at hs
    exact psaveBytesS_ok s s' (some (.bytes oid d)) d b (fun k hk => by injection hk with hk; subst hk; exact fun _ _ => Iff.rfl) hs
  | .bytearray oid d, s, b, s', hok, hs => by
    simp only [cpSaveS] at hs
    simp only [erase, pyOKp] at hok
    exact psaveBytearrayS_ok s s' (some (.bytearray oid d)) d b hok
      (fun k hk => by injection hk with hk; subst hk; exact fun _ _ => Iff.rfl) hs
  | .tuple xs, s, b, s', hok, hs => by
    simp only [erase, pyOKp] at hok
    simp only [cpSaveS] at hs
    simp only [erase, pyOf]
    by_cases hemp : xs.isEmpty = true
    · have hx : xs = [] := List.isEmpty_iff.mp hemp
      subst hx
      simp only [List.isEmpty_nil, if_true, Option.some.injEq, Prod.mk.injEq] at hs
      obtain ⟨rfl, rfl⟩ := hs
      simpa [eraseList, pyOfList] using ppushesG_emptyTuple (c := ecfg p) p s
    · simp only [hemp, Bool.false_eq_true, if_false] at hs
      cases hsl : cpSaveListS mz py p xs s with
      | none => simp [hsl] at hs
      | some r =>
        obtain ⟨fs, s1⟩ := r
        simp only [hsl] at hs
        cases hput : putS mz p s1 none with
        | none => simp [hput] at hs
        | some r2 =>
          obtain ⟨pb, s2⟩ := r2
          simp only [hput, Option.some.injEq, Prod.mk.injEq] at hs
          obtain ⟨rfl, rfl⟩ := hs
          have hfr := psk_list py xs s fs s1 hok hsl
          have hi := PFragsGN.flatten hfr
          rw [flatten_map_singleP] at hi
          have hlen : (pyOfList (eraseList xs)).length = xs.length := by rw [pyOfList_length, eraseList_length]
          have hne : 1 ≤ (pyOfList (eraseList xs)).length := by
            rw [hlen]
            cases xs with
            | nil => simp at hemp
            | cons _ _ => simp
          by_cases h23 : p ≥ 2 ∧ xs.length ≤ 3
          · simp only [h23, and_self, if_true, List.nil_append]
            have := (ppushesG_tupleN (pyOfList (eraseList xs)) hne (by rw [hlen]; exact h23.2) fs.flatten hi).put
              (pputS_none_ok s1 s2 pb hput) (fun _ _ _ _ => trivial)
            rw [hlen] at this
            exact ppushesG_of_eq this (by simp)
          · simp only [h23, if_false]
            have := (ppushesG_tupleMark (pyOfList (eraseList xs)) fs.flatten hi).put
              (pputS_none_ok s1 s2 pb hput) (fun _ _ _ _ => trivial)
            exact ppushesG_of_eq this (by simp)
  | .list xs, s, b, s', hok, hs => by
    simp only [erase, pyOKp] at hok
    simp only [cpSaveS] at hs
    simp only [erase, pyOf]
    cases hput : putS mz p s none with
    | none => simp [hput] at hs
    | some r1 =>
      obtain ⟨pb, s1⟩ := r1
      simp only [hput] at hs
      cases hsl : cpSaveListS mz py p xs s1 with
      | none => simp [hsl] at hs
      | some r =>
        obtain ⟨fs, s2⟩ := r
        simp only [hsl, Option.some.injEq, Prod.mk.injEq] at hs
        obtain ⟨rfl, rfl⟩ := hs
        exact ppushesG_list py pb (pyOfList (eraseList xs)) fs (pputS_none_ok s s1 pb hput) (psk_list py xs s1 fs s2 hok hsl)
  | .dict kvs, s, b, s', hok, hs => by
    simp only [erase, pyOKp] at hok
    simp only [cpSaveS] at hs
    simp only [erase, pyOf]
    cases hput : putS mz p s none with
    | none => simp [hput] at hs
    | some r1 =>
      obtain ⟨pb, s1⟩ := r1
      simp only [hput] at hs
      cases hsl : cpSavePairsS mz py p kvs s1 with
      | none => simp [hsl] at hs
      | some r =>
        obtain ⟨fs, s2⟩ := r
        simp only [hsl, Option.some.injEq, Prod.mk.injEq] at hs
        obtain ⟨rfl, rfl⟩ := hs
        exact ppushesG_dict py pb (pyOfPairs (erasePairs kvs)) fs (pputS_none_ok s s1 pb hput) (psk_pairs py kvs s1 fs s2 hok.1 hsl)
          hok.2.1 hok.2.2
theorem psk_list (py : Bool) : (xs : List PyObjS) → (s : PSt) → (fs : List Bytes) → (s' : PSt) →
    pyOKpList p (eraseList xs) → cpSaveListS mz py p xs s = some (fs, s') →
    PFragsGN (ecfg p) p fs ((pyOfList (eraseList xs)).map fun x => [x]) s s'
  | [], s, fs, s', _, hs => by
    simp only [cpSaveListS, Option.some.injEq, Prod.mk.injEq] at hs
    obtain ⟨rfl, rfl⟩ := hs
    simp [eraseList, pyOfList, PFragsGN]
  | x :: xs, s, fs, s', hok, hs => by
    simp only [eraseList, pyOKpList] at hok
    simp only [cpSaveListS] at hs
    cases h1 : cpSaveS mz py p x s with
    | none => simp [h1] at hs
    | some r1 =>
      obtain ⟨b, s1⟩ := r1
      simp only [h1] at hs
      cases h2 : cpSaveListS mz py p xs s1 with
      | none => simp [h2] at hs
      | some r2 =>
        obtain ⟨fs2, s2⟩ := r2
        simp only [h2, Option.some.injEq, Prod.mk.injEq] at hs
        obtain ⟨rfl, rfl⟩ := hs
        simp only [eraseList, pyOfList, List.map_cons, PFragsGN]
        exact ⟨s1, (psk_val py x s b s1 hok.1 h1).toN, psk_list py xs s1 fs2 s2 hok.2 h2⟩
theorem psk_pairs (py : Bool) : (kvs : List (PyObjS × PyObjS)) → (s : PSt) → (fs : List Bytes) → (s' : PSt) →
    pyOKpPairs p (erasePairs kvs) → cpSavePairsS mz py p kvs s = some (fs, s') →
    PFragsGN (ecfg p) p fs ((pyOfPairs (erasePairs kvs)).map fun kv => [kv.1, kv.2]) s s'
  | [], s, fs, s', _, hs => by
    simp only [cpSavePairsS, Option.some.injEq, Prod.mk.injEq] at hs
    obtain ⟨rfl, rfl⟩ := hs
    simp [erasePairs, pyOfPairs, PFragsGN]
  | (k, v) :: kvs, s, fs, s', hok, hs => by
    simp only [erasePairs, pyOKpPairs] at hok
    simp only [cpSavePairsS] at hs
    cases h1 : cpSaveS mz py p k s with
    | none => simp [h1] at hs
    | some r1 =>
      obtain ⟨bk, s1⟩ := r1
      simp only [h1] at hs
      cases h2 : cpSaveS mz py p v s1 with
      | none => simp [h2] at hs
      | some r2 =>
        obtain ⟨bv, s2⟩ := r2
        simp only [h2] at hs
        cases h3 : cpSavePairsS mz py p kvs s2 with
        | none => simp [h3] at hs
        | some r3 =>
          obtain ⟨fs3, s3⟩ := r3
          simp only [h3, Option.some.injEq, Prod.mk.injEq] at hs
          obtain ⟨rfl, rfl⟩ := hs
          simp only [erasePairs, pyOfPairs, List.map_cons, PFragsGN]
          refine ⟨s2, ?_, psk_pairs py kvs s2 fs3 s3 hok.2.2 h3⟩
          have := PPushesGN.append (psk_val py k s bk s1 hok.1 h1).toN (psk_val py v s1 bv s2 hok.2.1 h2).toN
          simpa using this
end

end

end Ogorek
