import Ogorek.Decoder

/-! Number formats: decimal text, fixed-width little endian, two's complement. -/
namespace Ogorek

theorem inInt64_iff (i : Int) : inInt64 i = true ↔ -9223372036854775808 ≤ i ∧ i ≤ 9223372036854775807 := by
  unfold inInt64
  rw [Bool.and_eq_true, decide_eq_true_eq, decide_eq_true_eq]
  unfold minInt64 maxInt64
  constructor <;> intro h <;> constructor <;> omega

theorem digitByte_toNat (n : Nat) : (digitByte n).toNat = 48 + n % 10 := by
  unfold digitByte
  have : 48 + n % 10 < 256 := by omega
  simp [UInt8.toNat_ofNat, Nat.mod_eq_of_lt this]

theorem isDigit_digitByte (n : Nat) : isDigit (digitByte n) = true := by
  unfold isDigit
  have h := digitByte_toNat n
  simp only [Bool.and_eq_true, decide_eq_true_eq, UInt8.le_iff_toNat_le, h]
  constructor
  · show (48 : UInt8).toNat ≤ _; simp; 
  · show _ ≤ (57 : UInt8).toNat; simp; omega


theorem natDigits_all_digit (n : Nat) : (natDigits n).all isDigit = true := by
  induction n using Nat.strongRecOn with
  | _ n ih =>
    rw [natDigits]
    split
    · simp [isDigit_digitByte]
    · simp only [List.all_append, List.all_cons, List.all_nil, Bool.and_true, Bool.and_eq_true]
      exact ⟨ih (n / 10) (by omega), isDigit_digitByte _⟩

theorem natDigits_ne_nil (n : Nat) : natDigits n ≠ [] := by
  rw [natDigits]; split <;> simp

theorem digitsVal_append (xs : Bytes) (d : UInt8) :
    digitsVal (xs ++ [d]) = digitsVal xs * 10 + (d.toNat - 48) := by
  simp [digitsVal, List.foldl_append]

theorem digitsVal_natDigits (n : Nat) : digitsVal (natDigits n) = n := by
  induction n using Nat.strongRecOn with
  | _ n ih =>
    rw [natDigits]
    split
    · rename_i h
      simp [digitsVal, digitByte_toNat]; omega
    · rw [digitsVal_append, ih (n / 10) (by omega), digitByte_toNat]
      omega

theorem natDigits_head_not_sign (n : Nat) : ∀ b r, natDigits n = b :: r → b ≠ 45 ∧ b ≠ 43 := by
  intro b r h
  have hall := natDigits_all_digit n
  rw [h] at hall
  simp only [List.all_cons, Bool.and_eq_true] at hall
  have hb := hall.1
  unfold isDigit at hb
  simp only [Bool.and_eq_true, decide_eq_true_eq] at hb
  constructor <;> intro hc <;> subst hc <;> simp at hb

theorem parseDigits_natDigits (n : Nat) : parseDigits? (natDigits n) = some n := by
  unfold parseDigits?
  have hne := natDigits_ne_nil n
  simp [hne, natDigits_all_digit, digitsVal_natDigits]

/-- `strconv.ParseInt` / `big.SetString` read back what `%d` wrote. -/
theorem parseDecimal_fmtInt (i : Int) : parseDecimal? (fmtInt i) = some i := by
  unfold fmtInt
  split
  · rename_i hneg
    simp only [parseDecimal?, parseDigits_natDigits]
    simp; omega
  · rename_i hpos
    cases hd : natDigits i.natAbs with
    | nil => exact absurd hd (natDigits_ne_nil _)
    | cons b r =>
      obtain ⟨h1, h2⟩ := natDigits_head_not_sign _ b r hd
      have hp := parseDigits_natDigits i.natAbs
      rw [hd] at hp
      unfold parseDecimal?
      split
      · rename_i heq; simp at heq; exact absurd heq.1 h1
      · rename_i heq; simp at heq; exact absurd heq.1 h2
      · rw [hp]; simp; omega

/-- Decimal text contains neither LF nor `L`. -/
theorem natDigits_no (n : Nat) (c : UInt8) (hc : isDigit c = false) : c ∉ natDigits n := by
  intro hm
  have := List.all_eq_true.mp (natDigits_all_digit n) c hm
  rw [hc] at this
  exact absurd this (by simp)

theorem fmtInt_no_lf (i : Int) : (10 : UInt8) ∉ fmtInt i := by
  unfold fmtInt
  split
  · simp; exact natDigits_no _ 10 (by decide)
  · exact natDigits_no _ 10 (by decide)


/-! ### little endian -/

theorem natLE_length (k n : Nat) : (natLE k n).length = k := by
  induction k generalizing n with
  | zero => simp [natLE]
  | succ k ih => simp [natLE, ih]

theorem leNat_natLE (k n : Nat) : leNat (natLE k n) = n % 256 ^ k := by
  induction k generalizing n with
  | zero => simp [natLE, leNat, Nat.mod_one]
  | succ k ih =>
    simp only [natLE, leNat, ih]
    have h256 : n % 256 < 256 := Nat.mod_lt _ (by decide)
    have hb : (UInt8.ofNat (n % 256)).toNat = n % 256 := by
      simp [UInt8.toNat_ofNat']
    rw [hb, Nat.pow_succ, Nat.mul_comm (256 ^ k) 256, Nat.mod_mul]

theorem leNat_natLE_of_lt {k n : Nat} (h : n < 256 ^ k) : leNat (natLE k n) = n := by
  rw [leNat_natLE, Nat.mod_eq_of_lt h]

theorem leNat_append (a b : Bytes) : leNat (a ++ b) = leNat a + 256 ^ a.length * leNat b := by
  induction a with
  | nil => simp [leNat]
  | cons x xs ih =>
    simp only [List.cons_append, leNat, ih, List.length_cons, Nat.pow_succ]
    rw [Nat.mul_add, Nat.add_assoc, Nat.mul_comm (256 ^ xs.length) 256, Nat.mul_assoc]

/-- BININT: four bytes, two's complement. -/
theorem toSigned_ofSigned_32 (i : Int) (h1 : -(2 : Int) ^ 31 ≤ i) (h2 : i ≤ (2 : Int) ^ 31 - 1) :
    toSigned 32 (leNat (natLE 4 (ofSigned 32 i))) = i := by
  have hlt : ofSigned 32 i < 256 ^ 4 := by
    unfold ofSigned
    have : i % (2 : Int) ^ 32 < (2 : Int) ^ 32 := Int.emod_lt_of_pos _ (by decide)
    have h0 : 0 ≤ i % (2 : Int) ^ 32 := Int.emod_nonneg _ (by decide)
    omega
  rw [leNat_natLE_of_lt hlt]
  unfold toSigned ofSigned
  have h0 : 0 ≤ i % (2 : Int) ^ 32 := Int.emod_nonneg _ (by decide)
  by_cases hi : 0 ≤ i
  · have : i % (2 : Int) ^ 32 = i := Int.emod_eq_of_lt hi (by omega)
    rw [this]
    have : (i.toNat : Int) = i := Int.toNat_of_nonneg hi
    split <;> omega
  · have : i % (2 : Int) ^ 32 = i + (2 : Int) ^ 32 := by
      rw [← Int.add_emod_right]
      exact Int.emod_eq_of_lt (by omega) (by omega)
    rw [this]
    have : ((i + (2 : Int) ^ 32).toNat : Int) = i + (2 : Int) ^ 32 := Int.toNat_of_nonneg (by omega)
    split <;> omega


/-! ### two's complement: `decodeLong` -/

theorem beNat_append_singleton (xs : Bytes) (d : UInt8) : beNat (xs ++ [d]) = beNat xs * 256 + d.toNat := by
  simp [beNat, List.foldl_append]

theorem flip_toNat (b : UInt8) : ((255 : UInt8) - b).toNat = 255 - b.toNat := by
  have := b.toNat_lt
  rw [UInt8.toNat_sub_of_le]
  · rfl
  · rw [UInt8.le_iff_toNat_le]; simp; omega

/-- "Flip the bits of the big-endian bytes": `flipped + t + 1 = 256 ^ (number of bytes)`. -/
theorem flip_natBytesBE (t : Nat) :
    beNat ((natBytesBE t).map fun b => 255 - b) + t + 1 = 256 ^ (natBytesBE t).length := by
  induction t using Nat.strongRecOn with
  | _ t ih =>
    rw [natBytesBE]
    split
    · rename_i h; subst h; simp [beNat]
    · rename_i h
      have := ih (t / 256) (Nat.div_lt_self (by omega) (by decide))
      simp only [List.map_append, List.map_cons, List.map_nil, beNat_append_singleton, flip_toNat,
        List.length_append, List.length_singleton, Nat.pow_succ]
      have hb : (UInt8.ofNat (t % 256)).toNat = t % 256 := by simp [UInt8.toNat_ofNat']
      rw [hb]
      have hm : t % 256 < 256 := Nat.mod_lt _ (by decide)
      have hd := Nat.div_add_mod t 256
      omega

theorem natBytesBE_length_bounds (t : Nat) :
    t < 256 ^ (natBytesBE t).length ∧ (0 < t → 256 ^ ((natBytesBE t).length - 1) ≤ t) := by
  induction t using Nat.strongRecOn with
  | _ t ih =>
    rw [natBytesBE]
    split
    · rename_i h; subst h; simp
    · rename_i h
      obtain ⟨h1, h2⟩ := ih (t / 256) (Nat.div_lt_self (by omega) (by decide))
      simp only [List.length_append, List.length_singleton, Nat.pow_succ, Nat.add_sub_cancel]
      have hd := Nat.div_add_mod t 256
      have hm : t % 256 < 256 := Nat.mod_lt _ (by decide)
      constructor
      · omega
      · intro _
        by_cases hq : t / 256 = 0
        · rw [hq, natBytesBE]; simp; omega
        · have h3 := h2 (by omega)
          have hl : 0 < (natBytesBE (t / 256)).length := by
            rw [natBytesBE]; simp [hq]
          have : 256 ^ (natBytesBE (t / 256)).length = 256 ^ ((natBytesBE (t / 256)).length - 1) * 256 := by
            rw [← Nat.pow_succ]; congr 1; omega
          omega

theorem natBytesBE_length_eq {t k : Nat} (hk : 0 < k) (h1 : 256 ^ (k - 1) ≤ t) (h2 : t < 256 ^ k) :
    (natBytesBE t).length = k := by
  obtain ⟨b1, b2⟩ := natBytesBE_length_bounds t
  have ht : 0 < t := Nat.lt_of_lt_of_le (Nat.pow_pos (by decide)) h1
  have b2 := b2 ht
  -- 256^(L-1) ≤ t < 256^k  and  256^(k-1) ≤ t < 256^L
  have hL : (natBytesBE t).length - 1 < k := by
    apply (Nat.pow_lt_pow_iff_right (by decide : 1 < 256)).mp
    omega
  have hK : k - 1 < (natBytesBE t).length := by
    apply (Nat.pow_lt_pow_iff_right (by decide : 1 < 256)).mp
    omega
  omega


/-- Two's-complement little-endian encoding of `n` on exactly `k` bytes (CPython's
    `encode_long` is the minimal such `k`; LONG1 accepts any). -/
def twos (k : Nat) (n : Int) : Bytes :=
  natLE k (if 0 ≤ n then n.toNat else (n + (256 : Int) ^ k).toNat)

theorem getLast_natLE (k m : Nat) :
    (natLE (k + 1) m).getLast? = some (UInt8.ofNat (m / 256 ^ k % 256)) := by
  induction k generalizing m with
  | zero => simp [natLE]
  | succ k ih =>
    rw [natLE]
    have hne : natLE (k + 1) (m / 256) ≠ [] := by
      intro h; have := natLE_length (k + 1) (m / 256); rw [h] at this; simp at this
    rw [List.getLast?_cons_of_ne_nil hne, ih, Nat.div_div_eq_div_mul, Nat.pow_succ, Nat.mul_comm]

/-- **`decodeLong` is two's complement**, for every width `k ≥ 1` and every `n` that fits. -/
theorem decodeLong_twos (k : Nat) (n : Int) (hk : 0 < k)
    (h1 : -((256 : Int) ^ k) ≤ 2 * n) (h2 : 2 * n < (256 : Int) ^ k) :
    decodeLong (twos k n) = n := by
  obtain ⟨k', rfl⟩ : ∃ k', k = k' + 1 := ⟨k - 1, by omega⟩
  have hpowN : ((256 ^ (k' + 1) : Nat) : Int) = (256 : Int) ^ (k' + 1) := by rw [Int.natCast_pow]; rfl
  have hpos : 0 < 256 ^ k' := Nat.pow_pos (by decide)
  have hsucc : 256 ^ (k' + 1) = 256 ^ k' * 256 := Nat.pow_succ ..
  unfold twos
  by_cases hn : 0 ≤ n
  · -- non-negative: top bit clear
    simp only [hn, if_true]
    have hm : n.toNat < 256 ^ (k' + 1) := by omega
    have hm2 : 2 * n.toNat < 256 ^ (k' + 1) := by omega
    unfold decodeLong
    have hne : natLE (k' + 1) n.toNat ≠ [] := by
      intro h; have := natLE_length (k' + 1) n.toNat; rw [h] at this; simp at this
    split
    · rename_i heq; exact absurd heq hne
    · simp only [leNat_natLE_of_lt hm, getLast_natLE]
      have hq : n.toNat / 256 ^ k' < 128 := by
        apply Nat.div_lt_of_lt_mul; omega
      have hb : (UInt8.ofNat (n.toNat / 256 ^ k' % 256)) ≤ 127 := by
        rw [Nat.mod_eq_of_lt (by omega : n.toNat / 256 ^ k' < 256), UInt8.le_iff_toNat_le]
        simp [UInt8.toNat_ofNat']
        rw [Nat.mod_eq_of_lt (by omega : n.toNat / 256 ^ k' < 256)]; omega
      have : ¬ (UInt8.ofNat (n.toNat / 256 ^ k' % 256)) > 127 := by
        intro h; exact absurd hb (UInt8.not_le.mpr h)
      simp [this]
      omega
  · -- negative: top bit set
    simp only [hn, if_false]
    have hmI : 0 ≤ n + (256 : Int) ^ (k' + 1) := by omega
    generalize hmdef : (n + (256 : Int) ^ (k' + 1)).toNat = m
    have hmv : (m : Int) = n + (256 : Int) ^ (k' + 1) := by rw [← hmdef]; exact Int.toNat_of_nonneg hmI
    have hm : m < 256 ^ (k' + 1) := by omega
    have hm2 : 256 ^ (k' + 1) ≤ 2 * m := by omega
    unfold decodeLong
    have hne : natLE (k' + 1) m ≠ [] := by
      intro h; have := natLE_length (k' + 1) m; rw [h] at this; simp at this
    split
    · rename_i heq; exact absurd heq hne
    · simp only [leNat_natLE_of_lt hm, getLast_natLE]
      have hq1 : 128 ≤ m / 256 ^ k' := by
        apply (Nat.le_div_iff_mul_le hpos).mpr; omega
      have hq2 : m / 256 ^ k' < 256 := by
        apply Nat.div_lt_of_lt_mul; omega
      have hb : (UInt8.ofNat (m / 256 ^ k' % 256)) > 127 := by
        rw [Nat.mod_eq_of_lt hq2, gt_iff_lt, UInt8.lt_iff_toNat_lt]
        simp [UInt8.toNat_ofNat']
        rw [Nat.mod_eq_of_lt hq2]; omega
      simp only [hb, decide_true, if_true]
      have hlen : (natBytesBE (m - 1)).length = k' + 1 :=
        natBytesBE_length_eq (by omega) (by simp; omega) (by omega)
      have hf := flip_natBytesBE (m - 1)
      rw [hlen] at hf
      omega

end Ogorek
