import Ogorek.Lemmas.EncParse
import Ogorek.Lemmas.QuoteInv
import Ogorek.Lemmas.RueInv
import Ogorek.Lemmas.FmtG

/-!
  What the decoder's parse layer reads from the encoder's protocol-0 text forms.
-/
namespace Ogorek

/-- The one thing about protocol 0 that is assumed rather than proved: `strconv.ParseFloat` reads Go's
    `%g` text of this float back as the same float64 (true of every non-NaN float and of the canonical
    NaN by the shortest-round-trip property of strconv; the model's `fmtG` / `F64.parse` are validated
    against the implementation on every run). That the text holds no newline is proved (`fmtG_no_lf`). -/
def FloatTextOK (f : F64) : Prop := parseFloatArg (F64.fmtG f) = .ok (.pushFloat f)

theorem parses_float_txt (c : ECfg) (f : F64) (hp : ¬ c.proto ≥ 1) (hf : FloatTextOK f) :
    Parses (flat (encodeFloat c f)) [.pushFloat f] := by
  apply Parses.single rfl
  intro t
  simp only [encodeFloat, hp, if_false, flat_emit]
  have e : (70 :: F64.fmtG f ++ [10]) ++ t = 70 :: (F64.fmtG f ++ 10 :: t) := by simp
  rw [e]
  simp only [parseInsn, Rd.bind, readByte, parseArg_70, Rd.mapE, readLine_line _ _ (fmtG_no_lf f), show parseFloatArg (F64.fmtG f) = .ok (.pushFloat f) from hf, Rd.pure]

theorem parses_unicode_txt (c : ECfg) (s : Bytes) (hp : ¬ c.proto ≥ 1) (he : (encodeUnicode c s).err = none) :
    Parses (flat (encodeUnicode c s)) [.pushStr s] := by
  apply Parses.single rfl
  intro t
  simp only [encodeUnicode, hp, if_false] at he ⊢
  cases hu : pyencodeRawUnicodeEscape s with
  | none => rw [hu] at he; simp [failWith] at he
  | some u =>
    simp only [flat_emit]
    have e : (86 :: u ++ [10]) ++ t = 86 :: (u ++ 10 :: t) := by simp
    rw [e]
    simp only [parseInsn, Rd.bind, readByte, parseArg_86, Rd.mapE, readLine_line _ _ (rue_no_lf s u hu),
      parseUnicodeArg, rue_inv s u hu, Rd.pure]

theorem parses_bytestring_txt (ip : IsPrint) (hip : ip 10 = false) (c : ECfg) (s : Bytes) (hp : ¬ c.proto ≥ 1) :
    Parses (flat (encodeByteString ip c s)) [.pushByteString s] := by
  apply Parses.single rfl
  intro t
  simp only [encodeByteString, hp, if_false, flat_emit]
  have hl := pyquote_no_lf ip hip s
  have e : (83 :: pyquote ip s ++ [10]) ++ t = 83 :: (pyquote ip s ++ 10 :: t) := by simp
  rw [e]
  simp only [parseInsn, Rd.bind, readByte, parseArg_83, Rd.mapE, readLine_line _ _ hl]
  have hq : parseStringArg (pyquote ip s) = .ok s := by
    unfold parseStringArg pyquote
    have hlen : ¬ ((34 :: (pyquoteAux ip s.length s ++ [34])).length < 2) := by simp
    simp only [hlen, if_false]
    simp [pyquote_inv ip s]
  simp [hq, Rd.pure, Functor.map, Except.map]

theorem parses_persid_txt (s : Bytes) (h : containsLF s = false) : Parses (flat (emit (80 :: s ++ [10]))) [.persid s] := by
  apply Parses.single rfl
  intro t
  have hl : (10 : UInt8) ∉ s := by
    unfold containsLF at h; intro hm; simp at h; exact h 10 hm rfl
  have e : flat (emit (80 :: s ++ [10])) ++ t = 80 :: (s ++ 10 :: t) := by simp [flat_emit]
  rw [e]
  simp [parseInsn, Rd.bind, readByte, parseArg_80, Rd.map, readLine_line _ _ hl, Rd.pure]

/-- `parses_bool` at every protocol. -/
theorem parses_bool' (c : ECfg) (b : Bool) : Parses (flat (encodeBool c b)) [.pushBool b] := by
  unfold encodeBool
  split
  · cases b
    · simpa [flat_emit] using parses_op 0x89 (.pushBool false) rfl parseArg_137
    · simpa [flat_emit] using parses_op 0x88 (.pushBool true) rfl parseArg_136
  · apply Parses.single rfl
    intro t
    cases b <;>
      simp [flat_emit, sb, parseInsn, Rd.bind, readByte, parseArg_73, Rd.mapE, readLine, splitLine, parseIntArg, Rd.pure]

/-- `parses_class` below protocol 4 (GLOBAL: two plain lines), at every protocol. -/
theorem parses_class_global (ip : IsPrint) (c : ECfg) (m n : Bytes) (h4 : ¬ c.proto ≥ 4)
    (he : (encodeClass ip c m n).err = none) : Parses (flat (encodeClass ip c m n)) [.global m n] := by
  unfold encodeClass at *
  simp only [h4, if_false] at he ⊢
  split at he
  · simp [failWith] at he
  · rename_i hlf
    simp only [Bool.or_eq_true, not_or, Bool.not_eq_true] at hlf
    split
    · rename_i hh; simp [hlf.1, hlf.2] at hh
    · apply Parses.single rfl
      intro t
      have h1 : (10 : UInt8) ∉ m := by
        have := hlf.1; unfold containsLF at this; intro hm; simp at this; exact this 10 hm rfl
      have h2 : (10 : UInt8) ∉ n := by
        have := hlf.2; unfold containsLF at this; intro hm; simp at this; exact this 10 hm rfl
      have e : flat (emit (99 :: m ++ [10] ++ n ++ [10])) ++ t = 99 :: (m ++ 10 :: (n ++ 10 :: t)) := by simp [flat_emit]
      rw [e]
      simp only [parseInsn, Rd.bind, readByte, parseArg_99, readLine_line _ _ h1, Rd.map, readLine_line _ _ h2, Rd.pure]

end Ogorek
