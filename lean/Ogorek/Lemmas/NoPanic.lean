import Ogorek.Lemmas.Reader

/-! Every Go panic source of the decoder is an explicit outcome of the model; these lemmas
    show none of them is reachable. -/
namespace Ogorek

theorem unhex_lt {b : UInt8} {x : Nat} (h : unhex? b = some x) : x < 16 := by
  unfold unhex? at h
  repeat' split at h
  all_goals simp at h
  all_goals subst h
  all_goals rename_i h1
  all_goals simp [UInt8.le_iff_toNat_le] at h1
  all_goals omega

theorem map_ne_panic {f : Bytes → Bytes} {x : Except QErr Bytes} (h : x ≠ .error .panic) :
    f <$> x ≠ .error .panic := by
  cases x <;> simp_all [Functor.map, Except.map]

theorem pydecodeStringEscape_no_panic (s : Bytes) : pydecodeStringEscape s ≠ .error .panic := by
  fun_induction pydecodeStringEscape s
  all_goals try (apply map_ne_panic; assumption)
  all_goals try simp_all
  rename_i hy hx hv _
  have := unhex_lt hx
  have := unhex_lt hy
  omega

def NoPanic (x : M α) : Prop := ∀ w, x ≠ .error (.panic w)

theorem NoPanic.bind {x : M α} {f : α → M β} (hx : NoPanic x) (hf : ∀ a, x = .ok a → NoPanic (f a)) :
    NoPanic (x >>= f) := by
  intro w h
  cases hxa : x with
  | error e => rw [hxa] at h; simp [Bind.bind, Except.bind] at h; exact hx w (by rw [hxa, h])
  | ok a => rw [hxa] at h; simp [Bind.bind, Except.bind] at h; exact hf a hxa w h

theorem NoPanic.ok (a : α) : NoPanic (.ok a : M α) := by intro w; simp
theorem NoPanic.pure (a : α) : NoPanic (pure a : M α) := by intro w; simp [Pure.pure, Except.pure]

theorem userOK_np (v : GoVal) : NoPanic (userOK v) := by
  intro w; unfold userOK; split <;> simp

theorem userOKAll_np (vs : List GoVal) : NoPanic (userOKAll vs) := by
  induction vs with
  | nil => intro w; simp [userOKAll]
  | cons v vs ih => simp only [userOKAll]; exact NoPanic.bind (userOK_np v) fun _ _ => ih

theorem pop_np (st : DState) : NoPanic (pop st) := by
  intro w; unfold pop; split <;> simp

theorem popUser_np (st : DState) : NoPanic (popUser st) := by
  unfold popUser
  exact NoPanic.bind (pop_np st) fun a _ => NoPanic.bind (userOK_np _) fun _ _ => NoPanic.pure _

theorem handleRef_np (hook : Hook) (st : DState) (r : GoVal) : NoPanic (handleRef hook st r) := by
  intro w; unfold handleRef; split
  · simp
  · dsimp only
    split <;> simp

theorem handleCall_np (proto : Nat) (m n : Bytes) (argv : List GoVal) (r : M GoVal)
    (h : handleCall proto m n argv = some r) : NoPanic r := by
  intro w hr
  subst hr
  unfold handleCall at h
  repeat' split at h
  all_goals simp at h

theorem xpop_of_cons {st : DState} {v : GoVal} {s : List GoVal} (h : st.stack = v :: s) :
    xpop st = .ok (v, { st with stack := s }) := by
  unfold xpop; rw [h]

theorem two_of_len {l : List GoVal} (h : ¬ l.length < 2) : ∃ a b s, l = a :: b :: s := by
  match l, h with
  | a :: b :: s, _ => exact ⟨a, b, s, rfl⟩
  | [_], h => simp at h
  | [], h => simp at h

theorem three_of_len {l : List GoVal} (h : ¬ l.length < 3) : ∃ a b c s, l = a :: b :: c :: s := by
  match l, h with
  | a :: b :: c :: s, _ => exact ⟨a, b, c, s, rfl⟩
  | [_, _], h => simp at h
  | [_], h => simp at h
  | [], h => simp at h

theorem exec_no_panic (mc : MCfg) (hook : Hook) (i : Insn) (pos : Nat) (st : DState) :
    NoPanic (exec mc hook i pos st) := by
  cases i <;> simp only [exec]
  case pop => exact NoPanic.bind (pop_np st) fun _ _ => NoPanic.pure _
  case persid => exact handleRef_np _ _ _
  case binpersid => exact NoPanic.bind (popUser_np st) fun _ _ => handleRef_np _ _ _
  case reduce =>
    split
    · intro w; simp
    · rename_i h
      obtain ⟨a, b, s, hs⟩ := two_of_len h
      rw [xpop_of_cons hs]
      simp only [bind, Except.bind]
      rw [xpop_of_cons (st := { st with stack := b :: s }) rfl]
      simp only
      split
      · split
        · rename_i r hr
          exact NoPanic.bind (handleCall_np _ _ _ _ r hr) fun _ _ => NoPanic.pure _
        · exact NoPanic.pure _
      · intro w; simp
  case append =>
    split
    · intro w; simp
    · rename_i h
      obtain ⟨a, b, s, hs⟩ := two_of_len h
      rw [xpop_of_cons hs]
      simp only [bind, Except.bind]
      exact NoPanic.bind (userOK_np _) fun _ _ => by
        split
        · exact NoPanic.pure _
        · intro w; simp
  case setitem =>
    split
    · intro w; simp
    · rename_i h
      obtain ⟨a, b, c, s, hs⟩ := three_of_len h
      rw [xpop_of_cons hs]
      simp only [bind, Except.bind]
      rw [xpop_of_cons (st := { st with stack := b :: c :: s }) rfl]
      simp only
      refine NoPanic.bind (userOK_np _) fun _ _ => NoPanic.bind (userOK_np _) fun _ _ => ?_
      intro w
      repeat' split
      all_goals simp_all [Pure.pure, Except.pure]
  case put =>
    split
    · intro w; simp
    · exact NoPanic.bind (userOK_np _) fun _ _ => NoPanic.pure _
  case memoize =>
    split
    · intro w; simp
    · exact NoPanic.bind (userOK_np _) fun _ _ => NoPanic.pure _
  case stackGlobal =>
    split
    · intro w; simp
    · rename_i h
      obtain ⟨a, b, s, hs⟩ := two_of_len h
      rw [xpop_of_cons hs]
      simp only [bind, Except.bind]
      rw [xpop_of_cons (st := { st with stack := b :: s }) rfl]
      simp only
      intro w
      split <;> simp [Pure.pure, Except.pure]
  case tupleN n =>
    split
    · intro w; simp
    · exact NoPanic.bind (userOKAll_np _) fun _ _ => NoPanic.pure _
  all_goals intro w
  all_goals try (simp [push, mkList, allocObj]; done)
  all_goals try (repeat' split) <;> (try simp_all [push, mkList, allocObj]; done)

end Ogorek
