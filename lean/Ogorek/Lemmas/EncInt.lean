import Ogorek.Props.C19
import Ogorek.Encoder

/-! What the decoder reads from `encodeInt`'s output (used by C03 and the round-trip lemmas). -/
namespace Ogorek

/-- Whatever form `encodeInt` picks — BININT1, BININT2, BININT or INT text —
    the decoder reads the same int64 back and stops exactly at the end of it. -/
theorem encodeInt_parse (c : ECfg) (i : Int) (hi : inInt64 i = true) (t : Bytes) :
    (encodeInt c i).err = none ∧
    parseInsn ((encodeInt c i).chunks.flatten ++ t) = .ok (.pushInt i, t) := by
  unfold encodeInt
  split
  · rename_i h
    obtain ⟨_, h0, h1⟩ := h
    refine ⟨rfl, ?_⟩
    have hb : (UInt8.ofNat i.toNat).toNat = i.toNat := by simp [UInt8.toNat_ofNat']; omega
    simp [emit, parseInsn, Rd.bind, readByte, parseArg_75, Rd.map, Rd.pure, hb]
    omega
  · split
    · rename_i h
      obtain ⟨_, h0, h1⟩ := h
      refine ⟨rfl, ?_⟩
      have hlo : (UInt8.ofNat (i.toNat % 256)).toNat = i.toNat % 256 := by simp [UInt8.toNat_ofNat']
      have hhi : (UInt8.ofNat (i.toNat / 256)).toNat = i.toNat / 256 := by simp [UInt8.toNat_ofNat']; omega
      simp [emit, parseInsn, Rd.bind, readByte, parseArg_77, Rd.map, Rd.pure, readFull, leNat, hlo, hhi]
      omega
    · split
      · rename_i h
        obtain ⟨_, h0, h1⟩ := h
        refine ⟨rfl, ?_⟩
        simp only [emit, List.flatten_cons, List.flatten_nil, List.append_nil, le4]
        simp only [parseInsn, Rd.bind, readByte, List.cons_append, parseArg_74, Rd.map,
          readFull_exact 4 _ t (natLE_length 4 _), Rd.pure, toSigned_ofSigned_32 i h0 h1]
      · refine ⟨rfl, ?_⟩
        have : ((emit (73 :: fmtInt i ++ [10])).chunks.flatten ++ t) = 73 :: (fmtInt i ++ 10 :: t) := by
          simp [emit]
        rw [this]
        simp [parseInsn, Rd.bind, readByte, parseArg_73, Rd.mapE, readLine_line _ _ (fmtInt_no_lf i),
          parseIntArg_fmtInt, Rd.pure, hi]


end Ogorek
