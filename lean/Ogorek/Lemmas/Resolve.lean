import Ogorek.Props.C16
import Ogorek.Lemmas.Rep

namespace Ogorek

mutual
/-- No `#cycle` cut inside: the resolution went all the way down. -/
def noCycle : GoVal → Bool
  | .cycle => false
  | .list xs | .tuple xs => noCycleList xs
  | .call _ _ args => noCycleList args
  | .ref p => noCycle p
  | .map kvs | .dict kvs => noCyclePairs kvs
  | _ => true
def noCycleList : List GoVal → Bool
  | [] => true
  | x :: xs => noCycle x && noCycleList xs
def noCyclePairs : List (GoVal × GoVal) → Bool
  | [] => true
  | (k, v) :: r => noCycle k && noCycle v && noCyclePairs r
end

theorem noCycleList_map {f : GoVal → GoVal} : (xs : List GoVal) → noCycleList (xs.map f) = true → ∀ x ∈ xs, noCycle (f x) = true
  | [], _ => by simp
  | x :: xs, h => by
    simp only [List.map_cons, noCycleList, Bool.and_eq_true] at h
    intro y hy
    rcases List.mem_cons.mp hy with rfl | hy
    · exact h.1
    · exact noCycleList_map xs h.2 y hy

theorem repList_map {mc : MCfg} {ρ : GoVal → GoVal} {h : List HObj} {f : GoVal → GoVal} : (xs : List GoVal) → (∀ x ∈ xs, Rep mc ρ h x (f x)) →
    RepList mc ρ h xs (xs.map f)
  | [], _ => by simp [RepList]
  | x :: xs, hx => by
    simp only [List.map_cons, RepList]
    exact ⟨hx x (by simp), repList_map xs (fun y hy => hx y (by simp [hy]))⟩

theorem noCyclePairs_map {f : GoVal → GoVal} : (kvs : Entries) →
    noCyclePairs (kvs.map fun kv => (f kv.1, f kv.2)) = true → ∀ kv ∈ kvs, noCycle (f kv.1) = true ∧ noCycle (f kv.2) = true
  | [], _ => by simp
  | (k, v) :: kvs, h => by
    simp only [List.map_cons, noCyclePairs, Bool.and_eq_true] at h
    intro kv hkv
    rcases List.mem_cons.mp hkv with rfl | hkv
    · exact ⟨h.1.1, h.1.2⟩
    · exact noCyclePairs_map kvs h.2 kv hkv

theorem repPairs_map {mc : MCfg} {ρ : GoVal → GoVal} {h : List HObj} {f : GoVal → GoVal} : (kvs : Entries) →
    (∀ kv ∈ kvs, Rep mc ρ h kv.1 (f kv.1) ∧ Rep mc ρ h kv.2 (f kv.2)) → RepPairs mc ρ h kvs (kvs.map fun kv => (f kv.1, f kv.2))
  | [], _ => by simp [RepPairs]
  | (k, v) :: kvs, hx => by
    simp only [List.map_cons, RepPairs]
    exact ⟨(hx (k, v) (by simp)).1, (hx (k, v) (by simp)).2, repPairs_map kvs (fun y hy => hx y (by simp [hy]))⟩

/-- **What an acyclic result stands for.** The machine value represents its own resolution. -/
theorem rep_resolve (c : Cfg) (st : DState) (hinv : Inv (goCfg c) false st)
    (hxs : ∀ o ∈ st.heap, o.kind ≠ .list → o.xs = []) :
    ∀ (fuel : Nat) (v : GoVal), wfVal c false st.heap.length v = true → noCycle (resolveV st.heap fuel v) = true →
      Rep (goCfg c) GoVal.ref st.heap v (resolveV st.heap fuel v) := by
  intro fuel
  induction fuel with
  | zero => intro v _ hn; simp [resolveV, noCycle] at hn
  | succ f ih =>
    intro v hv hn
    cases v <;> simp only [resolveV] at hn ⊢
    case none | bool | int | float | str | bytes | bytearray | cls => simp [Rep]
    case big id i => simp only [Rep]; exact ⟨id, rfl⟩
    case bytestr s =>
      have : c.su = true := by simpa [wfVal] using hv
      simp [Rep, goCfg, this]
    case list xs =>
      simp only [wfVal_list, List.all_eq_true] at hv
      simp only [noCycle] at hn
      simp only [Rep]
      exact ⟨xs, rfl, repList_map xs fun x hx => ih x (hv x hx) (noCycleList_map xs hn x hx)⟩
    case tuple xs =>
      simp only [wfVal_tuple, List.all_eq_true] at hv
      simp only [noCycle] at hn
      simp only [Rep]
      exact ⟨xs, rfl, repList_map xs fun x hx => ih x (hv x hx) (noCycleList_map xs hn x hx)⟩
    case call m n xs =>
      simp only [wfVal_call, List.all_eq_true] at hv
      simp only [noCycle] at hn
      simp only [Rep]
      exact ⟨xs, rfl, repList_map xs fun x hx => ih x (hv x hx) (noCycleList_map xs hn x hx)⟩
    case ref p =>
      simp only [wfVal_ref] at hv
      simp only [noCycle] at hn
      simp only [Rep]
      exact ⟨p, rfl, rfl, ih p hv hn⟩
    case href id =>
      split at hn
      · simp [noCycle] at hn
      · rename_i o ho
        have hw := heap_get_wf hinv ho
        unfold wfObj at hw
        simp only [Bool.and_eq_true, List.all_eq_true, goCfg, Bool.and_false, Bool.or_false] at hw
        obtain ⟨⟨hk, hkv⟩, _⟩ := hw
        have hkind : o.kind = dictKind c := by simpa using hk
        have hne : o.kind ≠ .list := by rw [hkind]; unfold dictKind; split <;> simp
        have hox := hxs o (List.mem_of_getElem? ho) hne
        have hobj : o = { kind := dictKind c, kvs := o.kvs } := by
          cases o; simp_all
        by_cases hpd : c.pyDict = true
        · have hd : o.kind = .dict := by rw [hkind]; simp [dictKind, hpd]
          simp only [hd] at hn ⊢
          simp only [noCycle] at hn
          simp only [Rep]
          refine ⟨id, o.kvs, rfl, by rw [ho]; exact congrArg some hobj, ?_⟩
          exact repPairs_map o.kvs fun kv hkv' =>
            ⟨ih _ (hkv kv hkv').1 (noCyclePairs_map o.kvs hn kv hkv').1, ih _ (hkv kv hkv').2 (noCyclePairs_map o.kvs hn kv hkv').2⟩
        · have hd : o.kind = .map := by rw [hkind]; simp [dictKind, hpd]
          simp only [hd] at hn ⊢
          simp only [noCycle] at hn
          simp only [Rep]
          refine ⟨id, o.kvs, rfl, by rw [ho]; exact congrArg some hobj, ?_⟩
          exact repPairs_map o.kvs fun kv hkv' =>
            ⟨ih _ (hkv kv hkv').1 (noCyclePairs_map o.kvs hn kv hkv').1, ih _ (hkv kv hkv').2 (noCyclePairs_map o.kvs hn kv hkv').2⟩
    all_goals simp [wfVal] at hv

end Ogorek
