import Ogorek.Lemmas.RueInv
import Ogorek.Py2Rue

/-!
  Python 2's picklers write protocol-0 text with backslash and LF as `\u005c` / `\u000a` and the `raw-unicode-escape` codec for the
  rest (`py2Rue`): og-rek's `pydecodeRawUnicodeEscape` is its inverse on every valid UTF-8 text, and the escaped text holds no newline.
  (The proofs are those of `cpRue_inv` / `cpRue_no_lf` with the smaller set of escaped characters: what matters is that the set
  holds backslash and LF and nothing from U+0100 on.)
-/
namespace Ogorek

theorem py2RueAux_inv : ∀ (fuel : Nat) (s u tail : Bytes) (rt : List Nat), s.length ≤ fuel →
    py2RueAux fuel s = some u → pydecodeRawUnicodeEscapeRunes 0 tail = .ok rt →
    ∃ rs, pydecodeRawUnicodeEscapeRunes 0 (u ++ tail) = .ok (rs ++ rt) ∧ rs.flatMap encodeRune = s := by
  intro fuel
  induction fuel with
  | zero =>
    intro s u tail rt hl he h
    have : s = [] := List.length_eq_zero_iff.mp (by omega)
    subst this
    simp [py2RueAux] at he; subst he
    exact ⟨[], by simpa using h, rfl⟩
  | succ fuel ih =>
    intro s u tail rt hl he h
    cases s with
    | nil =>
      simp [py2RueAux, decodeRune] at he; subst he
      exact ⟨[], by simpa using h, rfl⟩
    | cons b0 rest =>
      obtain ⟨r, w, hd, hs⟩ := decodeRune_cons_exact b0 rest
      have hwl := hs.width_le
      have hmax := hs.lt_max
      simp only [py2RueAux, hd] at he
      by_cases hbad : (r = runeError && w + 1 = 1) = true
      · rw [if_pos hbad] at he; cases he
      · rw [if_neg hbad] at he
        have hv : ¬ (r = runeError ∧ w + 1 = 1) := by
          intro hh; apply hbad; simp [hh.1, hh.2]
        obtain ⟨henc, hvalid⟩ := encodeRune_of_exact hs hv
        -- the recursive part
        cases hrec : py2RueAux fuel ((b0 :: rest).drop (w + 1)) with
        | none => rw [hrec] at he; simp [Functor.map, Option.map] at he
        | some u' =>
          rw [hrec] at he
          simp only [Functor.map, Option.map, Option.some.injEq] at he
          obtain ⟨rs', hdec', hflat'⟩ := ih _ u' tail rt (by simp at hl hwl ⊢; omega) hrec h
          refine ⟨r :: rs', ?_, ?_⟩
          · subst he
            simp only [List.append_assoc]
            by_cases hq : (r = 92 || r = 10) = true
            · simp only [hq, if_true, List.cons_append, List.nil_append]
              have hr256 : r < 256 := by
                simp only [Bool.or_eq_true, decide_eq_true_eq] at hq; omega
              have e1 : (48 : UInt8) = hexLower (r / 4096) := by
                have : r / 4096 = 0 := by omega
                rw [this]; exact hexLower_zero.symm
              have e2 : (48 : UInt8) = hexLower (r / 256) := by
                have : r / 256 = 0 := by omega
                rw [this]; exact hexLower_zero.symm
              have := rue_u4 r (by omega) hvalid _ _ hdec'
              rw [← e1, ← e2] at this
              simpa using this
            · have hq' : (r = 92 || r = 10) = false := by simpa using hq
              simp only [hq', Bool.false_eq_true, if_false]
              by_cases h5 : r ≥ 0x10000
              · simp only [h5, if_true]
                have := rue_u8 r hmax hvalid _ _ hdec'
                simpa [List.range, List.range.loop] using this
              · simp only [h5, if_false]
                by_cases h3 : r ≥ 0x100
                · simp only [h3, if_true]
                  have := rue_u4 r (by omega) hvalid _ _ hdec'
                  simpa [List.range, List.range.loop] using this
                · simp only [h3, if_false, List.cons_append, List.nil_append]
                  have hb : UInt8.ofNat r ≠ 92 := by
                    intro hh
                    have : (UInt8.ofNat r).toNat = 92 := by rw [hh]; rfl
                    simp [UInt8.toNat_ofNat'] at this
                    simp only [Bool.or_eq_false_iff, decide_eq_false_iff_not] at hq'
                    omega
                  have := rue_copy (UInt8.ofNat r) _ _ hb hdec'
                  have hn : (UInt8.ofNat r).toNat = r := by simp [UInt8.toNat_ofNat']; omega
                  rw [hn] at this
                  exact this
          · simp only [List.flatMap_cons, hflat', henc]
            exact List.take_append_drop _ _

/-- **`pydecodeRawUnicodeEscape (py2Rue s) = s`** whenever the encoder accepts `s`
    (i.e. `s` is valid UTF-8). -/
theorem py2Rue_inv (s u : Bytes) (h : py2Rue s = some u) : pydecodeRawUnicodeEscape u = .ok s := by
  obtain ⟨rs, hd, hf⟩ := py2RueAux_inv s.length s u [] [] (Nat.le_refl _) h (by rw [pydecodeRawUnicodeEscapeRunes])
  unfold pydecodeRawUnicodeEscape
  simp only [List.append_nil] at hd
  simp [hd, hf, Functor.map, Except.map]

end Ogorek

namespace Ogorek

theorem py2RueAux_no_lf : ∀ (fuel : Nat) (s u : Bytes), py2RueAux fuel s = some u → (10 : UInt8) ∉ u := by
  intro fuel
  induction fuel with
  | zero => intro s u he; simp [py2RueAux] at he; subst he; simp
  | succ fuel ih =>
    intro s u he
    cases s with
    | nil => simp [py2RueAux, decodeRune] at he; subst he; simp
    | cons b0 rest =>
      obtain ⟨r, w, hd, hs⟩ := decodeRune_cons_exact b0 rest
      simp only [py2RueAux, hd] at he
      by_cases hbad : (r = runeError && w + 1 = 1) = true
      · rw [if_pos hbad] at he; cases he
      · rw [if_neg hbad] at he
        cases hrec : py2RueAux fuel ((b0 :: rest).drop (w + 1)) with
        | none => rw [hrec] at he; simp [Functor.map, Option.map] at he
        | some u' =>
          rw [hrec] at he
          simp only [Functor.map, Option.map, Option.some.injEq] at he
          subst he
          rw [List.mem_append]
          intro hm
          rcases hm with hm | hm
          · split at hm
            · simp only [List.mem_cons, List.not_mem_nil, or_false] at hm
              rcases hm with hm | hm | hm | hm | hm | hm
              · exact absurd hm (by decide)
              · exact absurd hm (by decide)
              · exact absurd hm (by decide)
              · exact absurd hm (by decide)
              · exact hexLower_ne_lf _ hm.symm
              · exact hexLower_ne_lf _ hm.symm
            · split at hm
              · simp only [List.cons_append, List.nil_append, List.mem_cons, List.mem_map] at hm
                rcases hm with hm | hm | ⟨i, _, hm⟩
                · exact absurd hm (by decide)
                · exact absurd hm (by decide)
                · exact hexLower_ne_lf _ hm
              · split at hm
                · simp only [List.cons_append, List.nil_append, List.mem_cons, List.mem_map] at hm
                  rcases hm with hm | hm | ⟨i, _, hm⟩
                  · exact absurd hm (by decide)
                  · exact absurd hm (by decide)
                  · exact hexLower_ne_lf _ hm
                · rename_i hq h5 h3
                  simp only [List.mem_cons, List.not_mem_nil, or_false] at hm
                  have : (UInt8.ofNat r).toNat = 10 := by rw [← hm]; rfl
                  simp [UInt8.toNat_ofNat'] at this
                  simp only [Bool.or_eq_true, decide_eq_true_eq, not_or] at hq
                  omega
          · exact ih _ _ hrec hm

theorem py2Rue_no_lf (s u : Bytes) (h : py2Rue s = some u) : (10 : UInt8) ∉ u :=
  py2RueAux_no_lf _ _ _ h

end Ogorek
