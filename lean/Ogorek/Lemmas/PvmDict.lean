import Ogorek.Lemmas.PvmForms

/-! `MARK k1 v1 … DICT` on the Python machine: the dict CPython builds is the one the type table names. -/
namespace Ogorek

/-- Number of entries whose key holds a NaN float. -/
def nanKeys (es : List (PyVal × PyVal)) : Nat := (es.filter fun e => pyHasNaN e.1).length

/-- Keys CPython accepts, and for which "identical or equal" is just "equal": all hashable, at most one holding a NaN. -/
def keysPyOK (kvs : List (PyVal × PyVal)) : Bool := kvs.all (fun e => pyHashable e.1) && decide (nanKeys kvs ≤ 1)

theorem nanKeys_cons (e : PyVal × PyVal) (es : List (PyVal × PyVal)) :
    nanKeys (e :: es) = (if pyHasNaN e.1 then 1 else 0) + nanKeys es := by
  unfold nanKeys
  by_cases h : pyHasNaN e.1 = true
  · simp [List.filter_cons, h]; omega
  · simp [List.filter_cons, h]

theorem nanKeys_set (es : List (PyVal × PyVal)) (k v : PyVal) :
    nanKeys (pyDictSet es k v) ≤ nanKeys es + (if pyHasNaN k then 1 else 0) := by
  induction es with
  | nil =>
    have : pyDictSet [] k v = [(k, v)] := rfl
    rw [this, nanKeys_cons]; simp [nanKeys]
  | cons e es ih =>
    obtain ⟨a, b⟩ := e
    unfold pyDictSet
    split
    · simp only [nanKeys_cons]; omega
    · simp only [nanKeys_cons] at ih ⊢; omega

theorem any_nan_false_of_zero (es : List (PyVal × PyVal)) (h : nanKeys es = 0) : es.any (fun e => pyHasNaN e.1) = false := by
  induction es with
  | nil => rfl
  | cons e es ih =>
    rw [nanKeys_cons] at h
    by_cases hn : pyHasNaN e.1 = true
    · simp [hn] at h
    · simp only [Bool.not_eq_true] at hn
      simp [hn] at h
      simp [List.any_cons, hn, ih h]

theorem PRepEntries.any_nan {h : List PObj} : {es acc : List (PyVal × PyVal)} → PRepEntries h es acc →
    es.any (fun e => pyHasNaN e.1) = acc.any (fun e => pyHasNaN e.1)
  | [], [], _ => rfl
  | [], _ :: _, hr => by simp [PRepEntries] at hr
  | _ :: _, [], hr => by simp [PRepEntries] at hr
  | (rk, rv) :: es, (k, v) :: acc, hr => by
    simp only [PRepEntries] at hr
    simp [List.any_cons, hr.1, PRepEntries.any_nan hr.2.2]

theorem pyDictSet_rep {h : List PObj} (k rv v : PyVal) (hv : PRep h rv v) : {es acc : List (PyVal × PyVal)} → PRepEntries h es acc →
    PRepEntries h (pyDictSet es k rv) (pyDictSet acc k v)
  | [], [], _ => by simp [pyDictSet, PRepEntries, hv]
  | [], _ :: _, hr => by simp [PRepEntries] at hr
  | _ :: _, [], hr => by simp [PRepEntries] at hr
  | (a, b) :: es, (a', b') :: acc, hr => by
    simp only [PRepEntries] at hr
    obtain ⟨rfl, hb, hrest⟩ := hr
    unfold pyDictSet
    split
    · simp only [PRepEntries]; exact ⟨trivial, hv, hrest⟩
    · simp only [PRepEntries]; exact ⟨trivial, hb, pyDictSet_rep k rv v hv hrest⟩

/-- The machine's sequence of assignments builds a representation of the table's dict. -/
theorem pyAssignAll_rep {h : List PObj} : (kvs : List (PyVal × PyVal)) → (rs : List PyVal) → (es acc : List (PyVal × PyVal)) →
    PRepList h rs (flatP kvs) → PRepEntries h es acc → (kvs.all fun e => pyHashable e.1) = true → nanKeys acc + nanKeys kvs ≤ 1 →
    ∃ es', pyAssignAll es rs = .ok es' ∧ PRepEntries h es' (kvs.foldl (fun a e => pyDictSet a e.1 e.2) acc)
  | [], rs, es, acc, hl, he, _, _ => by
    cases rs with
    | nil => exact ⟨es, rfl, by simpa using he⟩
    | cons _ _ => simp [flatP, PRepList] at hl
  | (k, v) :: kvs, rs, es, acc, hl, he, hh, hn => by
    match rs, hl with
    | rk :: rv :: rs', hl =>
      simp only [flatP, PRepList] at hl
      obtain ⟨hk, hv, hrest⟩ := hl
      simp only [List.all_cons, Bool.and_eq_true] at hh
      have ek : rk = k := PRep.eq_of_hashable k hh.1 hk
      subst ek
      rw [nanKeys_cons] at hn
      have hguard : (pyHasNaN rk && es.any (fun e => pyHasNaN e.1)) = false := by
        by_cases hnan : pyHasNaN rk = true
        · simp only [hnan, if_true] at hn
          have : nanKeys acc = 0 := by omega
          rw [he.any_nan, any_nan_false_of_zero acc this]; simp
        · simp only [Bool.not_eq_true] at hnan; simp [hnan]
      have hass : pyAssign es rk rv = .ok (pyDictSet es rk rv) := by
        simp [pyAssign, hh.1, hguard]
      have hn' : nanKeys (pyDictSet acc rk v) + nanKeys kvs ≤ 1 := by
        have := nanKeys_set acc rk v
        simp only [] at hn
        omega
      obtain ⟨es', e1, e2⟩ := pyAssignAll_rep kvs rs' (pyDictSet es rk rv) (pyDictSet acc rk v) hrest (pyDictSet_rep rk rv v hv he) hh.2 hn'
      exact ⟨es', by simp [pyAssignAll, hass, e1], by simpa using e2⟩
    | [], hl => simp [flatP, PRepList] at hl
    | [_], hl => simp [flatP, PRepList] at hl

section forms
variable {c : ECfg}

/-- `EMPTY_DICT`, or `MARK k1 v1 … DICT`. -/
theorem ppushes_dictform (kvs : List (PyVal × PyVal)) (n : Nat) (hn : n = 0 → kvs = []) (pairsOut : Out) (hk : keysPyOK kvs = true)
    (he : pairsOut.err = none)
    (hi : PPushesN c (flat pairsOut) (flatP kvs).length (fun h rs => PRepList h rs (flatP kvs))) :
    PPushes c (flat (if c.proto ≥ 1 ∧ n = 0 then emit [125] else emit [40] +> pairsOut +> emit [100]))
      (fun h r => PRep h r (.dict (pyDictOf kvs))) := by
  simp only [keysPyOK, Bool.and_eq_true, decide_eq_true_eq] at hk
  split
  · rename_i h
    have hx : kvs = [] := hn h.2
    subst hx
    rw [flat_emit]
    refine PRuns.one (parses_op 125 .emptyDict rfl parseArg_125) fun st _ => ?_
    refine ⟨ppush { st with heap := st.heap ++ [.dict []] } (.obj st.heap.length), ?_,
      ⟨rfl, rfl, rfl, [.dict []], by simp [ppush]⟩, .obj st.heap.length, rfl, ?_⟩
    · simp [pexec, palloc]
    · simp only [PRep, pyDictOf, List.foldl_nil]
      exact ⟨st.heap.length, [], rfl, by simp [ppush], by simp [PRepEntries]⟩
  · have h1 : (emit [40] +> pairsOut).err = none := by rw [seq_err rfl]; exact he
    rw [flat_seq _ _ h1, flat_seq _ _ rfl, flat_emit, flat_emit]
    refine PRuns.marked hi (parses_op 100 .dict rfl parseArg_100) ?_
    intro st st1 rs _ f1 hs _ hPL
    have hme : st1.metas = st.stack :: st.metas := f1.metas
    obtain ⟨es, hass, hrep⟩ := pyAssignAll_rep kvs rs [] [] hPL (by simp [PRepEntries]) hk.1 (by simp [nanKeys] at hk ⊢; exact hk.2)
    refine ⟨{ st1 with stack := .obj st1.heap.length :: st.stack, metas := st.metas, heap := st1.heap ++ [.dict es] }, ?_,
      f1.memo, f1.proto, rfl, ?_, .obj st1.heap.length, rfl, ?_⟩
    · simp [pexec, popMark, hme, hs, hass, palloc, ppush, bind, Except.bind, pure, Except.pure]
    · obtain ⟨t, ht⟩ := f1.heap
      exact ⟨t ++ [.dict es], by simp [ht]⟩
    · simp only [PRep]
      exact ⟨st1.heap.length, es, rfl, by simp, PRepEntries.mono _ _ es _ hrep⟩

end forms

end Ogorek
