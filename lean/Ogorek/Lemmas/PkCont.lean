import Ogorek.Lemmas.PkForms

/-!
  CPython's unpickler on CPython's pickler: tuples, and the APPEND(S) / SETITEM(S) groups that fill a list / dict
  in place (both are heap objects on the Python machine).
-/
namespace Ogorek

section
variable {c : ECfg}

/-- Fragment by fragment, the pickler state threaded through. -/
def PFragsGN (c : ECfg) (p : Nat) : List Bytes → List (List PyVal) → PSt → PSt → Prop
  | [], [], s, s' => s = s'
  | f :: fs, xs :: xss, s, s' => ∃ s1, PPushesGN c p f xs s s1 ∧ PFragsGN c p fs xss s1 s'
  | _, _, _, _ => False

theorem PFragsGN.flatten {p : Nat} : {fs : List Bytes} → {xss : List (List PyVal)} → {s s' : PSt} → PFragsGN c p fs xss s s' →
    PPushesGN c p fs.flatten xss.flatten s s'
  | [], [], s, _, h => by
    simp only [PFragsGN] at h; subst h
    simpa using PPushesGN.nil p s
  | [], _ :: _, _, _, h => by simp [PFragsGN] at h
  | _ :: _, [], _, _, h => by simp [PFragsGN] at h
  | f :: fs, xs :: xss, _, _, h => by
    simp only [PFragsGN] at h
    obtain ⟨s1, h1, h2⟩ := h
    simpa using PPushesGN.append h1 (PFragsGN.flatten h2)

theorem PFragsGN.length {p : Nat} : {fs : List Bytes} → {xss : List (List PyVal)} → {s s' : PSt} → PFragsGN c p fs xss s s' →
    fs.length = xss.length
  | [], [], _, _, _ => rfl
  | [], _ :: _, _, _, h => by simp [PFragsGN] at h
  | _ :: _, [], _, _, h => by simp [PFragsGN] at h
  | _ :: _, _ :: _, _, _, h => by
    simp only [PFragsGN] at h
    obtain ⟨_, _, h2⟩ := h
    simp [PFragsGN.length h2]

theorem PFragsGN.append_inv {p : Nat} : {f1 f2 : List Bytes} → {x1 x2 : List (List PyVal)} → {s s' : PSt} → f1.length = x1.length →
    PFragsGN c p (f1 ++ f2) (x1 ++ x2) s s' → ∃ sm, PFragsGN c p f1 x1 s sm ∧ PFragsGN c p f2 x2 sm s'
  | [], _, [], _, s, _, _, h => ⟨s, by simp [PFragsGN], by simpa using h⟩
  | [], _, _ :: _, _, _, _, hl, _ => by simp at hl
  | _ :: _, _, [], _, _, _, hl, _ => by simp at hl
  | f :: f1, f2, x :: x1, x2, _, _, hl, h => by
    simp only [List.cons_append, PFragsGN] at h
    obtain ⟨s1, h1, h2⟩ := h
    obtain ⟨sm, a, b⟩ := PFragsGN.append_inv (by simpa using hl) h2
    exact ⟨sm, by simp only [PFragsGN]; exact ⟨s1, h1, a⟩, b⟩

/-! ### tuples -/

theorem ppushesG_tupleN {p : Nat} (xs : List PyVal) (h1 : 1 ≤ xs.length) (h3 : xs.length ≤ 3) (items : Bytes) {s s' : PSt}
    (hi : PPushesGN c p items xs s s') :
    PPushesG c p (items ++ [if xs.length = 1 then 0x85 else if xs.length = 2 then 0x86 else 0x87]) (.tuple xs) s s' := by
  have hp : Parses [if xs.length = 1 then (0x85 : UInt8) else if xs.length = 2 then 0x86 else 0x87] [.tupleN xs.length] := by
    have : xs.length = 1 ∨ xs.length = 2 ∨ xs.length = 3 := by omega
    rcases this with h | h | h <;> rw [h]
    · exact parses_op 0x85 (.tupleN 1) rfl parseArg_133
    · exact parses_op 0x86 (.tupleN 2) rfl parseArg_134
    · exact parses_op 0x87 (.tupleN 3) rfl parseArg_135
  refine PRunsP.snoc hi hp ?_
  intro st st' _ _ _ ⟨hj, rs, hst, hm, hr, hk⟩
  have hlen := hr.length
  refine ⟨{ st' with stack := .tuple rs :: st.stack }, ?_, rfl, hj.stable rfl (KeepsBA.refl _), .tuple rs, rfl, hm, ?_, hk⟩
  · have hl' : ¬ st'.stack.length < xs.length := by rw [hst]; simp; omega
    have ht : st'.stack.take xs.length = rs.reverse := by rw [hst, ← hlen]; exact ptake_reverse_append rs _
    have hd : st'.stack.drop xs.length = st.stack := by rw [hst, ← hlen]; exact pdrop_reverse_append rs _
    simp only [pexec, hl', if_false, ht, hd, List.reverse_reverse]
  · simp only [PRepG]; exact ⟨rs, rfl, hr⟩

/-- MARK, then a fragment that pushes values: they sit in a fresh segment, the old one is on the metastack. -/
theorem PPushesGN.marked {p : Nat} {items : Bytes} {xs : List PyVal} {s s' : PSt} (hi : PPushesGN c p items xs s s') :
    PRunsP c (40 :: items) (PMemoInv p s) (fun st st' => PMemoInv p s' st' ∧ ∃ rs, st'.stack = rs.reverse ∧
      st'.metas = st.stack :: st.metas ∧ PRepGList st.heap.length st'.heap rs xs ∧ PKeepsH st st') := by
  refine PRunsP.weaken (PRunsP.mark_then hi) (fun st hj => hj.stable rfl (KeepsBA.refl _)) ?_
  intro st st' _ _ ⟨hj, rs, hs, hm, hr, hk⟩
  exact ⟨hj, rs, by simpa using hs, hm, hr, hk⟩

theorem ppushesG_tupleMark {p : Nat} (xs : List PyVal) (items : Bytes) {s s' : PSt} (hi : PPushesGN c p items xs s s') :
    PPushesG c p (40 :: items ++ [116]) (.tuple xs) s s' := by
  have := PRunsP.snoc (Q := fun st st' => PMemoInv p s' st' ∧ ∃ r, st'.stack = r :: st.stack ∧ st'.metas = st.metas ∧
      PRepG st.heap.length st'.heap r (.tuple xs) ∧ PKeepsH st st')
    (PPushesGN.marked hi) (parses_op 116 .tuple rfl parseArg_116) ?_
  · unfold PPushesG; simpa using this
  · intro st st' _ _ _ ⟨hj, rs, hst, hm, hr, hk⟩
    refine ⟨{ st' with stack := .tuple rs :: st.stack, metas := st.metas }, ?_, rfl, hj.stable rfl (KeepsBA.refl _), .tuple rs, rfl, rfl, ?_, hk⟩
    · simp [pexec, popMark, hm, hst, ppush, bind, Except.bind, pure, Except.pure]
    · simp only [PRepG]; exact ⟨rs, rfl, hr⟩

/-! ### lists, filled in place -/

def PListTop (xs0 : List PyVal) (st : PState) : Prop :=
  ∃ id s0 acc, st.stack = .obj id :: s0 ∧ st.heap[id]? = some (.list acc) ∧ PRepGList (id + 1) st.heap acc xs0

def PListQ (xs0 xs1 : List PyVal) (st st' : PState) : Prop :=
  ∀ id s0 acc, st.stack = .obj id :: s0 → st.heap[id]? = some (.list acc) → PRepGList (id + 1) st.heap acc xs0 →
    ∃ rs, st'.stack = .obj id :: s0 ∧ st'.metas = st.metas ∧ st'.heap[id]? = some (.list (acc ++ rs)) ∧
      PRepGList (id + 1) st'.heap (acc ++ rs) (xs0 ++ xs1) ∧ st.heap.length ≤ st'.heap.length ∧
      (∀ i, i < st.heap.length → i ≠ id → st'.heap[i]? = st.heap[i]?)

theorem list_not_ba {h : List PObj} {id : Nat} {acc : List PyVal} (hh : h[id]? = some (.list acc)) : ∀ d, h[id]? ≠ some (.bytearray d) := by
  intro d e; rw [hh] at e; cases e

theorem dict_not_ba {h : List PObj} {id : Nat} {es : List (PyVal × PyVal)} (hh : h[id]? = some (.dict es)) : ∀ d, h[id]? ≠ some (.bytearray d) := by
  intro d e; rw [hh] at e; cases e

/-- What the group's closing APPEND(S) finds and does. -/
theorem plist_append_core (st st1 : PState) (id : Nat) (acc rs xs0 xs1 : List PyVal)
    (hh : st.heap[id]? = some (.list acc)) (hr0 : PRepGList (id + 1) st.heap acc xs0)
    (hr : PRepGList st.heap.length st1.heap rs xs1) (hk : PKeepsH st st1) :
    st1.heap[id]? = some (.list acc) ∧
      PRepGList (id + 1) (st1.heap.set id (.list (acc ++ rs))) (acc ++ rs) (xs0 ++ xs1) := by
  have hlt : id < st.heap.length := getElem?_lt_of_some hh
  have h0 : PRepGList (id + 1) st1.heap acc xs0 :=
    PRepGList.congr (hk.2.mono (Nat.zero_le _)) hk.keepsBA (Nat.le_refl _) acc xs0 hr0
  have h1 : PRepGList (id + 1) st1.heap rs xs1 :=
    PRepGList.congr (PAgreeFrom.refl _ _) (KeepsBA.refl _) (by omega) rs xs1 hr
  have hh1 : st1.heap[id]? = some (.list acc) := (hk.2 id (Nat.zero_le _) hlt).trans hh
  exact ⟨hh1, PRepGList.congr (PAgreeFrom.set _ id _ (Nat.lt_succ_self id)) (KeepsBA.set_list _ id _ (list_not_ba hh1)) (Nat.le_refl _) _ _
    (PRepGList.append h0 h1)⟩

theorem pruns_listGroup {p : Nat} (xs0 : List PyVal) (g : Grp PyVal) {s s' : PSt}
    (hf : PFragsGN c p (g.items.map (·.1)) (g.items.map fun x => [x.2]) s s') :
    PRunsP c (encGrp 97 101 g) (fun st => PMemoInv p s st ∧ PListTop xs0 st)
      (fun st st' => PMemoInv p s' st' ∧ PListQ xs0 (g.items.map (·.2)) st st') := by
  cases g with
  | single x =>
    simp only [Grp.items, List.map_cons, List.map_nil, PFragsGN] at hf
    obtain ⟨s1, hf1, rfl⟩ := hf
    simp only [encGrp, Grp.items, List.map_cons, List.map_nil]
    refine PRunsP.snoc (PRunsP.weaken hf1 (fun _ h => h.1) (fun _ _ _ _ q => q)) (parses_op 97 .append rfl parseArg_97) ?_
    intro st st' _ ⟨_, id, s0, acc, hs, hh, hr0⟩ _ ⟨hj, rs, hst, hm, hr, hk⟩
    obtain ⟨hh1, hrep⟩ := plist_append_core st st' id acc rs xs0 [x.2] hh hr0 hr hk
    obtain ⟨r, rfl⟩ : ∃ r, rs = [r] := by
      match rs, hr with
      | [r], _ => exact ⟨r, rfl⟩
      | [], h => simp [PRepGList] at h
      | _ :: _ :: _, h => simp [PRepGList] at h
    have hst' : st'.stack = r :: .obj id :: s0 := by rw [hst, hs]; rfl
    have hlt : id < st'.heap.length := getElem?_lt_of_some hh1
    refine ⟨{ st' with stack := .obj id :: s0, heap := st'.heap.set id (.list (acc ++ [r])) }, ?_, rfl,
      hj.stable rfl (KeepsBA.set_list _ id _ (list_not_ba hh1)), ?_⟩
    · simp [pexec, hst', hh1]
    · intro id' s0' acc' hs' hh' _
      rw [hs] at hs'
      injection hs' with h1 h2
      injection h1 with h1
      subst h1; subst h2
      rw [hh] at hh'
      injection hh' with hh'
      injection hh' with hacc
      subst hacc
      refine ⟨[r], rfl, hm, by simp [List.getElem?_set_self hlt], hrep, by simp; exact hk.1, ?_⟩
      intro i hi hne
      simp only
      rw [List.getElem?_set_ne (Ne.symm hne)]
      exact hk.2 i (Nat.zero_le _) hi
  | multi xs =>
    simp only [Grp.items] at hf ⊢
    have hfl := PFragsGN.flatten hf
    rw [flatten_map_singleton] at hfl
    show PRunsP c ((40 :: (xs.map (·.1)).flatten) ++ [101]) _ _
    refine PRunsP.snoc (PRunsP.weaken (PPushesGN.marked hfl) (fun _ h => h.1) (fun _ _ _ _ q => q)) (parses_op 101 .appends rfl parseArg_101) ?_
    intro st st' _ ⟨_, id, s0, acc, hs, hh, hr0⟩ _ ⟨hj, rs, hst, hm, hr, hk⟩
    obtain ⟨hh1, hrep⟩ := plist_append_core st st' id acc rs xs0 (xs.map (·.2)) hh hr0 hr hk
    have hlt : id < st'.heap.length := getElem?_lt_of_some hh1
    refine ⟨{ st' with stack := .obj id :: s0, metas := st.metas, heap := st'.heap.set id (.list (acc ++ rs)) }, ?_, rfl,
      hj.stable rfl (KeepsBA.set_list _ id _ (list_not_ba hh1)), ?_⟩
    · simp [pexec, popMark, hm, hst, hs, hh1, bind, Except.bind, pure, Except.pure]
    · intro id' s0' acc' hs' hh' _
      rw [hs] at hs'
      injection hs' with h1 h2
      injection h1 with h1
      subst h1; subst h2
      rw [hh] at hh'
      injection hh' with hh'
      injection hh' with hacc
      subst hacc
      refine ⟨rs, rfl, rfl, by simp [List.getElem?_set_self hlt], hrep, by simp; exact hk.1, ?_⟩
      intro i hi hne
      simp only
      rw [List.getElem?_set_ne (Ne.symm hne)]
      exact hk.2 i (Nat.zero_le _) hi

theorem pruns_listGroups {p : Nat} : (gs : List (Grp PyVal)) → (xs0 : List PyVal) → {s s' : PSt} →
    PFragsGN c p ((grpItems gs).map (·.1)) ((grpItems gs).map fun x => [x.2]) s s' →
    PRunsP c (encGrps 97 101 gs) (fun st => PMemoInv p s st ∧ PListTop xs0 st)
      (fun st st' => PMemoInv p s' st' ∧ PListQ xs0 ((grpItems gs).map (·.2)) st st')
  | [], xs0, s, _, hf => by
    simp only [grpItems_nil, List.map_nil, PFragsGN] at hf
    subst hf
    refine PRunsP.weaken PRunsP.nil (fun _ h => h) ?_
    intro st st' hp _ e
    subst e
    refine ⟨hp.1, ?_⟩
    intro id s0 acc hs hh hr
    exact ⟨[], hs, rfl, by simpa using hh, by simpa using hr, Nat.le_refl _, fun _ _ _ => rfl⟩
  | g :: gs, xs0, s, s', hf => by
    simp only [grpItems_cons, List.map_append] at hf ⊢
    obtain ⟨sm, h1, h2⟩ := PFragsGN.append_inv (by simp) hf
    rw [encGrps_cons]
    refine PRunsP.weaken (PRunsP.seq (pruns_listGroup xs0 g h1) (pruns_listGroups gs (xs0 ++ g.items.map (·.2)) h2) ?_) (fun _ h => h) ?_
    · intro st st1 ⟨_, id, s0, acc, hs, hh, hr⟩ _ ⟨hj, q⟩
      obtain ⟨rs, hs1, _, hh1, hr1, _⟩ := q id s0 acc hs hh hr
      exact ⟨hj, id, s0, acc ++ rs, hs1, hh1, hr1⟩
    · intro st st2 _ _ ⟨st1, _, ⟨_, q1⟩, hj2, q2⟩
      refine ⟨hj2, ?_⟩
      intro id s0 acc hs hh hr
      obtain ⟨rs1, hs1, hm1, hh1, hr1, hl1, ho1⟩ := q1 id s0 acc hs hh hr
      obtain ⟨rs2, hs2, hm2, hh2, hr2, hl2, ho2⟩ := q2 id s0 (acc ++ rs1) hs1 hh1 hr1
      refine ⟨rs1 ++ rs2, hs2, by rw [hm2, hm1], by simpa [List.append_assoc] using hh2, by simpa [List.append_assoc] using hr2,
        Nat.le_trans hl1 hl2, ?_⟩
      intro i hi hne
      rw [ho2 i (by omega) hne, ho1 i hi hne]

/-! ### dicts, filled in place -/

theorem pyDictSet_repG {n : Nat} {h : List PObj} (k rv v : PyVal) (hv : PRepG n h rv v) : {es acc : List (PyVal × PyVal)} → PRepGEntries n h es acc →
    PRepGEntries n h (pyDictSet es k rv) (pyDictSet acc k v)
  | [], [], _ => by simp [pyDictSet, PRepGEntries, hv]
  | [], _ :: _, hr => by simp [PRepGEntries] at hr
  | _ :: _, [], hr => by simp [PRepGEntries] at hr
  | (a, b) :: es, (a', b') :: acc, hr => by
    simp only [PRepGEntries] at hr
    obtain ⟨rfl, hb, hrest⟩ := hr
    unfold pyDictSet
    split
    · simp only [PRepGEntries]; exact ⟨trivial, hv, hrest⟩
    · simp only [PRepGEntries]; exact ⟨trivial, hb, pyDictSet_repG k rv v hv hrest⟩

theorem PRepGEntries.any_nan {n : Nat} {h : List PObj} {es acc : List (PyVal × PyVal)} (hr : PRepGEntries n h es acc) :
    es.any (fun e => pyHasNaN e.1) = acc.any (fun e => pyHasNaN e.1) :=
  PRepEntries.any_nan (PRepGEntries.toRep es acc hr)

/-- The machine's sequence of assignments, from a table that already holds `acc`. -/
theorem pyAssignAll_repG {n : Nat} {h : List PObj} : (kvs : List (PyVal × PyVal)) → (rs : List PyVal) → (es acc : List (PyVal × PyVal)) →
    PRepGList n h rs (flatP kvs) → PRepGEntries n h es acc → (kvs.all fun e => pyHashable e.1) = true → nanKeys acc + nanKeys kvs ≤ 1 →
    ∃ es', pyAssignAll es rs = .ok es' ∧ PRepGEntries n h es' (kvs.foldl (fun a e => pyDictSet a e.1 e.2) acc)
  | [], rs, es, acc, hl, he, _, _ => by
    cases rs with
    | nil => exact ⟨es, rfl, by simpa using he⟩
    | cons _ _ => simp [flatP, PRepGList] at hl
  | (k, v) :: kvs, rs, es, acc, hl, he, hh, hn => by
    match rs, hl with
    | rk :: rv :: rs', hl =>
      simp only [flatP, PRepGList] at hl
      obtain ⟨hk, hv, hrest⟩ := hl
      simp only [List.all_cons, Bool.and_eq_true] at hh
      have ek : rk = k := PRep.eq_of_hashable k hh.1 (PRepG.toRep rk k hk)
      subst ek
      rw [nanKeys_cons] at hn
      have hguard : (pyHasNaN rk && es.any (fun e => pyHasNaN e.1)) = false := by
        by_cases hnan : pyHasNaN rk = true
        · simp only [hnan, if_true] at hn
          have : nanKeys acc = 0 := by omega
          rw [he.any_nan, any_nan_false_of_zero acc this]; simp
        · simp only [Bool.not_eq_true] at hnan; simp [hnan]
      have hass : pyAssign es rk rv = .ok (pyDictSet es rk rv) := by
        simp [pyAssign, hh.1, hguard]
      have hn' : nanKeys (pyDictSet acc rk v) + nanKeys kvs ≤ 1 := by
        have := nanKeys_set acc rk v
        simp only [] at hn
        omega
      obtain ⟨es', e1, e2⟩ := pyAssignAll_repG kvs rs' (pyDictSet es rk rv) (pyDictSet acc rk v) hrest (pyDictSet_repG rk rv v hv he) hh.2 hn'
      exact ⟨es', by simp [pyAssignAll, hass, e1], by simpa using e2⟩
    | [], hl => simp [flatP, PRepGList] at hl
    | [_], hl => simp [flatP, PRepGList] at hl

theorem nanKeys_fold : (kvs acc : List (PyVal × PyVal)) →
    nanKeys (kvs.foldl (fun a e => pyDictSet a e.1 e.2) acc) ≤ nanKeys acc + nanKeys kvs
  | [], acc => by simp [nanKeys]
  | (k, v) :: kvs, acc => by
    simp only [List.foldl_cons]
    have h1 := nanKeys_fold kvs (pyDictSet acc k v)
    have h2 := nanKeys_set acc k v
    rw [nanKeys_cons]
    simp only at h1 h2 ⊢
    omega

theorem nanKeys_append (a b : List (PyVal × PyVal)) : nanKeys (a ++ b) = nanKeys a + nanKeys b := by
  simp [nanKeys, List.filter_append]

def PDictTop (acc : List (PyVal × PyVal)) (st : PState) : Prop :=
  ∃ id s0 es, st.stack = .obj id :: s0 ∧ st.heap[id]? = some (.dict es) ∧ PRepGEntries (id + 1) st.heap es acc

/-- From a dict holding `acc` on top of the stack: the pairs `kvs` are assigned to it in place. -/
def PDictQ (acc kvs : List (PyVal × PyVal)) (st st' : PState) : Prop :=
  ∀ id s0 es, st.stack = .obj id :: s0 → st.heap[id]? = some (.dict es) → PRepGEntries (id + 1) st.heap es acc →
    ∃ es', st'.stack = .obj id :: s0 ∧ st'.metas = st.metas ∧ st'.heap[id]? = some (.dict es') ∧
      PRepGEntries (id + 1) st'.heap es' (kvs.foldl (fun a e => pyDictSet a e.1 e.2) acc) ∧ st.heap.length ≤ st'.heap.length ∧
      (∀ i, i < st.heap.length → i ≠ id → st'.heap[i]? = st.heap[i]?)

theorem flatten_map_pairP : (l : List (Bytes × (PyVal × PyVal))) →
    (l.map fun x => [x.2.1, x.2.2]).flatten = flatP (l.map (·.2))
  | [] => rfl
  | x :: l => by simp [flatP, flatten_map_pairP l]

theorem pdict_assign_core (st st1 : PState) (id : Nat) (es acc kvs : List (PyVal × PyVal)) (rs : List PyVal)
    (hh : st.heap[id]? = some (.dict es)) (hr0 : PRepGEntries (id + 1) st.heap es acc)
    (hr : PRepGList st.heap.length st1.heap rs (flatP kvs)) (hk : PKeepsH st st1)
    (hhash : (kvs.all fun e => pyHashable e.1) = true) (hnan : nanKeys acc + nanKeys kvs ≤ 1) :
    ∃ es', st1.heap[id]? = some (.dict es) ∧ pyAssignAll es rs = .ok es' ∧
      PRepGEntries (id + 1) (st1.heap.set id (.dict es')) es' (kvs.foldl (fun a e => pyDictSet a e.1 e.2) acc) := by
  have hlt : id < st.heap.length := getElem?_lt_of_some hh
  have h0 : PRepGEntries (id + 1) st1.heap es acc :=
    PRepGEntries.congr (hk.2.mono (Nat.zero_le _)) hk.keepsBA (Nat.le_refl _) es acc hr0
  have h1 : PRepGList (id + 1) st1.heap rs (flatP kvs) :=
    PRepGList.congr (PAgreeFrom.refl _ _) (KeepsBA.refl _) (by omega) rs _ hr
  have hh1 : st1.heap[id]? = some (.dict es) := (hk.2 id (Nat.zero_le _) hlt).trans hh
  obtain ⟨es', ha, hre⟩ := pyAssignAll_repG kvs rs es acc h1 h0 hhash hnan
  exact ⟨es', hh1, ha, PRepGEntries.congr (PAgreeFrom.set _ id _ (Nat.lt_succ_self id)) (KeepsBA.set_list _ id _ (dict_not_ba hh1))
    (Nat.le_refl _) _ _ hre⟩

theorem pruns_dictGroup {p : Nat} (acc : List (PyVal × PyVal)) (g : Grp (PyVal × PyVal)) {s s' : PSt}
    (hf : PFragsGN c p (g.items.map (·.1)) (g.items.map fun x => [x.2.1, x.2.2]) s s')
    (hhash : ((g.items.map (·.2)).all fun e => pyHashable e.1) = true) (hnan : nanKeys acc + nanKeys (g.items.map (·.2)) ≤ 1) :
    PRunsP c (encGrp 115 117 g) (fun st => PMemoInv p s st ∧ PDictTop acc st)
      (fun st st' => PMemoInv p s' st' ∧ PDictQ acc (g.items.map (·.2)) st st') := by
  cases g with
  | single x =>
    simp only [Grp.items, List.map_cons, List.map_nil, PFragsGN] at hf hhash hnan
    obtain ⟨s1, hf1, rfl⟩ := hf
    simp only [encGrp, Grp.items, List.map_cons, List.map_nil]
    refine PRunsP.snoc (PRunsP.weaken hf1 (fun _ h => h.1) (fun _ _ _ _ q => q)) (parses_op 115 .setitem rfl parseArg_115) ?_
    intro st st' _ ⟨_, id, s0, es, hs, hh, hr0⟩ _ ⟨hj, rs, hst, hm, hr, hk⟩
    have hr' : PRepGList st.heap.length st'.heap rs (flatP [x.2]) := by simpa [flatP] using hr
    obtain ⟨es', hh1, hass, hrep⟩ := pdict_assign_core st st' id es acc [x.2] rs hh hr0 hr' hk hhash hnan
    obtain ⟨rk, rv, rfl⟩ : ∃ rk rv, rs = [rk, rv] := by
      match rs, hr with
      | [a, b], _ => exact ⟨a, b, rfl⟩
      | [], h => simp [PRepGList] at h
      | [_], h => simp [PRepGList] at h
      | _ :: _ :: _ :: _, h => simp [PRepGList] at h
    have hst' : st'.stack = rv :: rk :: .obj id :: s0 := by rw [hst, hs]; rfl
    have hta : pyAssign es rk rv = .ok es' := by
      simp only [pyAssignAll] at hass
      cases ht : pyAssign es rk rv with
      | error e => rw [ht] at hass; simp at hass
      | ok e1 => rw [ht] at hass; simpa [pyAssignAll] using hass
    have hlt : id < st'.heap.length := getElem?_lt_of_some hh1
    refine ⟨{ st' with stack := .obj id :: s0, heap := st'.heap.set id (.dict es') }, ?_, rfl,
      hj.stable rfl (KeepsBA.set_list _ id _ (dict_not_ba hh1)), ?_⟩
    · simp [pexec, hst', hh1, hta, bind, Except.bind, pure, Except.pure]
    · intro id' s0' es0' hs' hh' _
      rw [hs] at hs'
      injection hs' with h1 h2
      injection h1 with h1
      subst h1; subst h2
      rw [hh] at hh'
      injection hh' with hh'
      injection hh' with hes
      subst hes
      refine ⟨es', rfl, hm, by simp [List.getElem?_set_self hlt], hrep, by simp; exact hk.1, ?_⟩
      intro i hi hne
      simp only
      rw [List.getElem?_set_ne (Ne.symm hne)]
      exact hk.2 i (Nat.zero_le _) hi
  | multi xs =>
    simp only [Grp.items] at hf hhash hnan ⊢
    have hfl := PFragsGN.flatten hf
    rw [flatten_map_pairP] at hfl
    show PRunsP c ((40 :: (xs.map (·.1)).flatten) ++ [117]) _ _
    refine PRunsP.snoc (PRunsP.weaken (PPushesGN.marked hfl) (fun _ h => h.1) (fun _ _ _ _ q => q)) (parses_op 117 .setitems rfl parseArg_117) ?_
    intro st st' _ ⟨_, id, s0, es, hs, hh, hr0⟩ _ ⟨hj, rs, hst, hm, hr, hk⟩
    obtain ⟨es', hh1, hass, hrep⟩ := pdict_assign_core st st' id es acc (xs.map (·.2)) rs hh hr0 hr hk hhash hnan
    have hlt : id < st'.heap.length := getElem?_lt_of_some hh1
    refine ⟨{ st' with stack := .obj id :: s0, metas := st.metas, heap := st'.heap.set id (.dict es') }, ?_, rfl,
      hj.stable rfl (KeepsBA.set_list _ id _ (dict_not_ba hh1)), ?_⟩
    · simp [pexec, popMark, hm, hst, hs, hh1, hass, bind, Except.bind, pure, Except.pure]
    · intro id' s0' es0' hs' hh' _
      rw [hs] at hs'
      injection hs' with h1 h2
      injection h1 with h1
      subst h1; subst h2
      rw [hh] at hh'
      injection hh' with hh'
      injection hh' with hes
      subst hes
      refine ⟨es', rfl, rfl, by simp [List.getElem?_set_self hlt], hrep, by simp; exact hk.1, ?_⟩
      intro i hi hne
      simp only
      rw [List.getElem?_set_ne (Ne.symm hne)]
      exact hk.2 i (Nat.zero_le _) hi

theorem pruns_dictGroups {p : Nat} : (gs : List (Grp (PyVal × PyVal))) → (acc : List (PyVal × PyVal)) → {s s' : PSt} →
    PFragsGN c p ((grpItems gs).map (·.1)) ((grpItems gs).map fun x => [x.2.1, x.2.2]) s s' →
    (((grpItems gs).map (·.2)).all fun e => pyHashable e.1) = true → nanKeys acc + nanKeys ((grpItems gs).map (·.2)) ≤ 1 →
    PRunsP c (encGrps 115 117 gs) (fun st => PMemoInv p s st ∧ PDictTop acc st)
      (fun st st' => PMemoInv p s' st' ∧ PDictQ acc ((grpItems gs).map (·.2)) st st')
  | [], acc, s, _, hf, _, _ => by
    simp only [grpItems_nil, List.map_nil, PFragsGN] at hf
    subst hf
    refine PRunsP.weaken PRunsP.nil (fun _ h => h) ?_
    intro st st' hp _ e
    subst e
    refine ⟨hp.1, ?_⟩
    intro id s0 es hs hh hr
    exact ⟨es, hs, rfl, hh, by simpa using hr, Nat.le_refl _, fun _ _ _ => rfl⟩
  | g :: gs, acc, s, s', hf, hhash, hnan => by
    simp only [grpItems_cons, List.map_append, List.all_append, Bool.and_eq_true] at hf hhash hnan ⊢
    rw [nanKeys_append] at hnan
    obtain ⟨sm, h1, h2⟩ := PFragsGN.append_inv (by simp) hf
    rw [encGrps_cons]
    have hn2 : nanKeys ((g.items.map (·.2)).foldl (fun a e => pyDictSet a e.1 e.2) acc) + nanKeys ((grpItems gs).map (·.2)) ≤ 1 := by
      have := nanKeys_fold (g.items.map (·.2)) acc
      omega
    refine PRunsP.weaken (PRunsP.seq (pruns_dictGroup acc g h1 hhash.1 (by omega))
      (pruns_dictGroups gs ((g.items.map (·.2)).foldl (fun a e => pyDictSet a e.1 e.2) acc) h2 hhash.2 hn2) ?_) (fun _ h => h) ?_
    · intro st st1 ⟨_, id, s0, es, hs, hh, hr⟩ _ ⟨hj, q⟩
      obtain ⟨es1, hs1, _, hh1, hr1, _⟩ := q id s0 es hs hh hr
      exact ⟨hj, id, s0, es1, hs1, hh1, hr1⟩
    · intro st st2 _ _ ⟨st1, _, ⟨_, q1⟩, hj2, q2⟩
      refine ⟨hj2, ?_⟩
      intro id s0 es hs hh hr
      obtain ⟨es1, hs1, hm1, hh1, hr1, hl1, ho1⟩ := q1 id s0 es hs hh hr
      obtain ⟨es2, hs2, hm2, hh2, hr2, hl2, ho2⟩ := q2 id s0 es1 hs1 hh1 hr1
      refine ⟨es2, hs2, by rw [hm2, hm1], hh2, by simpa [List.foldl_append] using hr2, Nat.le_trans hl1 hl2, ?_⟩
      intro i hi hne
      rw [ho2 i (by omega) hne, ho1 i hi hne]

end

end Ogorek
