import Ogorek.Decoder

/-! Latin-1 text as UTF-8 and back: what carries Bytes below protocol 3. -/
namespace Ogorek

/-- `unicode(rlatin1)`: every byte as the rune of the same number, UTF-8 encoded. -/
def latin1ToUtf8 (d : Bytes) : Bytes := d.flatMap fun b => encodeRune b.toNat

theorem decodeRune_latin1 (b : UInt8) (rest : Bytes) :
    decodeRune (encodeRune b.toNat ++ rest) = (b.toNat, (encodeRune b.toNat).length) := by
  have hb := b.toNat_lt
  unfold encodeRune
  by_cases h1 : b.toNat < 0x80
  · simp only [h1, if_true, List.singleton_append, List.length_singleton]
    have e : UInt8.ofNat b.toNat = b := by simp
    rw [e]
    unfold decodeRune
    have : b < 0x80 := by rw [UInt8.lt_iff_toNat_lt]; simpa using h1
    simp [this]
  · have h2 : b.toNat < 0x800 := by omega
    simp only [h1, if_false, h2, if_true, List.cons_append, List.nil_append, List.length_cons, List.length_nil]
    have hq : b.toNat / 64 = 2 ∨ b.toNat / 64 = 3 := by omega
    have t0 : (UInt8.ofNat (0xC0 + b.toNat / 64)).toNat = 0xC0 + b.toNat / 64 := by
      simp [UInt8.toNat_ofNat']; omega
    have t1 : (UInt8.ofNat (0x80 + b.toNat % 64)).toNat = 0x80 + b.toNat % 64 := by
      simp [UInt8.toNat_ofNat']; omega
    unfold decodeRune
    have c1 : ¬ (UInt8.ofNat (0xC0 + b.toNat / 64)) < 0x80 := by rw [UInt8.lt_iff_toNat_lt, t0]; simp; omega
    have c2 : ¬ (UInt8.ofNat (0xC0 + b.toNat / 64)) < 0xC2 := by rw [UInt8.lt_iff_toNat_lt, t0]; simp; omega
    have c3 : (UInt8.ofNat (0xC0 + b.toNat / 64)) < 0xE0 := by rw [UInt8.lt_iff_toNat_lt, t0]; simp; omega
    have c4 : isCont (UInt8.ofNat (0x80 + b.toNat % 64)) = true := by
      unfold isCont
      simp only [Bool.and_eq_true, decide_eq_true_eq, UInt8.le_iff_toNat_le, t1]
      constructor <;> simp <;> omega
    simp only [c1, c2, c3, if_false, if_true, c4, t0, t1]
    congr 1
    omega

theorem encodeRune_latin1_length (b : UInt8) : 1 ≤ (encodeRune b.toNat).length := by
  have hb := b.toNat_lt
  unfold encodeRune
  split
  · simp
  · have : b.toNat < 0x800 := by omega
    simp [this]

theorem runesAux_latin1 : ∀ (d : Bytes) (fuel : Nat), d.length ≤ fuel →
    (runesAux fuel (latin1ToUtf8 d)).map (·.1) = d.map (·.toNat)
  | [], fuel, _ => by
    cases fuel <;> simp [runesAux, latin1ToUtf8, decodeRune]
  | b :: d, fuel, h => by
    cases fuel with
    | zero => simp at h
    | succ fuel =>
      have hl := encodeRune_latin1_length b
      have e : latin1ToUtf8 (b :: d) = encodeRune b.toNat ++ latin1ToUtf8 d := by simp [latin1ToUtf8]
      rw [e]
      unfold runesAux
      rw [decodeRune_latin1]
      cases hw : (encodeRune b.toNat).length with
      | zero => omega
      | succ w =>
        simp only [List.map_cons]
        have : List.drop (w + 1) (encodeRune b.toNat ++ latin1ToUtf8 d) = latin1ToUtf8 d := by
          rw [← hw]; simp
        rw [this, runesAux_latin1 d fuel (by simp at h; omega)]

/-- **Latin-1 round trip.** `decodeLatin1Bytes` recovers the bytes from the text the encoder writes. -/
theorem decodeLatin1Bytes_latin1 (d : Bytes) : decodeLatin1Bytes (.str (latin1ToUtf8 d)) = some d := by
  unfold decodeLatin1Bytes runes
  have hlen : d.length ≤ (latin1ToUtf8 d).length := by
    induction d with
    | nil => simp
    | cons b d ih =>
      have := encodeRune_latin1_length b
      simp [latin1ToUtf8] at ih ⊢
      omega
  have hm := runesAux_latin1 d _ hlen
  have hall : (runesAux (latin1ToUtf8 d).length (latin1ToUtf8 d)).all (fun x => decide (x.1 < 0x100)) = true := by
    rw [List.all_eq_true]
    intro x hx
    have : x.1 ∈ (runesAux (latin1ToUtf8 d).length (latin1ToUtf8 d)).map (·.1) := List.mem_map_of_mem hx
    rw [hm] at this
    obtain ⟨b, _, hb⟩ := List.mem_map.mp this
    have := b.toNat_lt
    simp; omega
  simp only [hall, if_true]
  congr 1
  have : (runesAux (latin1ToUtf8 d).length (latin1ToUtf8 d)).map (fun x => UInt8.ofNat x.1)
      = ((runesAux (latin1ToUtf8 d).length (latin1ToUtf8 d)).map (·.1)).map UInt8.ofNat := by simp
  rw [this, hm, List.map_map]
  have : (UInt8.ofNat ∘ fun (x : UInt8) => x.toNat) = id := by funext x; simp
  rw [this, List.map_id]

end Ogorek
