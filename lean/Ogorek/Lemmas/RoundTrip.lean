import Ogorek.Lemmas.EncParse
import Ogorek.Lemmas.EncParseTxt
import Ogorek.Lemmas.Latin1
import Ogorek.Props.C02
import Ogorek.Lemmas.RepKeys

/-! Encode → Decode: running the encoder's output on the decoder machine (see `Lemmas/Rep.lean`). -/

namespace Ogorek

variable {ρ : GoVal → GoVal} {rk : Bool}

/-! ### running fragments -/

/-- What a straight-line fragment of the encoder's output may do to the decoder state besides
    pushing: nothing to memo and protocol, the heap only grows. -/
structure Frame (st st' : DState) : Prop where
  memo : st'.memo = st.memo
  proto : st'.proto = st.proto
  heap : ∃ t, st'.heap = st.heap ++ t

theorem Frame.refl (st : DState) : Frame st st := ⟨rfl, rfl, [], by simp⟩

theorem Frame.trans {a b c : DState} (h1 : Frame a b) (h2 : Frame b c) : Frame a c := by
  obtain ⟨t1, e1⟩ := h1.heap
  obtain ⟨t2, e2⟩ := h2.heap
  exact ⟨h2.memo.trans h1.memo, h2.proto.trans h1.proto, t1 ++ t2, by rw [e2, e1, List.append_assoc]⟩

theorem Frame.push (st : DState) (v : GoVal) : Frame st (Ogorek.push st v) := ⟨rfl, rfl, [], by simp [Ogorek.push]⟩

/-- The decoder's view of "which module holds bytearray" agrees with the encoder's. -/
def ProtoOK (c : ECfg) (st : DState) : Prop := pybuiltinModule st.proto = pybuiltinModuleE c.proto

theorem ProtoOK.frame {c : ECfg} {st st' : DState} (h : ProtoOK c st) (f : Frame st st') : ProtoOK c st' := by
  unfold ProtoOK at *; rw [f.proto]; exact h

/-- `bs` parses as non-STOP instructions which, from every state, run without error into a state
    related to the start by `Q` (and `Frame`). -/
def Runs (mc : MCfg) (hook : Hook) (c : ECfg) (bs : Bytes) (Q : DState → DState → Prop) : Prop :=
  ∃ is, Parses bs is ∧ ∀ insn st, ProtoOK c st →
    ∃ st', runFrom mc hook insn is st = .ok st' ∧ Frame st st' ∧ Q st st'

theorem Runs.weaken {mc : MCfg} {hook : Hook} {c : ECfg} {bs : Bytes} {Q Q' : DState → DState → Prop}
    (h : Runs mc hook c bs Q) (hq : ∀ st st', Frame st st' → Q st st' → Q' st st') : Runs mc hook c bs Q' := by
  obtain ⟨is, hp, hr⟩ := h
  refine ⟨is, hp, fun insn st hpo => ?_⟩
  obtain ⟨st', e, f, q⟩ := hr insn st hpo
  exact ⟨st', e, f, hq st st' f q⟩

theorem Runs.seq {mc : MCfg} {hook : Hook} {c : ECfg} {b1 b2 : Bytes} {Q1 Q2 : DState → DState → Prop}
    (h1 : Runs mc hook c b1 Q1) (h2 : Runs mc hook c b2 Q2) :
    Runs mc hook c (b1 ++ b2) (fun st st'' => ∃ st', Frame st st' ∧ Frame st' st'' ∧ Q1 st st' ∧ Q2 st' st'') := by
  obtain ⟨is1, hp1, hr1⟩ := h1
  obtain ⟨is2, hp2, hr2⟩ := h2
  refine ⟨is1 ++ is2, Parses.append hp1 hp2, fun insn st hpo => ?_⟩
  obtain ⟨st1, e1, f1, q1⟩ := hr1 insn st hpo
  obtain ⟨st2, e2, f2, q2⟩ := hr2 (insn + is1.length) st1 (hpo.frame f1)
  refine ⟨st2, ?_, f1.trans f2, st1, f1, f2, q1, q2⟩
  rw [runFrom_append mc hook is1 is2 insn st st1 e1, e2]

theorem Runs.one {mc : MCfg} {hook : Hook} {c : ECfg} {bs : Bytes} {i : Insn} {Q : DState → DState → Prop}
    (hp : Parses bs [i])
    (he : ∀ pos st, ProtoOK c st → ∃ st', exec mc hook i pos st = .ok st' ∧ Frame st st' ∧ Q st st') : Runs mc hook c bs Q := by
  refine ⟨[i], hp, fun insn st hpo => ?_⟩
  obtain ⟨st', e, f, q⟩ := he (insn + 1) st hpo
  exact ⟨st', by simp [runFrom, e], f, q⟩

theorem Runs.nil {mc : MCfg} {hook : Hook} {c : ECfg} : Runs mc hook c [] (fun st st' => st' = st) :=
  ⟨[], Parses.nil, fun _ st _ => ⟨st, rfl, Frame.refl st, rfl⟩⟩

/-- The fragment pushes exactly one value, which (with the heap it refers to) satisfies `P`. -/
def Pushes (mc : MCfg) (hook : Hook) (c : ECfg) (bs : Bytes) (P : List HObj → GoVal → Prop) : Prop :=
  Runs mc hook c bs (fun st st' => ∃ r, st'.stack = r :: st.stack ∧ P st'.heap r)

/-- The fragment pushes `l` values, none of them the marker (bottom to top: `rs`). -/
def PushesN (mc : MCfg) (hook : Hook) (c : ECfg) (bs : Bytes) (l : Nat) (PL : List HObj → List GoVal → Prop) : Prop :=
  Runs mc hook c bs (fun st st' => ∃ rs, st'.stack = rs.reverse ++ st.stack ∧ rs.length = l ∧
    (∀ r ∈ rs, isMark r = false) ∧ PL st'.heap rs)

/-- A single instruction that just pushes `r`. -/
theorem Pushes.one {mc : MCfg} {hook : Hook} {c : ECfg} {bs : Bytes} {i : Insn} {P : List HObj → GoVal → Prop} (r : DState → GoVal)
    (hp : Parses bs [i]) (he : ∀ pos st, exec mc hook i pos st = .ok (push st (r st))) (hP : ∀ st, P st.heap (r st)) :
    Pushes mc hook c bs P :=
  Runs.one hp fun pos st _ => ⟨push st (r st), he pos st, Frame.push st _, r st, rfl, hP st⟩

theorem parses_nil_eq {is : List Insn} (h : Parses [] is) : is = [] := by
  cases is with
  | nil => rfl
  | cons i is =>
    obtain ⟨b1, b2, e, _, hp, _⟩ := h
    have hb : b1 = [] := by
      cases b1 with
      | nil => rfl
      | cons x xs => simp at e
    subst hb
    have := hp []
    simp [parseInsn, Rd.bind, readByte] at this

theorem userOKAll_nm : (rs : List GoVal) → (∀ r ∈ rs, isMark r = false) → userOKAll rs = .ok ()
  | [], _ => rfl
  | r :: rs, h => by
    have h1 : isMark r = false := h r (by simp)
    have h2 := userOKAll_nm rs (fun x hx => h x (by simp [hx]))
    cases r <;> simp_all [userOKAll, userOK, isMark, bind, Except.bind]

theorem userOK_nm {r : GoVal} (h : isMark r = false) : userOK r = .ok () := by
  cases r <;> simp_all [userOK, isMark]

theorem splitAtMark_append : (l s : List GoVal) → (∀ r ∈ l, isMark r = false) →
    splitAtMark (l ++ .mark :: s) = some (l, s)
  | [], s, _ => by simp [splitAtMark, isMark]
  | r :: l, s, h => by
    have h1 : isMark r = false := h r (by simp)
    have h2 := splitAtMark_append l s (fun x hx => h x (by simp [hx]))
    simp [splitAtMark, h1, h2]

end Ogorek

namespace Ogorek

variable {ρ : GoVal → GoVal} {rk : Bool}

/-! ### the encoder's composite forms -/

/-- A fragment followed by one instruction whose success depends on what the fragment established. -/
theorem Runs.snoc {mc : MCfg} {hook : Hook} {c : ECfg} {b1 b2 : Bytes} {i : Insn} {Q1 Q : DState → DState → Prop}
    (h1 : Runs mc hook c b1 Q1) (hp : Parses b2 [i])
    (he : ∀ pos st st', ProtoOK c st' → Frame st st' → Q1 st st' →
      ∃ st'', exec mc hook i pos st' = .ok st'' ∧ Frame st' st'' ∧ Q st st'') :
    Runs mc hook c (b1 ++ b2) Q := by
  obtain ⟨is1, hp1, hr1⟩ := h1
  refine ⟨is1 ++ [i], Parses.append hp1 hp, fun insn st hpo => ?_⟩
  obtain ⟨st1, e1, f1, q1⟩ := hr1 insn st hpo
  obtain ⟨st2, e2, f2, q2⟩ := he (insn + is1.length + 1) st st1 (hpo.frame f1) f1 q1
  refine ⟨st2, ?_, f1.trans f2, q2⟩
  rw [runFrom_append mc hook is1 [i] insn st st1 e1]
  simp [runFrom, e2]

/-- MARK, then a fragment. -/
theorem Runs.mark_then {mc : MCfg} {hook : Hook} {c : ECfg} {b : Bytes} {Q : DState → DState → Prop} (h : Runs mc hook c b Q) :
    Runs mc hook c (40 :: b) (fun st st' => Q (push st .mark) st') := by
  obtain ⟨is, hp, hr⟩ := h
  refine ⟨.mark :: is, ?_, fun insn st hpo => ?_⟩
  · have := Parses.append (parses_op 40 .mark rfl parseArg_40) hp
    simpa using this
  · obtain ⟨st', e, f, q⟩ := hr (insn + 1) (push st .mark) (hpo.frame (Frame.push st _))
    exact ⟨st', by simp [runFrom, exec, e], (Frame.push st _).trans f, q⟩

theorem take_reverse_append (rs s0 : List GoVal) : (rs.reverse ++ s0).take rs.length = rs.reverse := by
  have : rs.length = rs.reverse.length := by simp
  rw [this, List.take_left']
  rfl

theorem drop_reverse_append (rs s0 : List GoVal) : (rs.reverse ++ s0).drop rs.length = s0 := by
  have : rs.length = rs.reverse.length := by simp
  rw [this, List.drop_left']
  rfl

/-- `encodeTupleOf`: whatever the items push becomes one Tuple. -/
theorem pushes_tupleOf {mc : MCfg} {hook : Hook} {c : ECfg} (l : Nat) (items : Out) (PL : List HObj → List GoVal → Prop)
    (he : items.err = none) (hl0 : l = 0 → flat items = [])
    (hi : PushesN mc hook c (flat items) l PL) :
    Pushes mc hook c (flat (encodeTupleOf c l items)) (fun h r => ∃ rs, r = .tuple rs ∧ PL h rs) := by
  unfold encodeTupleOf
  split
  · -- TUPLE1..3
    rename_i h
    obtain ⟨_, h1, h3⟩ := h
    rw [flat_seq _ _ he, flat_emit]
    have hp : Parses [if l = 1 then (0x85 : UInt8) else if l = 2 then 0x86 else 0x87] [.tupleN l] := by
      have : l = 1 ∨ l = 2 ∨ l = 3 := by omega
      rcases this with rfl | rfl | rfl
      · exact parses_op 0x85 (.tupleN 1) rfl parseArg_133
      · exact parses_op 0x86 (.tupleN 2) rfl parseArg_134
      · exact parses_op 0x87 (.tupleN 3) rfl parseArg_135
    refine Runs.snoc hi hp ?_
    intro pos st st' _ _ ⟨rs, hst, hlen, hnm, hPL⟩
    refine ⟨{ st' with stack := .tuple rs :: st.stack }, ?_, ⟨rfl, rfl, [], by simp⟩, .tuple rs, rfl, rs, rfl, hPL⟩
    have hl' : ¬ st'.stack.length < l := by rw [hst]; simp; omega
    have ht : st'.stack.take l = rs.reverse := by rw [hst, ← hlen]; exact take_reverse_append rs _
    have hd : st'.stack.drop l = st.stack := by rw [hst, ← hlen]; exact drop_reverse_append rs _
    simp only [exec, hl', if_false, ht, hd, List.reverse_reverse, userOKAll_nm rs hnm, bind, Except.bind, pure, Except.pure]
  · split
    · -- EMPTY_TUPLE
      rename_i h
      obtain ⟨_, rfl⟩ := h
      rw [flat_emit]
      obtain ⟨is, hp, hr⟩ := hi
      rw [hl0 rfl] at hp
      have := parses_nil_eq hp; subst this
      refine Runs.one (parses_op 41 .emptyTuple rfl parseArg_41) fun pos st hpo => ?_
      obtain ⟨st', e, _, rs, _, hlen, _, hPL⟩ := hr 0 st hpo
      simp [runFrom] at e; subst e
      have : rs = [] := List.length_eq_zero_iff.mp hlen
      subst this
      exact ⟨push st (.tuple []), by simp [exec], Frame.push st _, .tuple [], rfl, [], rfl, by simpa [push] using hPL⟩
    · -- MARK items TUPLE
      have h1 : (emit [40] +> items).err = none := by simp [Out.seq, emit, he]
      rw [flat_seq _ _ h1, flat_seq _ _ (by simp [emit]), flat_emit, flat_emit]
      have hm := Runs.mark_then hi
      refine Runs.snoc (by simpa using hm) (parses_op 116 .tuple rfl parseArg_116) ?_
      intro pos st st' _ _ ⟨rs, hst, hlen, hnm, hPL⟩
      refine ⟨{ st' with stack := .tuple rs :: st.stack }, ?_, ⟨rfl, rfl, [], by simp⟩, .tuple rs, rfl, rs, rfl, hPL⟩
      have hsp : splitAtMark st'.stack = some (rs.reverse, st.stack) := by
        rw [hst]; simp only [push]
        exact splitAtMark_append rs.reverse st.stack (fun r hr => hnm r (by simpa using hr))
      simp only [exec, hsp, List.reverse_reverse]

end Ogorek

namespace Ogorek

variable {ρ : GoVal → GoVal} {rk : Bool}

/-! error-freeness of the binary forms -/

@[simp] theorem emit_err (bs : Bytes) : (emit bs).err = none := rfl

theorem seq_err {a b : Out} (h : a.err = none) : (a +> b).err = b.err := by simp [Out.seq, h]

theorem encodeUnicode_err {c : ECfg} (s : Bytes) (hp : c.proto ≥ 1) : (encodeUnicode c s).err = none := by
  unfold encodeUnicode; simp only [hp, if_true]; split <;> simp [Out.seq, emit]

theorem encodeByteString_err {c : ECfg} (ip : IsPrint) (s : Bytes) (hp : c.proto ≥ 1) : (encodeByteString ip c s).err = none := by
  unfold encodeByteString; simp only [hp, if_true]; split <;> simp [Out.seq, emit]

theorem encodeString_err {c : ECfg} (ip : IsPrint) (s : Bytes) (hp : c.proto ≥ 1) : (encodeString ip c s).err = none := by
  unfold encodeString; split
  · exact encodeUnicode_err s hp
  · exact encodeByteString_err ip s hp

theorem encodeTupleOf_err {c : ECfg} (l : Nat) (items : Out) (h : items.err = none) : (encodeTupleOf c l items).err = none := by
  unfold encodeTupleOf
  split
  · rw [seq_err h]; rfl
  · split
    · rfl
    · rw [seq_err (by rw [seq_err rfl]; exact h)]; rfl

theorem encodeClass_err {c : ECfg} (ip : IsPrint) (m n : Bytes) (hp : c.proto ≥ 1)
    (hlf : (containsLF m || containsLF n) = false) : (encodeClass ip c m n).err = none := by
  unfold encodeClass
  split
  · rw [seq_err (by rw [seq_err (encodeString_err ip m hp)]; exact encodeString_err ip n hp)]; rfl
  · simp [hlf]

theorem encodeTupleOf_err_inv {c : ECfg} (l : Nat) (items : Out) (hl : l ≠ 0) (h : (encodeTupleOf c l items).err = none) :
    items.err = none := by
  unfold encodeTupleOf at h
  split at h
  · exact (seq_err_none h).1
  · split at h
    · rename_i hh; exact absurd hh.2 hl
    · exact (seq_err_none (seq_err_none h).1).2

section forms
variable {mc : MCfg} {hook : Hook} {c : ECfg} (ip : IsPrint)

theorem pushes_none : Pushes mc hook c (flat (emit [78])) (fun _ r => r = .none) := by
  rw [flat_emit]
  exact Pushes.one (fun _ => .none) (parses_op 78 .pushNone rfl parseArg_78) (fun _ _ => rfl) (fun _ => rfl)

theorem pushes_bool (b : Bool) : Pushes mc hook c (flat (encodeBool c b)) (fun _ r => r = .bool b) :=
  Pushes.one (fun _ => .bool b) (parses_bool' c b) (fun _ _ => rfl) (fun _ => rfl)

theorem pushes_int (i : Int) (hi : inInt64 i = true) : Pushes mc hook c (flat (encodeInt c i)) (fun _ r => r = .int i) :=
  Pushes.one (fun _ => .int i) (parses_int c i hi) (fun _ _ => rfl) (fun _ => rfl)

theorem pushes_long (i : Int) : Pushes mc hook c (flat (encodeLong i)) (fun _ r => ∃ id, r = .big id i) :=
  Runs.one (parses_long i) fun _ st _ =>
    ⟨push { st with nbig := st.nbig + 1 } (.big st.nbig i), rfl, ⟨rfl, rfl, [], by simp [push]⟩, .big st.nbig i, rfl, st.nbig, rfl⟩

theorem pushes_float (f : F64) (hf : c.proto ≥ 1 ∨ FloatTextOK f) : Pushes mc hook c (flat (encodeFloat c f)) (fun _ r => r = .float f) := by
  by_cases hp : c.proto ≥ 1
  · exact Pushes.one (fun _ => .float f) (parses_float_bin c f hp) (fun _ _ => rfl) (fun _ => rfl)
  · exact Pushes.one (fun _ => .float f) (parses_float_txt c f hp (hf.resolve_left hp)) (fun _ _ => rfl) (fun _ => rfl)

theorem pushes_unicode (s : Bytes) (hl : s.length < 2 ^ 32) (he : (encodeUnicode c s).err = none) :
    Pushes mc hook c (flat (encodeUnicode c s)) (fun _ r => r = .str s) := by
  by_cases hp : c.proto ≥ 1
  · exact Pushes.one (fun _ => .str s) (parses_unicode_bin c s hp hl) (fun _ _ => rfl) (fun _ => rfl)
  · exact Pushes.one (fun _ => .str s) (parses_unicode_txt c s hp he) (fun _ _ => rfl) (fun _ => rfl)

theorem pushes_bytestring (hip : ip 10 = false) (s : Bytes) (hl : s.length < 2 ^ 32) :
    Pushes mc hook c (flat (encodeByteString ip c s)) (fun _ r => r = if mc.cfg.su then .bytestr s else .str s) := by
  by_cases hp : c.proto ≥ 1
  · exact Pushes.one (fun _ => if mc.cfg.su then .bytestr s else .str s) (parses_bytestring_bin ip c s hp hl)
      (fun _ _ => rfl) (fun _ => rfl)
  · exact Pushes.one (fun _ => if mc.cfg.su then .bytestr s else .str s) (parses_bytestring_txt ip hip c s hp)
      (fun _ _ => rfl) (fun _ => rfl)

theorem pushes_string (hip : ip 10 = false) (hsu : mc.cfg.su = c.su) (s : Bytes) (hl : s.length < 2 ^ 32)
    (he : (encodeString ip c s).err = none) :
    Pushes mc hook c (flat (encodeString ip c s)) (fun _ r => r = .str s) := by
  unfold encodeString at he ⊢
  split
  · rename_i h; simp only [h, if_true] at he
    exact pushes_unicode s hl he
  · rename_i h
    have hs : mc.cfg.su = false := by
      rw [hsu]; cases hc : c.su
      · rfl
      · exact absurd (Or.inl hc) h
    have := pushes_bytestring (mc := mc) (hook := hook) (c := c) ip hip s hl
    simpa [hs] using this

/-- A Class: GLOBAL, or two strings and STACK_GLOBAL. -/
theorem pushes_class (hip : ip 10 = false) (hsu : mc.cfg.su = c.su) (m n : Bytes) (hm : m.length < 2 ^ 32) (hn : n.length < 2 ^ 32)
    (he : (encodeClass ip c m n).err = none) :
    Pushes mc hook c (flat (encodeClass ip c m n)) (fun _ r => r = .cls m n) := by
  by_cases h4 : c.proto ≥ 4
  · have e : encodeClass ip c m n = encodeString ip c m +> encodeString ip c n +> emit [0x93] := by
      simp [encodeClass, h4]
    rw [e] at he ⊢
    obtain ⟨h12, _⟩ := seq_err_none he
    obtain ⟨h1, h2⟩ := seq_err_none h12
    rw [flat_seq _ _ h12, flat_seq _ _ h1, flat_emit]
    have r1 := pushes_string (mc := mc) (hook := hook) ip hip hsu m hm h1
    have r2 := pushes_string (mc := mc) (hook := hook) ip hip hsu n hn h2
    refine Runs.snoc (Runs.seq r1 r2) (parses_op 0x93 .stackGlobal rfl parseArg_147) ?_
    intro pos st st2 _ _ ⟨st1, _, _, ⟨a, ha, ea⟩, ⟨b, hb, eb⟩⟩
    subst ea; subst eb
    refine ⟨{ st2 with stack := .cls m n :: st.stack }, ?_, ⟨rfl, rfl, [], by simp⟩, .cls m n, rfl, rfl⟩
    have hst : st2.stack = .str n :: .str m :: st.stack := by rw [hb, ha]
    simp [exec, xpop, hst, bind, Except.bind, pure, Except.pure, push]
  · exact Pushes.one (fun _ => .cls m n) (parses_class_global ip c m n h4 he) (fun _ _ => rfl) (fun _ => rfl)

end forms

end Ogorek

namespace Ogorek

variable {ρ : GoVal → GoVal} {rk : Bool}

section reduce
variable {mc : MCfg} {hook : Hook} {c : ECfg} (ip : IsPrint)

/-- What REDUCE makes of a class and its argument tuple. -/
def reduceRes (proto : Nat) (m n : Bytes) (rs : List GoVal) : M GoVal :=
  match handleCall proto m n rs with
  | some r => r
  | none => .ok (.call m n rs)

/-- `class, args-tuple, REDUCE`. -/
theorem pushes_reduce (m n : Bytes) (clsOut argsOut : Out) (PL : List HObj → List GoVal → Prop)
    (R : List HObj → GoVal → Prop)
    (h1 : clsOut.err = none) (h2 : argsOut.err = none)
    (hc : Pushes mc hook c (flat clsOut) (fun _ r => r = .cls m n))
    (ha : Pushes mc hook c (flat argsOut) (fun h r => ∃ rs, r = .tuple rs ∧ PL h rs))
    (hred : ∀ st rs, ProtoOK c st → PL st.heap rs → ∃ v, reduceRes st.proto m n rs = .ok v ∧ R st.heap v) :
    Pushes mc hook c (flat (clsOut +> argsOut +> emit [82])) R := by
  have h12 : (clsOut +> argsOut).err = none := by simp [Out.seq, h1, h2]
  rw [flat_seq _ _ h12, flat_seq _ _ h1, flat_emit]
  refine Runs.snoc (Runs.seq hc ha) (parses_op 82 .reduce rfl parseArg_82) ?_
  intro pos st st2 hpo _ ⟨st1, _, _, ⟨a, ha', ea⟩, ⟨b, hb, rs, eb, hPL⟩⟩
  subst ea; subst eb
  have hst : st2.stack = .tuple rs :: .cls m n :: st.stack := by rw [hb, ha']
  obtain ⟨v, hv, hR⟩ := hred { st2 with stack := st.stack } rs (by simpa [ProtoOK] using hpo) hPL
  refine ⟨{ st2 with stack := v :: st.stack }, ?_, ⟨rfl, rfl, [], by simp⟩, v, rfl, hR⟩
  unfold reduceRes at hv
  simp only [exec, hst, xpop, bind, Except.bind, pure, Except.pure, push, List.length_cons]
  simp only [show ¬ (st.stack.length + 1 + 1 < 2) by omega, if_false]
  cases hh : handleCall st2.proto m n rs with
  | none => simp [hh] at hv; simp [hv]
  | some r => simp [hh] at hv; simp [hv]

end reduce

end Ogorek

namespace Ogorek

variable {ρ : GoVal → GoVal} {rk : Bool}

section bytesforms
variable {mc : MCfg} {hook : Hook} {c : ECfg} (ip : IsPrint)

theorem PushesN.of_one {bs : Bytes} {P : GoVal → Prop} (h : Pushes mc hook c bs (fun _ r => P r)) (hm : ∀ r, P r → isMark r = false) :
    PushesN mc hook c bs 1 (fun _ rs => ∃ a, rs = [a] ∧ P a) :=
  Runs.weaken h fun st st' _ ⟨r, hs, hP⟩ => ⟨[r], by simpa using hs, rfl, by simpa using hm r hP, r, rfl, hP⟩

theorem PushesN.of_two {b1 b2 : Bytes} {P1 P2 : GoVal → Prop} (h1 : Pushes mc hook c b1 (fun _ r => P1 r))
    (h2 : Pushes mc hook c b2 (fun _ r => P2 r)) (hm1 : ∀ r, P1 r → isMark r = false) (hm2 : ∀ r, P2 r → isMark r = false) :
    PushesN mc hook c (b1 ++ b2) 2 (fun _ rs => ∃ a b, rs = [a, b] ∧ P1 a ∧ P2 b) :=
  Runs.weaken (Runs.seq h1 h2) fun st st' _ ⟨st1, _, _, ⟨a, ha, pa⟩, ⟨b, hb, pb⟩⟩ =>
    ⟨[a, b], by simp [hb, ha], rfl, by simp [hm1 a pa, hm2 b pb], a, b, rfl, pa, pb⟩

theorem latin1ToUtf8_length_le (d : Bytes) : (latin1ToUtf8 d).length ≤ 2 * d.length := by
  induction d with
  | nil => simp [latin1ToUtf8]
  | cons b d ih =>
    have e : latin1ToUtf8 (b :: d) = encodeRune b.toNat ++ latin1ToUtf8 d := by simp [latin1ToUtf8]
    have hb := b.toNat_lt
    have : (encodeRune b.toNat).length ≤ 2 := by
      unfold encodeRune
      split
      · simp
      · have : b.toNat < 0x800 := by omega
        simp [this]
    rw [e]; simp; omega

theorem pushes_bytes (hip : ip 10 = false) (hsu : mc.cfg.su = c.su) (s : Bytes) (hl : s.length < 2 ^ 31)
    (he : (encodeBytes ip c s).err = none) :
    Pushes mc hook c (flat (encodeBytes ip c s)) (fun _ r => r = .bytes s) := by
  by_cases h3 : c.proto ≥ 3
  · exact Pushes.one (fun _ => .bytes s) (parses_bytes_hi ip c s h3 (by omega)) (fun _ _ => rfl) (fun _ => rfl)
  · have e : encodeBytes ip c s = encodeClass ip c (sb "_codecs") (sb "encode")
        +> encodeTupleOf c 2 (encodeUnicode c (latin1ToUtf8 s) +> encodeByteString ip c (sb "latin1")) +> emit [82] := by
      simp [encodeBytes, h3, latin1ToUtf8]
    rw [e] at he ⊢
    obtain ⟨h12, _⟩ := seq_err_none he
    obtain ⟨hce, hte⟩ := seq_err_none h12
    have hie := encodeTupleOf_err_inv 2 _ (by omega) hte
    obtain ⟨hue, hbe⟩ := seq_err_none hie
    have hul : (latin1ToUtf8 s).length < 2 ^ 32 := by have := latin1ToUtf8_length_le s; omega
    have hu := pushes_unicode (mc := mc) (hook := hook) (c := c) (latin1ToUtf8 s) hul hue
    have hb := pushes_bytestring (mc := mc) (hook := hook) (c := c) ip hip (sb "latin1") (by decide)
    have hitems := PushesN.of_two hu hb (by intro r h; subst h; rfl) (by intro r h; subst h; split <;> rfl)
    rw [← flat_seq _ _ hue] at hitems
    have htup := pushes_tupleOf (mc := mc) (hook := hook) (c := c) 2 _ _ hie (by omega) hitems
    refine pushes_reduce (sb "_codecs") (sb "encode") _ _ _ _ hce hte
      (pushes_class ip hip hsu _ _ (by decide) (by decide) hce) htup ?_
    intro st rs _ ⟨a, b, e, ha, hb⟩
    subst e; subst ha; subst hb
    refine ⟨.bytes s, ?_, rfl⟩
    unfold reduceRes
    cases hsu' : mc.cfg.su
    · simp [(C02_bytes_forms st.proto s).1]
    · simp [(C02_bytes_forms st.proto s).2.1]

end bytesforms

end Ogorek

namespace Ogorek

variable {ρ : GoVal → GoVal} {rk : Bool}

section bytearrayform
variable {mc : MCfg} {hook : Hook} {c : ECfg} (ip : IsPrint)

theorem encodeBytes_err (s : Bytes) (hp : c.proto ≥ 1) : (encodeBytes ip c s).err = none := by
  unfold encodeBytes
  split
  · split <;> simp [Out.seq, emit]
  · have hce : (encodeClass ip c (sb "_codecs") (sb "encode")).err = none := encodeClass_err ip _ _ hp (by decide)
    have hie : (encodeUnicode c (s.flatMap fun b => encodeRune b.toNat) +> encodeByteString ip c (sb "latin1")).err = none := by
      rw [seq_err (encodeUnicode_err _ hp)]; exact encodeByteString_err ip _ hp
    simp only []
    rw [seq_err (by rw [seq_err hce]; exact encodeTupleOf_err 2 _ hie)]; rfl

theorem pybuiltinModuleE_noLF (p : Int) : (containsLF (pybuiltinModuleE p) || containsLF (sb "bytearray")) = false := by
  unfold pybuiltinModuleE; split <;> decide

theorem pybuiltinModuleE_len (p : Int) : (pybuiltinModuleE p).length < 2 ^ 32 := by
  unfold pybuiltinModuleE; split <;> decide

theorem pushes_bytearray (hip : ip 10 = false) (hsu : mc.cfg.su = c.su) (s : Bytes) (hl : s.length < 2 ^ 31)
    (he : (encodeByteArray ip c s).err = none) :
    Pushes mc hook c (flat (encodeByteArray ip c s)) (fun _ r => r = .bytearray s) := by
  by_cases h5 : c.proto ≥ 5
  · exact Pushes.one (fun _ => .bytearray s) (parses_bytearray_hi ip c s h5 (by omega)) (fun _ _ => rfl) (fun _ => rfl)
  · have e : encodeByteArray ip c s = encodeClass ip c (pybuiltinModuleE c.proto) (sb "bytearray")
        +> encodeTupleOf c 1 (encodeBytes ip c s) +> emit [82] := by
      simp [encodeByteArray, h5]
    rw [e] at he ⊢
    obtain ⟨h12, _⟩ := seq_err_none he
    obtain ⟨hce, hte⟩ := seq_err_none h12
    have hbe := encodeTupleOf_err_inv 1 _ (by omega) hte
    have hitems := PushesN.of_one (pushes_bytes (mc := mc) (hook := hook) ip hip hsu s hl hbe) (by intro r h; subst h; rfl)
    have htup := pushes_tupleOf (mc := mc) (hook := hook) (c := c) 1 _ _ hbe (by omega) hitems
    refine pushes_reduce (pybuiltinModuleE c.proto) (sb "bytearray") _ _ _ _ hce hte
      (pushes_class ip hip hsu _ _ (pybuiltinModuleE_len _) (by decide) hce) htup ?_
    intro st rs hpo ⟨a, e, ha⟩
    subst e; subst ha
    refine ⟨.bytearray s, ?_, rfl⟩
    unfold reduceRes
    unfold ProtoOK at hpo
    rw [← hpo, (C02_bytes_forms st.proto s).2.2.2.2]

end bytearrayform

end Ogorek

namespace Ogorek

variable {ρ : GoVal → GoVal} {rk : Bool}

/-! ### the values the theorem covers, and the main induction -/

/-- Calls that the decoder itself interprets (the bytes / bytearray forms): not values of their own. -/
def reservedCall (m n : Bytes) : Bool :=
  (m == sb "_codecs" && n == sb "encode") ||
  ((m == sb "__builtin__" || m == sb "builtins") && (n == sb "bytes" || n == sb "bytearray"))

theorem handleCall_none (proto : Nat) (m n : Bytes) (args : List GoVal) (h : reservedCall m n = false) :
    handleCall proto m n args = none := by
  unfold reservedCall at h
  unfold handleCall pybuiltinModule
  cases h1 : m == sb "_codecs" <;> cases h2 : n == sb "encode" <;> cases h3 : m == sb "__builtin__" <;>
    cases h4 : m == sb "builtins" <;> cases h5 : n == sb "bytes" <;> cases h6 : n == sb "bytearray" <;>
    simp_all <;> split <;> simp_all

def freshOverB (eqf : GoVal → GoVal → Bool) : List GoVal → List GoVal → Bool
  | _, [] => true
  | old, k :: ks => old.all (fun o => !eqf k o) && freshOverB eqf (old ++ [k]) ks

theorem freshOver_of_B {eqf : GoVal → GoVal → Bool} : (old ks : List GoVal) → freshOverB eqf old ks = true → freshOver eqf old ks
  | _, [], _ => by simp [freshOver]
  | old, k :: ks, h => by
    simp only [freshOverB, Bool.and_eq_true, List.all_eq_true, Bool.not_eq_true'] at h
    exact ⟨h.1, freshOver_of_B (old ++ [k]) ks h.2⟩

/-- The keys of one map / Dict literal, as the decoder's table (Dict with PyDict, builtin map without)
    will see them: acceptable as keys, coming back unchanged (`keyLike` / `mapKeyPlain`), and pairwise
    different for that table's notion of equality — so no entry replaces another. -/
def keysOK (cfg : Cfg) (rk : Bool) (kvs : Entries) : Bool :=
  if cfg.pyDict then
    kvs.all (fun e => keyLike cfg.su rk e.1 && hashable e.1) && freshOverB goEqual [] (kvs.map (·.1))
  else
    kvs.all (fun e => mapKeyPlain cfg.su rk e.1) && freshOverB goKeyEq [] (kvs.map (·.1))

mutual
/-- Values built only from the types Decode itself produces, with payloads below the 4 GiB that
    the 4-byte length forms can carry, and maps / Dicts whose keys are `keysOK`. -/
def canon (cfg : Cfg) (rk : Bool) : GoVal → Bool
  | .none | .nil | .bool _ | .float _ | .big _ _ => true
  | .int i => inInt64 i
  | .str s | .bytestr s => decide (s.length < 2 ^ 32)
  | .bytes s | .bytearray s => decide (s.length < 2 ^ 31)
  | .cls m n => decide (m.length < 2 ^ 32) && decide (n.length < 2 ^ 32)
  | .list xs | .tuple xs => canonList cfg rk xs
  | .call m n args => decide (m.length < 2 ^ 32) && decide (n.length < 2 ^ 32) && !reservedCall m n && canonList cfg rk args
  | .ref p => canon cfg rk p
  | .map kvs | .dict kvs => canonPairs cfg rk kvs && keysOK cfg rk kvs
  | .uint _ | .complex _ _ | .user _ | .mark | .href _ | .cycle => false
def canonList (cfg : Cfg) (rk : Bool) : List GoVal → Bool
  | [] => true
  | x :: xs => canon cfg rk x && canonList cfg rk xs
def canonPairs (cfg : Cfg) (rk : Bool) : List (GoVal × GoVal) → Bool
  | [] => true
  | (k, v) :: r => canon cfg rk k && canon cfg rk v && canonPairs cfg rk r
end

section dictform
variable {mc : MCfg} {hook : Hook} {c : ECfg}

theorem goMapHashable_of_plain {su : Bool} : (k : GoVal) → mapKeyPlain su rk k = true → goMapHashable k = true
  | .none, _ | .bool _, _ | .int _, _ | .float _, _ | .str _, _ | .bytes _, _ | .cls _ _, _ | .bytestr _, _ => by simp [goMapHashable]
  | .ref p, h => by simp only [mapKeyPlain, Bool.and_eq_true] at h; simp [goMapHashable, goMapHashable_of_plain p h.2]
  | .nil, h | .uint _, h | .complex _ _, h | .bytearray _, h | .list _, h | .map _, h | .big _ _, h
  | .dict _, h | .user _, h | .mark, h | .href _, h | .cycle, h | .tuple _, h | .call _ _ _, h => by simp [mapKeyPlain] at h

theorem RepList.eq_of_plain (hρ : rk = true → ∀ p, ρ p = .ref p) {h : List HObj} : {rs ks : List GoVal} → RepList mc ρ h rs ks →
    (∀ k ∈ ks, mapKeyPlain mc.cfg.su rk k = true) → rs = ks
  | [], [], _, _ => rfl
  | [], _ :: _, hr, _ => by simp [RepList] at hr
  | _ :: _, [], hr, _ => by simp [RepList] at hr
  | r :: rs, k :: ks, hr, hk => by
    simp only [RepList] at hr
    rw [Rep.eq_of_plain hρ k hr.1 (hk k (by simp)), RepList.eq_of_plain hρ hr.2 (fun x hx => hk x (by simp [hx]))]

theorem keyLikeList_of_all {su : Bool} : (kvs : Entries) → (∀ e ∈ kvs, keyLike su rk e.1 = true) → keyLikeList su rk (kvs.map (·.1)) = true
  | [], _ => rfl
  | e :: kvs, h => by
    simp only [List.map_cons, keyLikeList, Bool.and_eq_true]
    exact ⟨h e (by simp), keyLikeList_of_all kvs (fun x hx => h x (by simp [hx]))⟩

/-- What DICT makes of the decoded keys and values, given that the encoded keys were `keysOK`. -/
theorem assignAll_of_keysOK (hρ : rk = true → ∀ p, ρ p = .ref p) {h : List HObj} (kvs es : Entries) (hk : keysOK mc.cfg rk kvs = true) (hp : RepPairs mc ρ h es kvs) :
    assignAll (dictKind mc.cfg) [] (flatE es) = some es := by
  have hkeys := hp.keys
  unfold keysOK at hk
  unfold dictKind
  by_cases hpd : mc.cfg.pyDict = true
  · simp only [hpd, if_true, Bool.and_eq_true, List.all_eq_true] at hk ⊢
    obtain ⟨hall, hfresh⟩ := hk
    have hkl := keyLikeList_of_all (su := mc.cfg.su) kvs (fun e he => (hall e he).1)
    have hh : ∀ e ∈ es, hashable e.1 = true := by
      intro e he
      obtain ⟨x, hx, h1, h2⟩ := RepList.mem hkeys hkl e.1 (List.mem_map_of_mem he)
      rw [Rep.hashable_eq hρ h1 h2]
      obtain ⟨kv, hkv, rfl⟩ := List.mem_map.mp hx
      exact (hall kv hkv).2
    have hf := freshOver_rep hρ (kvs.map (·.1)) (es.map (·.1)) [] [] hkeys hkl (by simp [RepList]) rfl
      (freshOver_of_B [] _ hfresh)
    simpa using assignAll_dict_append es [] hh (by simpa using hf)
  · simp only [hpd, Bool.false_eq_true, if_false, Bool.and_eq_true, List.all_eq_true] at hk ⊢
    obtain ⟨hall, hfresh⟩ := hk
    have hpl : ∀ k ∈ kvs.map (·.1), mapKeyPlain mc.cfg.su rk k = true := by
      intro k hk'
      obtain ⟨kv, hkv, rfl⟩ := List.mem_map.mp hk'
      exact hall kv hkv
    have heq := RepList.eq_of_plain hρ hkeys hpl
    have hh : ∀ e ∈ es, goMapHashable e.1 = true := by
      intro e he
      have : e.1 ∈ kvs.map (·.1) := by rw [← heq]; exact List.mem_map_of_mem he
      exact goMapHashable_of_plain _ (hpl _ this)
    simpa using assignAll_map_append es [] hh (by rw [heq]; simpa using freshOver_of_B [] _ hfresh)

/-- `EMPTY_DICT`, or `MARK k1 v1 … DICT`. -/
theorem pushes_dictform (hρ : rk = true → ∀ p, ρ p = .ref p) (kvs : Entries) (pairsOut : Out) (hk : keysOK mc.cfg rk kvs = true)
    (he : pairsOut.err = none)
    (hi : PushesN mc hook c (flat pairsOut) (flatE kvs).length (fun h rs => RepList mc ρ h rs (flatE kvs))) :
    Pushes mc hook c (flat (if c.proto ≥ 1 ∧ kvs.length = 0 then emit [125] else emit [40] +> pairsOut +> emit [100]))
      (fun h r => ∃ id es, r = .href id ∧ h[id]? = some { kind := dictKind mc.cfg, kvs := es } ∧ RepPairs mc ρ h es kvs) := by
  split
  · rename_i h
    have hx : kvs = [] := List.length_eq_zero_iff.mp h.2
    subst hx
    rw [flat_emit]
    refine Runs.one (parses_op 125 .emptyDict rfl parseArg_125) fun pos st _ => ?_
    refine ⟨push { st with heap := st.heap ++ [{ kind := dictKind mc.cfg }] } (.href st.heap.length), ?_,
      ⟨rfl, rfl, [{ kind := dictKind mc.cfg }], by simp [push]⟩, .href st.heap.length, rfl, st.heap.length, [], rfl, ?_, ?_⟩
    · simp [exec, allocObj]
    · simp [push]
    · simp [RepPairs]
  · have h1 : (emit [40] +> pairsOut).err = none := by rw [seq_err rfl]; exact he
    rw [flat_seq _ _ h1, flat_seq _ _ rfl, flat_emit, flat_emit]
    have hm := Runs.mark_then hi
    refine Runs.snoc (by simpa using hm) (parses_op 100 .dict rfl parseArg_100) ?_
    intro pos st st' _ _ ⟨rs, hst, hlen, hnm, hPL⟩
    obtain ⟨es, rfl, hp⟩ := repPairs_of_flat kvs rs hPL
    have hsp : splitAtMark st'.stack = some ((flatE es).reverse, st.stack) := by
      rw [hst]; simp only [push]
      exact splitAtMark_append (flatE es).reverse st.stack (fun r hr => hnm r (by simpa using hr))
    have heven : ¬ ((flatE es).reverse.length % 2 ≠ 0) := by simp [flatE_length]
    have hass := assignAll_of_keysOK hρ kvs es hk hp
    let o : HObj := { kind := dictKind mc.cfg, kvs := es }
    refine ⟨{ st' with heap := st'.heap ++ [o], stack := .href st'.heap.length :: st.stack }, ?_,
      ⟨rfl, rfl, [o], rfl⟩, .href st'.heap.length, rfl, st'.heap.length, es, rfl, by simp [o], RepPairs.mono mc ρ _ _ es kvs hp⟩
    simp only [exec, hsp, heven, if_false, List.reverse_reverse, hass, allocObj]
    rfl

end dictform

mutual
/-- The float64 values inside a value (protocol 0 writes them as text: `FloatTextOK`). -/
def floatsOf : GoVal → List F64
  | .float f => [f]
  | .list xs | .tuple xs => floatsOfList xs
  | .call _ _ args => floatsOfList args
  | .ref p => floatsOf p
  | .map kvs | .dict kvs => floatsOfPairs kvs
  | _ => []
def floatsOfList : List GoVal → List F64
  | [] => []
  | x :: xs => floatsOf x ++ floatsOfList xs
def floatsOfPairs : List (GoVal × GoVal) → List F64
  | [] => []
  | (k, v) :: r => floatsOf k ++ floatsOf v ++ floatsOfPairs r
end

section main
variable {mc : MCfg} {hook : Hook} {c : ECfg} (ip : IsPrint)

/-- `ρ p` is what the decoder leaves on the stack for `Ref{p}` under this hook, whatever the call index:
    the Ref itself without a hook or when the hook answers nil, the hook's object otherwise; never the
    stack marker, never an error. -/
def HookFor (hook : Hook) (ρ : GoVal → GoVal) : Prop :=
  (∀ p, isMark (ρ p) = false) ∧
  match hook with
  | none => ∀ p, ρ p = .ref p
  | some load => ∀ idx p, load idx (.ref p) = .replace (ρ p) ∨ (load idx (.ref p) = .keep ∧ ρ p = .ref p)

theorem handleRef_for (hh : HookFor hook ρ) (st : DState) (p : GoVal) :
    ∃ st', handleRef hook st (.ref p) = .ok st' ∧ st'.stack = ρ p :: st.stack ∧ st'.heap = st.heap ∧
      st'.memo = st.memo ∧ st'.proto = st.proto := by
  obtain ⟨_, hh⟩ := hh
  cases hook with
  | none =>
    simp only at hh
    exact ⟨push st (.ref p), by simp [handleRef], by simp [push, hh p], rfl, rfl, rfl⟩
  | some load =>
    simp only at hh
    rcases hh (({ st with calls := .ref p :: st.calls } : DState).calls.length - 1) p with h1 | ⟨h1, h2⟩
    · refine ⟨push { st with calls := .ref p :: st.calls } (ρ p), ?_, by simp [push], rfl, rfl, rfl⟩
      simp only [handleRef, h1]
    · refine ⟨push { st with calls := .ref p :: st.calls } (.ref p), ?_, by simp [push, h2], rfl, rfl, rfl⟩
      simp only [handleRef, h1]

theorem pushes_ref (hh : HookFor hook ρ) (pid : GoVal) (bs : Bytes) (h : Pushes mc hook c bs (fun h r => Rep mc ρ h r pid)) :
    Pushes mc hook c (bs ++ [81]) (fun h r => Rep mc ρ h r (.ref pid)) := by
  refine Runs.snoc h (parses_op 81 .binpersid rfl parseArg_81) ?_
  intro pos st st' _ _ ⟨r, hs, hr⟩
  obtain ⟨st2, e2, hs2, hheap, hmemo, hproto⟩ := handleRef_for hh ({ st' with stack := st.stack } : DState) r
  refine ⟨st2, ?_, ⟨hmemo, hproto, [], by simp [hheap]⟩, ρ r, by simpa using hs2, ?_⟩
  · have hu := userOK_nm hr.not_mark
    simp only [exec, popUser, pop, hs, hu, bind, Except.bind, pure, Except.pure]
    exact e2
  · simp only [Rep]
    rw [hheap]
    exact ⟨r, rfl, hh.1 r, hr⟩

/-- Protocol 0: `P<id>\n`. -/
theorem pushes_persid (hh : HookFor hook ρ) (s : Bytes) (h : containsLF s = false) :
    Pushes mc hook c (flat (emit (80 :: s ++ [10]))) (fun h r => Rep mc ρ h r (.ref (.str s))) := by
  refine Runs.one (parses_persid_txt s h) fun pos st _ => ?_
  obtain ⟨st2, e2, hs2, hheap, hmemo, hproto⟩ := handleRef_for hh st (.str s)
  refine ⟨st2, by simpa [exec] using e2, ⟨hmemo, hproto, [], by simp [hheap]⟩, ρ (.str s), hs2, ?_⟩
  simp only [Rep]
  exact ⟨.str s, rfl, hh.1 _, rfl⟩

/-- What the theorem asks of the floats of a value: nothing from protocol 1 on. -/
def FloatsOK (c : ECfg) (fs : List F64) : Prop := ∀ f ∈ fs, c.proto ≥ 1 ∨ FloatTextOK f

theorem FloatsOK.left {c : ECfg} {a b : List F64} (h : FloatsOK c (a ++ b)) : FloatsOK c a :=
  fun f hf => h f (List.mem_append_left _ hf)
theorem FloatsOK.right {c : ECfg} {a b : List F64} (h : FloatsOK c (a ++ b)) : FloatsOK c b :=
  fun f hf => h f (List.mem_append_right _ hf)

mutual
theorem rt_val (hh : HookFor hook ρ) (hρ : rk = true → ∀ p, ρ p = .ref p) (hip : ip 10 = false) (hsu : mc.cfg.su = c.su) (hlr : mc.listRef = false) :
    (v : GoVal) → canon mc.cfg rk v = true → FloatsOK c (floatsOf v) → (enc ip c v).err = none →
    Pushes mc hook c (flat (enc ip c v)) (fun h r => Rep mc ρ h r v)
  | .none, _, _, _ => by simpa [enc, Rep] using pushes_none (mc := mc) (hook := hook) (c := c)
  | .nil, _, _, _ => by simpa [enc, Rep] using pushes_none (mc := mc) (hook := hook) (c := c)
  | .bool b, _, _, _ => by simpa [enc, Rep] using pushes_bool (mc := mc) (hook := hook) (c := c) b
  | .int i, hc, _, _ => by simpa [enc, Rep] using pushes_int (mc := mc) (hook := hook) (c := c) i (by simpa [canon] using hc)
  | .big _ i, _, _, _ => by simpa [enc, Rep] using pushes_long (mc := mc) (hook := hook) (c := c) i
  | .float f, _, hf, _ => by simpa [enc, Rep] using pushes_float (mc := mc) (hook := hook) (c := c) f (hf f (by simp [floatsOf]))
  | .str s, hc, _, he => by
    simpa [enc, Rep] using pushes_string (mc := mc) (hook := hook) ip hip hsu s (by simpa [canon] using hc) (by simpa [enc] using he)
  | .bytestr s, hc, _, _ => by simpa [enc, Rep] using pushes_bytestring (mc := mc) (hook := hook) (c := c) ip hip s (by simpa [canon] using hc)
  | .bytes s, hc, _, he => by
    simpa [enc, Rep] using pushes_bytes (mc := mc) (hook := hook) ip hip hsu s (by simpa [canon] using hc) (by simpa [enc] using he)
  | .bytearray s, hc, _, he => by
    simpa [enc, Rep] using pushes_bytearray (mc := mc) (hook := hook) ip hip hsu s (by simpa [canon] using hc) (by simpa [enc] using he)
  | .cls m n, hc, _, he => by
    simp only [canon, Bool.and_eq_true, decide_eq_true_eq] at hc
    simpa [enc, Rep] using pushes_class (mc := mc) (hook := hook) ip hip hsu m n hc.1 hc.2 (by simpa [enc] using he)
  | .list xs, hc, hf, he => by
    simp only [canon] at hc
    simp only [floatsOf] at hf
    simp only [enc] at he ⊢
    split
    · -- EMPTY_LIST
      rename_i h
      have hx : xs = [] := List.length_eq_zero_iff.mp h.2
      subst hx
      rw [flat_emit]
      refine Pushes.one (fun _ => .list []) (parses_op 93 .emptyList rfl parseArg_93) (fun _ st => ?_) (fun _ => ?_)
      · simp [exec, mkList, hlr]
      · simp [Rep, RepList]
    · rename_i h
      simp only [h, if_false] at he
      obtain ⟨h12, _⟩ := seq_err_none he
      obtain ⟨_, h2⟩ := seq_err_none h12
      rw [flat_seq _ _ h12, flat_seq _ _ rfl, flat_emit, flat_emit]
      have hm := Runs.mark_then (rt_list hh hρ hip hsu hlr xs hc hf h2)
      refine Runs.snoc (by simpa using hm) (parses_op 108 .list rfl parseArg_108) ?_
      intro pos st st' _ _ ⟨rs, hst, _, hnm, hPL⟩
      refine ⟨{ st' with stack := .list rs :: st.stack }, ?_, ⟨rfl, rfl, [], by simp⟩, .list rs, rfl, ?_⟩
      · have hsp : splitAtMark st'.stack = some (rs.reverse, st.stack) := by
          rw [hst]; simp only [push]
          exact splitAtMark_append rs.reverse st.stack (fun r hr => hnm r (by simpa using hr))
        simp [exec, hsp, mkList, hlr]
      · simp only [Rep]; exact ⟨rs, rfl, hPL⟩
  | .tuple xs, hc, hf, he => by
    simp only [canon] at hc
    simp only [floatsOf] at hf
    simp only [enc] at he ⊢
    have hie : (encList ip c xs).err = none := by
      cases xs with
      | nil => rfl
      | cons x xs' => exact encodeTupleOf_err_inv _ _ (by simp) he
    have hl0 : xs.length = 0 → flat (encList ip c xs) = [] := by
      intro h; have := List.length_eq_zero_iff.mp h; subst this; simp [encList, flat, Out.nil]
    have := pushes_tupleOf (mc := mc) (hook := hook) (c := c) xs.length (encList ip c xs) (fun h rs => RepList mc ρ h rs xs) hie hl0
      (rt_list hh hρ hip hsu hlr xs hc hf hie)
    simpa only [Rep] using this
  | .map kvs, hc, hf, he => by
    simp only [canon, Bool.and_eq_true] at hc
    simp only [floatsOf] at hf
    simp only [enc] at he ⊢
    have hie : (encPairs ip c kvs).err = none := by
      cases kvs with
      | nil => rfl
      | cons x xs' =>
        have : ¬ (c.proto ≥ 1 ∧ (x :: xs').length = 0) := by simp
        simp only [this, if_false] at he
        exact (seq_err_none (seq_err_none he).1).2
    have := pushes_dictform (mc := mc) (hook := hook) (c := c) hρ kvs (encPairs ip c kvs) hc.2 hie (rt_pairs hh hρ hip hsu hlr kvs hc.1 hf hie)
    simpa only [Rep] using this
  | .dict kvs, hc, hf, he => by
    simp only [canon, Bool.and_eq_true] at hc
    simp only [floatsOf] at hf
    simp only [enc] at he ⊢
    have hie : (encPairs ip c kvs).err = none := by
      cases kvs with
      | nil => rfl
      | cons x xs' =>
        have : ¬ (c.proto ≥ 1 ∧ (x :: xs').length = 0) := by simp
        simp only [this, if_false] at he
        exact (seq_err_none (seq_err_none he).1).2
    have := pushes_dictform (mc := mc) (hook := hook) (c := c) hρ kvs (encPairs ip c kvs) hc.2 hie (rt_pairs hh hρ hip hsu hlr kvs hc.1 hf hie)
    simpa only [Rep] using this
  | .call m n args, hc, hf, he => by
    simp only [canon, Bool.and_eq_true, decide_eq_true_eq, Bool.not_eq_true'] at hc
    simp only [floatsOf] at hf
    obtain ⟨⟨⟨hm, hn⟩, hres⟩, hargs⟩ := hc
    simp only [enc] at he ⊢
    obtain ⟨h12, _⟩ := seq_err_none he
    obtain ⟨h1, h2⟩ := seq_err_none h12
    have hie : (encList ip c args).err = none := by
      cases args with
      | nil => rfl
      | cons x xs' => exact encodeTupleOf_err_inv _ _ (by simp) h2
    have hl0 : args.length = 0 → flat (encList ip c args) = [] := by
      intro h; have := List.length_eq_zero_iff.mp h; subst this; simp [encList, flat, Out.nil]
    have htup := pushes_tupleOf (mc := mc) (hook := hook) (c := c) args.length (encList ip c args) (fun h rs => RepList mc ρ h rs args) hie hl0
      (rt_list hh hρ hip hsu hlr args hargs hf hie)
    refine pushes_reduce m n _ _ _ _ h1 h2 (pushes_class ip hip hsu m n hm hn h1) htup ?_
    intro st rs _ hPL
    refine ⟨.call m n rs, ?_, ?_⟩
    · simp [reduceRes, handleCall_none st.proto m n rs hres]
    · simp only [Rep]; exact ⟨rs, rfl, hPL⟩
  | .ref pid, hc, hf, he => by
    simp only [canon] at hc
    simp only [floatsOf] at hf
    simp only [enc] at he ⊢
    by_cases h0 : c.proto = 0
    · -- protocol 0: PERSID with a single-line string id
      simp only [h0, if_true] at he ⊢
      cases pid with
      | str s =>
        simp only at he ⊢
        by_cases hlf : containsLF s = true
        · simp [hlf, failWith] at he
        · have hlf' : containsLF s = false := by simpa using hlf
          simp only [hlf', Bool.false_eq_true, if_false]
          exact pushes_persid hh s hlf'
      | _ => simp [failWith] at he
    · simp only [h0, if_false] at he ⊢
      obtain ⟨h1, _⟩ := seq_err_none he
      rw [flat_seq _ _ h1, flat_emit]
      exact pushes_ref hh pid _ (rt_val hh hρ hip hsu hlr pid hc hf h1)
  | .uint _, hc, _, _ | .complex _ _, hc, _, _ | .user _, hc, _, _ | .mark, hc, _, _
  | .href _, hc, _, _ | .cycle, hc, _, _ => by simp [canon] at hc
theorem rt_list (hh : HookFor hook ρ) (hρ : rk = true → ∀ p, ρ p = .ref p) (hip : ip 10 = false) (hsu : mc.cfg.su = c.su) (hlr : mc.listRef = false) :
    (xs : List GoVal) → canonList mc.cfg rk xs = true → FloatsOK c (floatsOfList xs) → (encList ip c xs).err = none →
    PushesN mc hook c (flat (encList ip c xs)) xs.length (fun h rs => RepList mc ρ h rs xs)
  | [], _, _, _ => by
    simp only [encList, flat, Out.nil, List.flatten_nil, List.length_nil]
    exact Runs.weaken Runs.nil fun st st' _ e => ⟨[], by simp [e], rfl, by simp, by simp [RepList]⟩
  | x :: xs, hc, hf, he => by
    simp only [canonList, Bool.and_eq_true] at hc
    simp only [floatsOfList] at hf
    simp only [encList] at he ⊢
    obtain ⟨h1, h2⟩ := seq_err_none he
    rw [flat_seq _ _ h1]
    refine Runs.weaken (Runs.seq (rt_val hh hρ hip hsu hlr x hc.1 hf.left h1) (rt_list hh hρ hip hsu hlr xs hc.2 hf.right h2)) ?_
    intro st st2 _ ⟨st1, _, f2, ⟨r, hs1, hr⟩, ⟨rs, hs2, hlen, hnm, hPL⟩⟩
    obtain ⟨t, ht⟩ := f2.heap
    refine ⟨r :: rs, by simp [hs2, hs1], by simp [hlen], ?_, ?_⟩
    · intro y hy
      rcases List.mem_cons.mp hy with rfl | hy
      · exact hr.not_mark
      · exact hnm y hy
    · simp only [RepList]
      exact ⟨by rw [ht]; exact Rep.mono mc ρ _ t r x hr, hPL⟩
theorem rt_pairs (hh : HookFor hook ρ) (hρ : rk = true → ∀ p, ρ p = .ref p) (hip : ip 10 = false) (hsu : mc.cfg.su = c.su) (hlr : mc.listRef = false) :
    (kvs : List (GoVal × GoVal)) → canonPairs mc.cfg rk kvs = true → FloatsOK c (floatsOfPairs kvs) → (encPairs ip c kvs).err = none →
    PushesN mc hook c (flat (encPairs ip c kvs)) (flatE kvs).length (fun h rs => RepList mc ρ h rs (flatE kvs))
  | [], _, _, _ => by
    simp only [encPairs, flat, Out.nil, List.flatten_nil, flatE, List.length_nil]
    exact Runs.weaken Runs.nil fun st st' _ e => ⟨[], by simp [e], rfl, by simp, by simp [RepList]⟩
  | (k, v) :: kvs, hc, hf, he => by
    simp only [canonPairs, Bool.and_eq_true] at hc
    simp only [floatsOfPairs] at hf
    simp only [encPairs] at he ⊢
    obtain ⟨h12, h3⟩ := seq_err_none he
    obtain ⟨h1, h2⟩ := seq_err_none h12
    rw [flat_seq _ _ h12, flat_seq _ _ h1]
    refine Runs.weaken (Runs.seq (Runs.seq (rt_val hh hρ hip hsu hlr k hc.1.1 hf.left.left h1) (rt_val hh hρ hip hsu hlr v hc.1.2 hf.left.right h2))
      (rt_pairs hh hρ hip hsu hlr kvs hc.2 hf.right h3)) ?_
    intro st st3 _ ⟨st2, _, f3, ⟨st1, _, f2, ⟨rk, hs1, hrk⟩, ⟨rv, hs2, hrv⟩⟩, ⟨rs, hs3, hlen, hnm, hPL⟩⟩
    obtain ⟨t2, ht2⟩ := f2.heap
    obtain ⟨t3, ht3⟩ := f3.heap
    have hrk2 : Rep mc ρ st2.heap rk k := by rw [ht2]; exact Rep.mono mc ρ _ t2 rk k hrk
    refine ⟨rk :: rv :: rs, by simp [hs3, hs2, hs1], by simp [flatE, hlen], ?_, ?_⟩
    · intro y hy
      simp only [List.mem_cons] at hy
      rcases hy with rfl | rfl | hy
      · exact hrk.not_mark
      · exact hrv.not_mark
      · exact hnm y hy
    · simp only [flatE, RepList]
      exact ⟨by rw [ht3]; exact Rep.mono mc ρ _ t3 rk k hrk2, by rw [ht3]; exact Rep.mono mc ρ _ t3 rv v hrv, hPL⟩
end

end main

end Ogorek
