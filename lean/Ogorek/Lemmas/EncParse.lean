import Ogorek.Lemmas.Run
import Ogorek.Lemmas.Keys
import Ogorek.Props.C19
import Ogorek.Lemmas.EncInt
import Ogorek.Encoder

/-!
  What the decoder's parse layer reads from each fragment the encoder writes (protocols 1–5:
  every form is binary or a plain text line; the two text codecs and float text of protocol 0
  are treated separately).
-/
namespace Ogorek

def flat (o : Out) : Bytes := o.chunks.flatten

theorem flat_seq (a b : Out) (h : a.err = none) : flat (a +> b) = flat a ++ flat b := by
  simp [flat, Out.seq, h]

theorem seq_err_none {a b : Out} (h : (a +> b).err = none) : a.err = none ∧ b.err = none := by
  unfold Out.seq at h
  cases ha : a.err with
  | some e => simp [ha] at h
  | none => simp [ha] at h; exact ⟨rfl, h⟩

theorem flat_emit (bs : Bytes) : flat (emit bs) = bs := by simp [flat, emit]

/-- A nullary opcode. -/
theorem parses_op (k : UInt8) (i : Insn) (hs : i.isStop = false) (h : parseArg k = Rd.pure i) : Parses [k] [i] := by
  apply Parses.single hs
  intro t
  simp [parseInsn, Rd.bind, readByte, h, Rd.pure]

theorem parses_bool (c : ECfg) (b : Bool) (hp : 0 ≤ c.proto) : Parses (flat (encodeBool c b)) [.pushBool b] := by
  unfold encodeBool
  split
  · cases b
    · simpa [flat_emit] using parses_op 0x89 (.pushBool false) rfl parseArg_137
    · simpa [flat_emit] using parses_op 0x88 (.pushBool true) rfl parseArg_136
  · apply Parses.single rfl
    intro t
    cases b <;>
      simp [flat_emit, sb, parseInsn, Rd.bind, readByte, parseArg_73, Rd.mapE, readLine, splitLine, parseIntArg, Rd.pure]

theorem parses_int (c : ECfg) (i : Int) (hi : inInt64 i = true) : Parses (flat (encodeInt c i)) [.pushInt i] := by
  apply Parses.single rfl
  intro t
  exact (encodeInt_parse c i hi t).2

theorem parses_long (i : Int) : Parses (flat (encodeLong i)) [.pushBig i] := by
  apply Parses.single rfl
  intro t
  have : flat (encodeLong i) ++ t = 76 :: fmtInt i ++ 76 :: 10 :: t := by simp [flat, encodeLong, emit]
  rw [this]
  obtain ⟨ins, h1, _⟩ := C19_LONG i t false 0
  -- C19_LONG gives the instruction explicitly
  have hl : (10 : UInt8) ∉ fmtInt i ++ [76] := by simp; exact fmtInt_no_lf i
  have e : (76 :: fmtInt i ++ 76 :: 10 :: t) = 76 :: ((fmtInt i ++ [76]) ++ 10 :: t) := by simp
  rw [e]
  simp only [parseInsn, Rd.bind, readByte, parseArg_76, Rd.mapE, readLine_line _ _ hl, parseLongArg]
  simp [parseDecimal_fmtInt, Rd.pure]

theorem beNat_natBE_8 (f : F64) : UInt64.ofNat (beNat (natBE 8 f.toNat)) = f := by
  have h := f.toNat_lt
  have : beNat (natBE 8 f.toNat) = f.toNat := by
    -- big endian of the reversed little-endian digits
    have hb : ∀ (bs : Bytes), beNat bs.reverse = leNat bs := by
      intro bs
      induction bs with
      | nil => simp [beNat, leNat]
      | cons x xs ih =>
        simp only [List.reverse_cons, leNat]
        rw [beNat_append_singleton, ih]; omega
    unfold natBE
    rw [hb, leNat_natLE_of_lt (by omega)]
  rw [this]
  simp

theorem parses_float_bin (c : ECfg) (f : F64) (hp : c.proto ≥ 1) : Parses (flat (encodeFloat c f)) [.pushFloat f] := by
  apply Parses.single rfl
  intro t
  simp only [encodeFloat, hp, if_true, flat_emit]
  have hl : (natBE 8 f.toNat).length = 8 := by simp [natBE, natLE_length]
  simp only [List.cons_append, parseInsn, Rd.bind, readByte, parseArg_71, Rd.map, readFull_exact 8 _ t hl, Rd.pure, beNat_natBE_8]


theorem ofNat_toNat_small (n : Nat) (h : n < 256) : (UInt8.ofNat n).toNat = n := by
  simp [UInt8.toNat_ofNat']; omega

/-- A counted payload with a 1-byte or 4-byte length, as the encoder writes it. -/
theorem parses_counted (short long : UInt8) (mk : Bytes → Insn) (hs : ∀ s, (mk s).isStop = false)
    (hshort : parseArg short = readCounted1.map mk) (hlong : parseArg long = (readCounted 4).map mk)
    (s : Bytes) (useShort : Prop) [Decidable useShort] (hu : useShort → s.length < 256) (hlen : s.length < 2 ^ 32) :
    Parses (flat ((if useShort then emit [short, UInt8.ofNat s.length] else emit (long :: le4 s.length)) +> emit s)) [mk s] := by
  apply Parses.single (hs s)
  intro t
  by_cases h : useShort
  · have hl := hu h
    simp only [h, if_true, flat, Out.seq, emit, List.flatten_cons, List.flatten_nil, List.append_nil, List.cons_append,
      List.nil_append, List.append_assoc]
    simp only [parseInsn, Rd.bind, readByte, hshort, Rd.map, readCounted1_exact s t hl, Rd.pure]
  · simp only [h, if_false, flat, Out.seq, emit, List.nil_append, List.flatten_cons, List.flatten_nil, List.append_nil, List.cons_append,
      List.append_assoc, le4]
    simp only [parseInsn, Rd.bind, readByte, hlong, Rd.map, readCounted_exact 4 s t (by omega) (by omega), Rd.pure]

theorem parses_bytestring_bin (ip : IsPrint) (c : ECfg) (s : Bytes) (hp : c.proto ≥ 1) (hlen : s.length < 2 ^ 32) :
    Parses (flat (encodeByteString ip c s)) [.pushByteString s] := by
  simp only [encodeByteString, hp, if_true]
  exact parses_counted 85 84 .pushByteString (fun _ => rfl) parseArg_85 parseArg_84 s (s.length < 256) id hlen

theorem parses_unicode_bin (c : ECfg) (s : Bytes) (hp : c.proto ≥ 1) (hlen : s.length < 2 ^ 32) :
    Parses (flat (encodeUnicode c s)) [.pushStr s] := by
  simp only [encodeUnicode, hp, if_true]
  exact parses_counted 0x8c 88 .pushStr (fun _ => rfl) parseArg_140 parseArg_88 s (s.length < 256 ∧ c.proto ≥ 4) (·.1) hlen

theorem parses_bytes_hi (ip : IsPrint) (c : ECfg) (s : Bytes) (hp : c.proto ≥ 3) (hlen : s.length < 2 ^ 32) :
    Parses (flat (encodeBytes ip c s)) [.pushBytes s] := by
  simp only [encodeBytes, hp, if_true]
  exact parses_counted 67 66 .pushBytes (fun _ => rfl) parseArg_67 parseArg_66 s (s.length < 256) id hlen

theorem parses_bytearray_hi (ip : IsPrint) (c : ECfg) (s : Bytes) (hp : c.proto ≥ 5) (hlen : s.length < 2 ^ 32) :
    Parses (flat (encodeByteArray ip c s)) [.pushBytearray s] := by
  apply Parses.single rfl
  intro t
  simp only [encodeByteArray, hp, if_true, flat, Out.seq, emit, List.nil_append, List.flatten_cons, List.flatten_nil, List.append_nil,
    List.cons_append, List.append_assoc, le8]
  simp only [parseInsn, Rd.bind, readByte, parseArg_150, Rd.map, readCounted_exact 8 s t (by omega) (by omega), Rd.pure]

/-- Strings as the protocol and StrictUnicode dictate: what is read is the instruction that pushes
    the same kind the encoder meant. -/
def strInsn (c : ECfg) (s : Bytes) : Insn := if c.su ∨ c.proto ≥ 3 then .pushStr s else .pushByteString s

theorem parses_string_bin (ip : IsPrint) (c : ECfg) (s : Bytes) (hp : c.proto ≥ 1) (hlen : s.length < 2 ^ 32) :
    Parses (flat (encodeString ip c s)) [strInsn c s] := by
  unfold encodeString strInsn
  split
  · exact parses_unicode_bin c s hp hlen
  · exact parses_bytestring_bin ip c s hp hlen

/-- GLOBAL with two lines, or two strings and STACK_GLOBAL. -/
def classInsns (c : ECfg) (m n : Bytes) : List Insn :=
  if c.proto ≥ 4 then [.pushStr m, .pushStr n, .stackGlobal] else [.global m n]

theorem parses_class (ip : IsPrint) (c : ECfg) (m n : Bytes) (hp : c.proto ≥ 1) (hm : m.length < 2 ^ 32) (hn : n.length < 2 ^ 32)
    (he : (encodeClass ip c m n).err = none) : Parses (flat (encodeClass ip c m n)) (classInsns c m n) := by
  unfold encodeClass classInsns at *
  by_cases h4 : c.proto ≥ 4
  · simp only [h4, if_true] at he ⊢
    obtain ⟨h12, _⟩ := seq_err_none he
    obtain ⟨h1, h2⟩ := seq_err_none h12
    rw [flat_seq _ _ h12, flat_seq _ _ h1, flat_emit]
    have hs : ∀ x, strInsn c x = .pushStr x := by intro x; simp [strInsn]; intro; omega
    have p1 := parses_string_bin ip c m hp hm
    have p2 := parses_string_bin ip c n hp hn
    rw [hs] at p1 p2
    exact Parses.append (Parses.append p1 p2) (parses_op 0x93 .stackGlobal rfl parseArg_147)
  · simp only [h4, if_false] at he ⊢
    split at he
    · simp [failWith] at he
    · rename_i hlf
      simp only [Bool.or_eq_true, not_or, Bool.not_eq_true] at hlf
      split
      · rename_i hh; simp [hlf.1, hlf.2] at hh
      · apply Parses.single rfl
        intro t
        have h1 : (10 : UInt8) ∉ m := by
          have := hlf.1; unfold containsLF at this; intro hm; simp at this; exact this 10 hm rfl
        have h2 : (10 : UInt8) ∉ n := by
          have := hlf.2; unfold containsLF at this; intro hm; simp at this; exact this 10 hm rfl
        have e : flat (emit (99 :: m ++ [10] ++ n ++ [10])) ++ t = 99 :: (m ++ 10 :: (n ++ 10 :: t)) := by simp [flat_emit]
        rw [e]
        simp only [parseInsn, Rd.bind, readByte, parseArg_99, readLine_line _ _ h1, Rd.map, readLine_line _ _ h2, Rd.pure]

/-- The opcodes around the items of a tuple. -/
def tupleInsns (c : ECfg) (l : Nat) (items : List Insn) : List Insn :=
  if c.proto ≥ 2 ∧ 1 ≤ l ∧ l ≤ 3 then items ++ [.tupleN l]
  else if c.proto ≥ 1 ∧ l = 0 then [.emptyTuple]
  else [.mark] ++ items ++ [.tuple]

theorem parses_tupleOf (c : ECfg) (l : Nat) (items : Out) (is : List Insn) (he : items.err = none)
    (hp : Parses (flat items) is) : Parses (flat (encodeTupleOf c l items)) (tupleInsns c l is) := by
  unfold encodeTupleOf tupleInsns
  split
  · rename_i h
    rw [flat_seq _ _ he, flat_emit]
    apply Parses.append hp
    obtain ⟨_, h1, h3⟩ := h
    have : l = 1 ∨ l = 2 ∨ l = 3 := by omega
    rcases this with rfl | rfl | rfl
    · exact parses_op 0x85 (.tupleN 1) rfl parseArg_133
    · exact parses_op 0x86 (.tupleN 2) rfl parseArg_134
    · exact parses_op 0x87 (.tupleN 3) rfl parseArg_135
  · split
    · rw [flat_emit]; exact parses_op 41 .emptyTuple rfl parseArg_41
    · have h1 : (emit [40] +> items).err = none := by simp [Out.seq, emit, he]
      rw [flat_seq _ _ h1, flat_seq _ _ (by simp [emit]), flat_emit, flat_emit]
      exact Parses.append (Parses.append (parses_op 40 .mark rfl parseArg_40) hp) (parses_op 116 .tuple rfl parseArg_116)

end Ogorek
