import Ogorek.Pvm
import Ogorek.Lemmas.Run
import Ogorek.Lemmas.EncParse
import Ogorek.Lemmas.EncParseTxt

/-!
  Running the encoder's output on the model of CPython's unpickler (`Ogorek/Pvm.lean`): the framework
  (straight-line runs, frames, "pushes one value") mirroring `Lemmas/RoundTrip.lean`, which does the same
  for og-rek's own decoder.
-/
namespace Ogorek

/-- Run instructions one after another on the Python machine. -/
def prunFrom : List Insn → PState → PM PState
  | [], st => .ok st
  | i :: is, st =>
    match pexec i st with
    | .ok st' => prunFrom is st'
    | .error e => .error e

theorem prunFrom_append (is1 is2 : List Insn) (st st1 : PState) (h : prunFrom is1 st = .ok st1) :
    prunFrom (is1 ++ is2) st = prunFrom is2 st1 := by
  induction is1 generalizing st with
  | nil => simp [prunFrom] at h; subst h; simp
  | cons i is ih =>
    simp only [prunFrom, List.cons_append] at h ⊢
    cases he : pexec i st with
    | error e => rw [he] at h; simp at h
    | ok st' =>
      rw [he] at h
      simp only at h ⊢
      exact ih _ h

/-- No FRAME among the instructions (the encoder never writes one). -/
def noFrame : List Insn → Bool
  | [] => true
  | i :: is => !i.isFrame && noFrame is

theorem noFrame_append (a b : List Insn) : noFrame (a ++ b) = (noFrame a && noFrame b) := by
  induction a with
  | nil => simp [noFrame]
  | cons i a ih => simp [noFrame, ih, Bool.and_assoc]

theorem frameStep_ok (i : Insn) (arg rest : Bytes) (st : PState) (h : i.isFrame = false) : frameStep i arg rest st = .ok st := by
  simp [frameStep, h]

theorem pvmLoop_step (f : Nat) (st st1 : PState) (key : UInt8) (r rest : Bytes) (i : Insn)
    (hp : parseArg key r = .ok (i, rest)) (hs : i.isStop = false) (hnf : i.isFrame = false) (he : pexec i st = .ok st1) :
    pvmLoop (f + 1) st (key :: r) = pvmLoop f st1 rest := by
  rw [pvmLoop]
  simp only [readByte, hp]
  cases i
  case stop => simp [Insn.isStop] at hs
  case frame => simp [Insn.isFrame] at hnf
  all_goals simp only [frameStep_ok _ _ _ _ hnf, he]

/-- The load loop steps through a parsed straight-line prefix. -/
theorem pvmLoop_run :
    ∀ (is : List Insn) (bs : Bytes) (st st' : PState) (t : Bytes) (fuel : Nat),
      Parses bs is → noFrame is = true → prunFrom is st = .ok st' →
      pvmLoop (fuel + is.length) st (bs ++ t) = pvmLoop fuel st' t := by
  intro is
  induction is with
  | nil =>
    intro bs st st' t fuel hp _ hr
    simp [Parses] at hp; subst hp
    simp [prunFrom] at hr; subst hr
    simp
  | cons i is ih =>
    intro bs st st' t fuel hp hnf hr
    obtain ⟨b1, b2, rfl, hs, hpi, hrest⟩ := hp
    simp only [noFrame, Bool.and_eq_true, Bool.not_eq_true'] at hnf
    simp only [prunFrom] at hr
    cases he : pexec i st with
    | error e => rw [he] at hr; simp at hr
    | ok st1 =>
      rw [he] at hr
      simp only at hr
      have hpi' := hpi (b2 ++ t)
      cases b1 with
      | nil =>
        simp [parseInsn, Rd.bind, readByte] at hpi'
        cases hbt : b2 ++ t with
        | nil => rw [hbt] at hpi'; simp at hpi'
        | cons k r =>
          rw [hbt] at hpi'
          simp at hpi'
          have := (good_parseArg k).length_le hpi'
          simp at this
          omega
      | cons key r1 =>
        have hlen : fuel + (i :: is).length = (fuel + is.length) + 1 := by simp; omega
        rw [hlen]
        simp only [List.cons_append, List.append_assoc]
        have hpa : parseArg key (r1 ++ (b2 ++ t)) = .ok (i, b2 ++ t) := by
          have := hpi (b2 ++ t)
          simpa [parseInsn, Rd.bind, readByte] using this
        rw [pvmLoop_step _ st st1 key _ _ i hpa hs hnf.1 he, ih b2 st1 st' t fuel hrest hnf.2 hr]

/-! ### frames -/

/-- What a balanced fragment may do besides pushing: memo, protocol and the metastack are as before, the
    heap only grows. -/
structure PFrame (st st' : PState) : Prop where
  memo : st'.memo = st.memo
  proto : st'.proto = st.proto
  metas : st'.metas = st.metas
  heap : ∃ t, st'.heap = st.heap ++ t

theorem PFrame.refl (st : PState) : PFrame st st := ⟨rfl, rfl, rfl, [], by simp⟩

theorem PFrame.trans {a b c : PState} (h1 : PFrame a b) (h2 : PFrame b c) : PFrame a c := by
  obtain ⟨t1, e1⟩ := h1.heap
  obtain ⟨t2, e2⟩ := h2.heap
  exact ⟨h2.memo.trans h1.memo, h2.proto.trans h1.proto, h2.metas.trans h1.metas, t1 ++ t2, by rw [e2, e1, List.append_assoc]⟩

theorem PFrame.push (st : PState) (v : PyVal) : PFrame st (ppush st v) := ⟨rfl, rfl, rfl, [], by simp [ppush]⟩

/-- CPython's view of "which module holds bytes / bytearray" agrees with the encoder's. -/
def PProtoOK (c : ECfg) (st : PState) : Prop := pyExecModule st.proto = pybuiltinModuleE c.proto

theorem PProtoOK.frame {c : ECfg} {st st' : PState} (h : PProtoOK c st) (f : PFrame st st') : PProtoOK c st' := by
  unfold PProtoOK at *; rw [f.proto]; exact h

def PRuns (c : ECfg) (bs : Bytes) (Q : PState → PState → Prop) : Prop :=
  ∃ is, Parses bs is ∧ noFrame is = true ∧ ∀ st, PProtoOK c st → ∃ st', prunFrom is st = .ok st' ∧ PFrame st st' ∧ Q st st'

theorem PRuns.weaken {c : ECfg} {bs : Bytes} {Q Q' : PState → PState → Prop}
    (h : PRuns c bs Q) (hq : ∀ st st', PProtoOK c st → PFrame st st' → Q st st' → Q' st st') : PRuns c bs Q' := by
  obtain ⟨is, hp, hnf, hr⟩ := h
  refine ⟨is, hp, hnf, fun st hpo => ?_⟩
  obtain ⟨st', e, f, q⟩ := hr st hpo
  exact ⟨st', e, f, hq st st' hpo f q⟩

theorem PRuns.seq {c : ECfg} {b1 b2 : Bytes} {Q1 Q2 : PState → PState → Prop}
    (h1 : PRuns c b1 Q1) (h2 : PRuns c b2 Q2) :
    PRuns c (b1 ++ b2) (fun st st'' => ∃ st', PFrame st st' ∧ PFrame st' st'' ∧ Q1 st st' ∧ Q2 st' st'') := by
  obtain ⟨is1, hp1, hn1, hr1⟩ := h1
  obtain ⟨is2, hp2, hn2, hr2⟩ := h2
  refine ⟨is1 ++ is2, Parses.append hp1 hp2, by simp [noFrame_append, hn1, hn2], fun st hpo => ?_⟩
  obtain ⟨st1, e1, f1, q1⟩ := hr1 st hpo
  obtain ⟨st2, e2, f2, q2⟩ := hr2 st1 (hpo.frame f1)
  refine ⟨st2, ?_, f1.trans f2, st1, f1, f2, q1, q2⟩
  rw [prunFrom_append is1 is2 st st1 e1, e2]

theorem PRuns.one {c : ECfg} {bs : Bytes} {i : Insn} {Q : PState → PState → Prop}
    (hp : Parses bs [i])
    (he : ∀ st, PProtoOK c st → ∃ st', pexec i st = .ok st' ∧ PFrame st st' ∧ Q st st')
    (hnf : i.isFrame = false := by rfl) : PRuns c bs Q := by
  refine ⟨[i], hp, by simp [noFrame, hnf], fun st hpo => ?_⟩
  obtain ⟨st', e, f, q⟩ := he st hpo
  exact ⟨st', by simp [prunFrom, e], f, q⟩

theorem PRuns.nil {c : ECfg} : PRuns c [] (fun st st' => st' = st) :=
  ⟨[], Parses.nil, rfl, fun st _ => ⟨st, rfl, PFrame.refl st, rfl⟩⟩

/-- The fragment pushes exactly one value, which (with the heap it refers to) satisfies `P`. -/
def PPushes (c : ECfg) (bs : Bytes) (P : List PObj → PyVal → Prop) : Prop :=
  PRuns c bs (fun st st' => ∃ r, st'.stack = r :: st.stack ∧ P st'.heap r)

/-- The fragment pushes `l` values (bottom to top: `rs`). -/
def PPushesN (c : ECfg) (bs : Bytes) (l : Nat) (PL : List PObj → List PyVal → Prop) : Prop :=
  PRuns c bs (fun st st' => ∃ rs, st'.stack = rs.reverse ++ st.stack ∧ rs.length = l ∧ PL st'.heap rs)

theorem PPushes.one {c : ECfg} {bs : Bytes} {i : Insn} {P : List PObj → PyVal → Prop} (r : PyVal)
    (hp : Parses bs [i]) (he : ∀ st, pexec i st = .ok (ppush st r)) (hP : ∀ h, P h r)
    (hnf : i.isFrame = false := by rfl) :
    PPushes c bs P :=
  PRuns.one hp (fun st _ => ⟨ppush st r, he st, PFrame.push st _, r, rfl, hP _⟩) hnf

/-- The instruction list of a fragment followed by one more instruction. -/
theorem PRuns.snoc {c : ECfg} {b1 b2 : Bytes} {i : Insn} {Q1 Q : PState → PState → Prop}
    (h1 : PRuns c b1 Q1) (hp : Parses b2 [i])
    (he : ∀ st st1, PProtoOK c st → PFrame st st1 → Q1 st st1 → ∃ st', pexec i st1 = .ok st' ∧ PFrame st1 st' ∧ Q st st')
    (hnf : i.isFrame = false := by rfl) :
    PRuns c (b1 ++ b2) Q := by
  obtain ⟨is1, hp1, hn1, hr1⟩ := h1
  refine ⟨is1 ++ [i], Parses.append hp1 hp, by simp [noFrame_append, hn1, noFrame, hnf], fun st hpo => ?_⟩
  obtain ⟨st1, e1, f1, q1⟩ := hr1 st hpo
  obtain ⟨st', e, f, q⟩ := he st st1 hpo f1 q1
  refine ⟨st', ?_, f1.trans f, q⟩
  rw [prunFrom_append is1 [i] st st1 e1]
  simp [prunFrom, e]

/-- `MARK fragment CLOSE`: the fragment runs in a fresh segment; the closing instruction sees exactly what the
    fragment pushed and the saved segment. -/
theorem PRuns.marked {c : ECfg} {b : Bytes} {l : Nat} {PL : List PObj → List PyVal → Prop} {i : Insn} {kb : UInt8}
    {Q : PState → PState → Prop}
    (h : PPushesN c b l PL) (hp : Parses [kb] [i])
    (he : ∀ st st1 rs, PProtoOK c st → PFrame { st with stack := [], metas := st.stack :: st.metas } st1 →
      st1.stack = rs.reverse → rs.length = l → PL st1.heap rs →
      ∃ st', pexec i st1 = .ok st' ∧ st'.memo = st.memo ∧ st'.proto = st.proto ∧ st'.metas = st.metas ∧
        (∃ t, st'.heap = st.heap ++ t) ∧ Q st st')
    (hnf : i.isFrame = false := by rfl) :
    PRuns c ([40] ++ b ++ [kb]) Q := by
  obtain ⟨is, hpb, hnb, hr⟩ := h
  have hmark : Parses [40] [.mark] := parses_op 40 .mark rfl parseArg_40
  refine ⟨[.mark] ++ is ++ [i], Parses.append (Parses.append hmark hpb) hp,
    by rw [noFrame_append, noFrame_append]; simp [hnb, noFrame, hnf, show Insn.isFrame .mark = false from rfl], fun st hpo => ?_⟩
  let st0 : PState := { st with stack := [], metas := st.stack :: st.metas }
  have hpo0 : PProtoOK c st0 := hpo
  obtain ⟨st1, e1, f1, rs, hs, hl, hpl⟩ := hr st0 hpo0
  have hs' : st1.stack = rs.reverse := by simpa [st0] using hs
  obtain ⟨st', e, hm, hpr, hme, hh, q⟩ := he st st1 rs hpo f1 hs' hl hpl
  refine ⟨st', ?_, ⟨hm, hpr, hme, hh⟩, q⟩
  have e0 : prunFrom [.mark] st = .ok st0 := by simp [prunFrom, pexec, st0]
  rw [List.append_assoc, prunFrom_append [.mark] (is ++ [i]) st st0 e0, prunFrom_append is [i] st0 st1 e1]
  simp [prunFrom, e]

end Ogorek
