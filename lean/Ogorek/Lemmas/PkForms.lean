import Ogorek.Lemmas.PkRun
import Ogorek.Lemmas.CPickleSRT

/-!
  CPython's unpickler on CPython's pickler: the memo invariant on the Python machine, PUT / GET, the
  scalar forms and tuples.
-/
namespace Ogorek

def PKeepsH (st st' : PState) : Prop := st.heap.length ≤ st'.heap.length ∧ PAgreeFrom 0 st.heap st'.heap

theorem PKeepsH.refl (st : PState) : PKeepsH st st := ⟨Nat.le_refl _, PAgreeFrom.refl _ _⟩

theorem PKeepsH.trans {a b c : PState} (h1 : PKeepsH a b) (h2 : PKeepsH b c) : PKeepsH a c :=
  ⟨Nat.le_trans h1.1 h2.1, PAgreeFrom.trans h1.2 h2.2 h1.1⟩

theorem PKeepsH.of_eq {st st' : PState} (e : st'.heap = st.heap) : PKeepsH st st' := by
  unfold PKeepsH; rw [e]; exact ⟨Nat.le_refl _, PAgreeFrom.refl _ _⟩

theorem PKeepsH.of_append {st st' : PState} {t : List PObj} (e : st'.heap = st.heap ++ t) : PKeepsH st st' := by
  unfold PKeepsH; rw [e]; exact ⟨by simp, PAgreeFrom.append _ _ _⟩

theorem PKeepsH.keepsBA {st st' : PState} (h : PKeepsH st st') : KeepsBA st.heap st'.heap := by
  intro i d e
  rw [h.2 i (Nat.zero_le _) (getElem?_lt_of_some e)]; exact e

/-- What the Python machine holds in its memo for something the pickler memoized. -/
def PHolds (p : Nat) (h : List PObj) : PKey → PyVal → Prop
  | .str _ s, v => v = .str s
  | .bytes _ s, v => v = .bytes s
  | .bytearray _ s, v => ∃ id, v = .obj id ∧ h[id]? = some (.bytearray s)
  | .gEncode, v => v = .glob (sb "_codecs") (sb "encode")
  | .sLatin1, v => v = .str (sb "latin1")
  | .gBytes, v => v = .glob (pybuiltinModuleE p) (sb "bytes")
  | .gBytearray, v => v = .glob (pybuiltinModuleE p) (sb "bytearray")

theorem PHolds.keeps {p : Nat} {h h' : List PObj} (hb : KeepsBA h h') {k : PKey} {v : PyVal} (hh : PHolds p h k v) : PHolds p h' k v := by
  cases k <;> simp only [PHolds] at hh ⊢ <;> try exact hh
  obtain ⟨id, e, hg⟩ := hh
  exact ⟨id, e, hb id _ hg⟩

/-- The memo of the Python machine is as the pickler's: keys `0 … n-1`, and under every index that may be fetched
    again what was memoized there. -/
def PMemoInv (p : Nat) (s : PSt) (st : PState) : Prop :=
  st.memo.length = s.n ∧ s.n ≤ 2 ^ 32 ∧ (∀ k, k ∈ st.memo.map (·.1) → k < s.n) ∧
  (∀ k idx, (k, idx) ∈ s.tab → idx < s.n ∧ ∃ v, st.memo.lookup idx = some v ∧ PHolds p st.heap k v)

theorem PMemoInv.stable {p : Nat} {s : PSt} {st st' : PState} (h : PMemoInv p s st) (hm : st'.memo = st.memo)
    (hb : KeepsBA st.heap st'.heap) : PMemoInv p s st' := by
  obtain ⟨h1, h2, h3, h4⟩ := h
  refine ⟨by rw [hm]; exact h1, h2, by rw [hm]; exact h3, ?_⟩
  intro k idx hk
  obtain ⟨hlt, v, hl, hh⟩ := h4 k idx hk
  exact ⟨hlt, v, by rw [hm]; exact hl, hh.keeps hb⟩

/-- After `memo[n] = r`. -/
theorem PMemoInv.put {p : Nat} {s : PSt} {st : PState} (h : PMemoInv p s st) (hn : s.n < 2 ^ 32) (key : Option PKey) (r : PyVal)
    (hr : ∀ k, key = some k → PHolds p st.heap k r) :
    PMemoInv p (s.put key) (pmemoPut st s.n r) := by
  obtain ⟨hlen, _, hkeys, hfacts⟩ := h
  unfold PSt.put
  have hfil : st.memo.filter (fun e => e.1 != s.n) = st.memo := by
    apply List.filter_eq_self.mpr
    intro e he
    have := hkeys e.1 (List.mem_map_of_mem he)
    have : e.1 ≠ s.n := by omega
    simpa using this
  have hmemo : (pmemoPut st s.n r).memo = (s.n, r) :: st.memo := by
    simp only [pmemoPut]; rw [hfil]
  have hheap : (pmemoPut st s.n r).heap = st.heap := rfl
  refine ⟨by rw [hmemo]; simp [hlen], by simp only; omega, ?_, ?_⟩
  · intro k hk
    rw [hmemo] at hk
    simp only [List.map_cons, List.mem_cons] at hk
    rcases hk with rfl | hk
    · simp
    · have := hkeys k hk; simp only; omega
  · intro k idx hmem
    have hold : ∀ k idx, (k, idx) ∈ s.tab → idx < s.n + 1 ∧ ∃ v, (pmemoPut st s.n r).memo.lookup idx = some v ∧
        PHolds p (pmemoPut st s.n r).heap k v := by
      intro k idx hm
      obtain ⟨hlt, v, hl, hh⟩ := hfacts k idx hm
      refine ⟨by omega, v, ?_, by rw [hheap]; exact hh⟩
      rw [hmemo, List.lookup_cons]
      have : (idx == s.n) = false := by
        have : idx ≠ s.n := by omega
        simpa using this
      rw [this]; exact hl
    cases key with
    | none => exact hold k idx hmem
    | some k0 =>
      simp only [List.mem_cons, Prod.mk.injEq] at hmem
      rcases hmem with ⟨rfl, rfl⟩ | hmem
      · refine ⟨by simp, r, ?_, by rw [hheap]; exact hr k rfl⟩
        rw [hmemo, List.lookup_cons]
        simp
      · exact hold k idx hmem

theorem natDigits_length_le : (k n : Nat) → n < 10 ^ k → (natDigits n).length ≤ max k 1
  | 0, n, h => by
    have : n = 0 := by simpa using h
    subst this
    rw [natDigits]; simp
  | k + 1, n, h => by
    rw [natDigits]
    by_cases h10 : n < 10
    · simp [h10]
    · simp only [h10, if_false, List.length_append, List.length_cons, List.length_nil]
      have hlt : n / 10 < 10 ^ k := by
        rw [Nat.div_lt_iff_lt_mul (by decide)]
        have : 10 ^ (k + 1) = 10 ^ k * 10 := Nat.pow_succ ..
        omega
      have := natDigits_length_le k (n / 10) hlt
      cases k with
      | zero => simp at hlt; omega
      | succ k => simp at this ⊢; omega

theorem natDigits_short (n : Nat) (hn : n < 2 ^ 32) : ¬ (natDigits n).length > 4300 := by
  have := natDigits_length_le 10 n (by omega)
  simp at this
  omega

section
variable {c : ECfg}

theorem pexec_put (st : PState) (n : Nat) (hn : n < 2 ^ 32) {v : PyVal} {s : List PyVal} (hs : st.stack = v :: s) :
    pexec (.put (natDigits n)) st = .ok (pmemoPut st n v) := by
  simp [pexec, natDigits_short n hn, parseDigits_natDigits, hs]

/-- `memo_put` on the Python machine: with `n` entries in the memo every form writes `memo[n]`. -/
theorem pruns_put_key (p n : Nat) (hn : n < 2 ^ 32) :
    PRunsP c (cpPut p n) (fun st => st.memo.length = n ∧ ∃ r rest, st.stack = r :: rest)
      (fun st st' => ∃ r rest, st.stack = r :: rest ∧ st' = pmemoPut st n r) := by
  unfold cpPut
  split
  · refine PRunsP.one (parses_op 0x94 .memoize rfl parseArg_148) ?_
    intro st _ ⟨hl, v, s, hs⟩
    refine ⟨pmemoPut st n v, ?_, rfl, v, s, hs, rfl⟩
    simp [pexec, hs, hl]
  · split
    · split
      · rename_i h256
        have hb : (UInt8.ofNat n).toNat = n := by simp [UInt8.toNat_ofNat']; omega
        refine PRunsP.one (i := .put (natDigits n)) (Parses.single rfl fun t => ?_) ?_
        · simp [parseInsn, Rd.bind, readByte, parseArg_113, Rd.map, Rd.pure, memoKey, hb]
        · intro st _ ⟨_, v, s, hs⟩
          exact ⟨_, pexec_put st n hn hs, rfl, v, s, hs, rfl⟩
      · refine PRunsP.one (i := .put (natDigits n)) (Parses.single rfl fun t => ?_) ?_
        · have e : (114 :: le4 n) ++ t = 114 :: (natLE 4 n ++ t) := by simp [le4]
          rw [e]
          simp [parseInsn, Rd.bind, readByte, parseArg_114, Rd.map, Rd.pure, readFull_exact 4 _ t (natLE_length 4 _), memoKey,
            leNat_natLE_of_lt (show n < 256 ^ 4 by omega)]
        · intro st _ ⟨_, v, s, hs⟩
          exact ⟨_, pexec_put st n hn hs, rfl, v, s, hs, rfl⟩
    · refine PRunsP.one (i := .put (natDigits n)) (Parses.single rfl fun t => ?_) ?_
      · have e : (112 :: natDigits n ++ [10]) ++ t = 112 :: (natDigits n ++ 10 :: t) := by simp
        rw [e]
        have hl : (10 : UInt8) ∉ natDigits n := natDigits_no n 10 (by decide)
        simp [parseInsn, Rd.bind, readByte, parseArg_112, Rd.map, Rd.pure, readLine_line _ _ hl]
      · intro st _ ⟨_, v, s, hs⟩
        exact ⟨_, pexec_put st n hn hs, rfl, v, s, hs, rfl⟩

/-- A `memo_put` between the pickler states `s` and `s'`, on a top value for which `vp` holds. -/
def PPutOK (c : ECfg) (p : Nat) (bs : Bytes) (vp : List PObj → PyVal → Prop) (s s' : PSt) : Prop :=
  PRunsP c bs (fun st => PMemoInv p s st ∧ ∃ r rest, st.stack = r :: rest ∧ vp st.heap r)
    (fun st st' => PMemoInv p s' st' ∧ st'.stack = st.stack ∧ st'.metas = st.metas ∧ st'.heap = st.heap)

theorem pputOK_S {mz : Option PKey → Bool} (p : Nat) (s s' : PSt) (key : Option PKey) (pb : Bytes) (h : putS mz p s key = some (pb, s')) :
    PPutOK c p pb (fun hp r => ∀ k, key = some k → PHolds p hp k r) s s' := by
  unfold putS at h
  by_cases hm : mz key = true
  · simp only [hm, if_true] at h
    unfold putS1 at h
    by_cases hn : s.n < 2 ^ 32
    · simp only [hn, if_true, Option.some.injEq, Prod.mk.injEq] at h
      obtain ⟨rfl, rfl⟩ := h
      refine PRunsP.weaken (pruns_put_key p s.n hn) ?_ ?_
      · intro st ⟨hinv, r, rest, hs, _⟩
        exact ⟨hinv.1, r, rest, hs⟩
      · intro st st' ⟨hinv, r0, rest0, hs0, hv⟩ _ ⟨r, rest, hs, e⟩
        rw [hs0] at hs
        injection hs with h1 h2
        subst h1; subst h2
        subst e
        exact ⟨hinv.put hn key r0 hv, rfl, rfl, rfl⟩
    · simp [hn] at h
  · simp only [hm, Bool.false_eq_true, if_false, Option.some.injEq, Prod.mk.injEq] at h
    obtain ⟨rfl, rfl⟩ := h
    refine PRunsP.weaken PRunsP.nil (fun _ h => h) ?_
    intro st st' hp _ e
    subst e
    exact ⟨hp.1, rfl, rfl, rfl⟩

/-- `memo_get` on the Python machine. -/
theorem pruns_get (p : Nat) (s : PSt) (k : PKey) (idx : Nat) (hf : s.find k = some idx) :
    PRunsP c (cpGet p idx) (PMemoInv p s)
      (fun st st' => PMemoInv p s st' ∧ (∃ v, st'.stack = v :: st.stack ∧ PHolds p st.heap k v) ∧ st'.metas = st.metas ∧ st'.heap = st.heap) := by
  have hmem := PSt.find_mem hf
  have hfin : ∀ st, PProtoOK c st → PMemoInv p s st → ∃ st', pexec (.get (natDigits idx)) st = .ok st' ∧
      st'.proto = st.proto ∧ PMemoInv p s st' ∧ (∃ v, st'.stack = v :: st.stack ∧ PHolds p st.heap k v) ∧ st'.metas = st.metas ∧
        st'.heap = st.heap := by
    intro st _ hinv
    obtain ⟨hlt, v, hl, hh⟩ := hinv.2.2.2 k idx hmem
    have hlt32 : idx < 2 ^ 32 := by have := hinv.2.1; omega
    refine ⟨ppush st v, ?_, rfl, hinv.stable rfl (KeepsBA.refl _), ⟨v, rfl, hh⟩, rfl, rfl⟩
    simp [pexec, natDigits_short idx hlt32, parseDigits_natDigits, hl]
  unfold cpGet
  split
  · split
    · rename_i h256
      have hb : (UInt8.ofNat idx).toNat = idx := by simp [UInt8.toNat_ofNat']; omega
      refine PRunsP.one (i := .get (natDigits idx)) (Parses.single rfl fun t => ?_) hfin
      simp [parseInsn, Rd.bind, readByte, parseArg_104, Rd.map, Rd.pure, memoKey, hb]
    · refine PRunsP.one (i := .get (memoKey (leNat (natLE 4 idx)))) (Parses.single rfl fun t => ?_) ?_
      · have e : (106 :: le4 idx) ++ t = 106 :: (natLE 4 idx ++ t) := by simp [le4]
        rw [e]
        simp [parseInsn, Rd.bind, readByte, parseArg_106, Rd.map, Rd.pure, readFull_exact 4 _ t (natLE_length 4 _)]
      · intro st hpo hinv
        have hlt : idx < 2 ^ 32 := by
          have := (hinv.2.2.2 k idx hmem).1
          have := hinv.2.1
          omega
        have hk : memoKey (leNat (natLE 4 idx)) = natDigits idx := by
          rw [leNat_natLE_of_lt (show idx < 256 ^ 4 by omega)]; rfl
        rw [hk]
        exact hfin st hpo hinv
  · refine PRunsP.one (i := .get (natDigits idx)) (Parses.single rfl fun t => ?_) hfin
    have e : (103 :: natDigits idx ++ [10]) ++ t = 103 :: (natDigits idx ++ 10 :: t) := by simp
    rw [e]
    have hl : (10 : UInt8) ∉ natDigits idx := natDigits_no idx 10 (by decide)
    simp [parseInsn, Rd.bind, readByte, parseArg_103, Rd.map, Rd.pure, readLine_line _ _ hl]

/-! ### pushes -/

/-- The fragment pushes values that are the Python values `xs` (bottom to top), referring only to heap objects it
    allocated itself (bytearrays excepted), leaves the old heap and the metastack alone. -/
def PPushesGN (c : ECfg) (p : Nat) (bs : Bytes) (xs : List PyVal) (s s' : PSt) : Prop :=
  PRunsP c bs (PMemoInv p s) (fun st st' => PMemoInv p s' st' ∧ ∃ rs, st'.stack = rs.reverse ++ st.stack ∧ st'.metas = st.metas ∧
    PRepGList st.heap.length st'.heap rs xs ∧ PKeepsH st st')

def PPushesG (c : ECfg) (p : Nat) (bs : Bytes) (v : PyVal) (s s' : PSt) : Prop :=
  PRunsP c bs (PMemoInv p s) (fun st st' => PMemoInv p s' st' ∧ ∃ r, st'.stack = r :: st.stack ∧ st'.metas = st.metas ∧
    PRepG st.heap.length st'.heap r v ∧ PKeepsH st st')

theorem PPushesG.toN {p : Nat} {bs : Bytes} {v : PyVal} {s s' : PSt} (h : PPushesG c p bs v s s') : PPushesGN c p bs [v] s s' := by
  refine PRunsP.weaken h (fun _ h => h) ?_
  intro st st' _ _ ⟨hj, r, hs, hm, hr, hk⟩
  exact ⟨hj, [r], by simpa using hs, hm, by simp [PRepGList, hr], hk⟩

theorem PPushesGN.nil (p : Nat) (s : PSt) : PPushesGN c p [] [] s s := by
  refine PRunsP.weaken PRunsP.nil (fun _ h => h) ?_
  intro st st' hj _ e
  subst e
  exact ⟨hj, [], by simp, rfl, by simp [PRepGList], PKeepsH.refl _⟩

theorem PPushesGN.append {p : Nat} {b1 b2 : Bytes} {xs1 xs2 : List PyVal} {s s1 s2 : PSt}
    (h1 : PPushesGN c p b1 xs1 s s1) (h2 : PPushesGN c p b2 xs2 s1 s2) :
    PPushesGN c p (b1 ++ b2) (xs1 ++ xs2) s s2 := by
  refine PRunsP.weaken (PRunsP.seq h1 h2 (fun _ _ _ _ q => q.1)) (fun _ h => h) ?_
  intro st st2 _ _ ⟨st1, _, ⟨_, rs1, hs1, hm1, hr1, hk1⟩, ⟨hj2, rs2, hs2, hm2, hr2, hk2⟩⟩
  refine ⟨hj2, rs1 ++ rs2, by simp [hs2, hs1], by rw [hm2, hm1], ?_, hk1.trans hk2⟩
  refine PRepGList.append ?_ ?_
  · exact PRepGList.congr (hk2.2.mono (Nat.zero_le _)) hk2.keepsBA (Nat.le_refl _) rs1 xs1 hr1
  · exact PRepGList.congr (PAgreeFrom.refl _ _) (KeepsBA.refl _) hk1.1 rs2 xs2 hr2

/-- One instruction that pushes a constant. -/
theorem PPushesG.one {p : Nat} {bs : Bytes} {i : Insn} (r : PyVal) (v : PyVal) (s : PSt)
    (hp : Parses bs [i]) (he : ∀ st, pexec i st = .ok (ppush st r)) (hr : ∀ n h, PRepG n h r v)
    (hnf : i.isFrame = false := by rfl) : PPushesG c p bs v s s := by
  refine PRunsP.one hp ?_ hnf
  intro st _ hj
  exact ⟨ppush st r, he st, rfl, hj.stable rfl (KeepsBA.refl _), r, rfl, rfl, hr _ _, PKeepsH.refl _⟩

/-- A pushed object followed by its `memo_put`. -/
theorem PPushesG.put {p : Nat} {bs pb : Bytes} {v : PyVal} {s s1 s2 : PSt} {vp : List PObj → PyVal → Prop}
    (h : PPushesG c p bs v s s1) (hput : PPutOK c p pb vp s1 s2) (hv : ∀ n hp r, PRepG n hp r v → vp hp r) :
    PPushesG c p (bs ++ pb) v s s2 := by
  refine PRunsP.weaken (PRunsP.seq h hput ?_) (fun _ h => h) ?_
  · intro st st1 _ _ ⟨hj, r, hs, _, hr, _⟩
    exact ⟨hj, r, st.stack, hs, hv _ _ _ hr⟩
  · intro st st2 _ _ ⟨st1, _, ⟨_, r, hs, hm, hr, hk⟩, hj2, hs2, hm2, hh2⟩
    refine ⟨hj2, r, by rw [hs2, hs], by rw [hm2, hm], by rw [hh2]; exact hr, hk.trans (PKeepsH.of_eq hh2)⟩

theorem ppushesG_of_eq {p : Nat} {s s' : PSt} {b b' : Bytes} {v : PyVal} (h : PPushesG c p b v s s') (e : b' = b) :
    PPushesG c p b' v s s' := e ▸ h

end

end Ogorek
