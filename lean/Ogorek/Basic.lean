/-
  Basic byte-level vocabulary shared by every model file.
  Core Lean only (no Mathlib) so that the driver links as a `lean_exe`.
-/

namespace Ogorek

/-- Go `[]byte` / `string` / `Bytes` / `ByteString`: plain byte lists.
    (Go strings are byte strings; UTF-8 validity is a predicate, not a type.) -/
abbrev Bytes := List UInt8

/-- Bytes of an ASCII string literal (used for literals such as "latin1"); defined through
    `String.toList` so that it evaluates in the kernel. -/
def sb (s : String) : Bytes := s.toList.map fun c => UInt8.ofNat c.toNat

def hexDigit (n : Nat) : Char :=
  if n < 10 then Char.ofNat (48 + n) else Char.ofNat (87 + n)

def hexOfBytes (bs : Bytes) : String :=
  String.ofList (bs.flatMap fun b => [hexDigit (b.toNat / 16), hexDigit (b.toNat % 16)])

def hexVal? (c : Char) : Option Nat :=
  if '0' ≤ c ∧ c ≤ '9' then some (c.toNat - 48)
  else if 'a' ≤ c ∧ c ≤ 'f' then some (c.toNat - 87)
  else if 'A' ≤ c ∧ c ≤ 'F' then some (c.toNat - 55)
  else none

def bytesOfHexAux : List Char → Bytes → Option Bytes
  | [], acc => some acc.reverse
  | [_], _ => none
  | a :: b :: rest, acc =>
    match hexVal? a, hexVal? b with
    | some x, some y => bytesOfHexAux rest (UInt8.ofNat (x * 16 + y) :: acc)
    | _, _ => none

/-- Parse a hex string ("-" denotes the empty byte string). -/
def bytesOfHex? (s : String) : Option Bytes :=
  if s == "-" then some [] else bytesOfHexAux s.toList []

def hexOrDash (bs : Bytes) : String := if bs.isEmpty then "-" else hexOfBytes bs

/-! ### little / big endian fixed-width integers -/

/-- Little-endian value of a byte list. -/
def leNat : Bytes → Nat
  | [] => 0
  | b :: bs => b.toNat + 256 * leNat bs

/-- Big-endian value of a byte list. -/
def beNat (bs : Bytes) : Nat := bs.foldl (fun acc b => acc * 256 + b.toNat) 0

/-- `n` encoded little-endian on exactly `k` bytes (truncating). -/
def natLE : Nat → Nat → Bytes
  | 0, _ => []
  | k + 1, n => UInt8.ofNat (n % 256) :: natLE k (n / 256)

/-- `n` encoded big-endian on exactly `k` bytes (truncating). -/
def natBE (k n : Nat) : Bytes := (natLE k n).reverse

/-- Interpret an unsigned `bits`-bit number as two's-complement signed. -/
def toSigned (bits n : Nat) : Int :=
  if n < 2 ^ (bits - 1) then (n : Int) else (n : Int) - (2 : Int) ^ bits

/-- Two's-complement encoding of `i` on `bits` bits (as a Nat). -/
def ofSigned (bits : Nat) (i : Int) : Nat := (i % (2 : Int) ^ bits).toNat

def minInt64 : Int := -(2 : Int) ^ 63
def maxInt64 : Int := (2 : Int) ^ 63 - 1
def inInt64 (i : Int) : Bool := decide (minInt64 ≤ i) && decide (i ≤ maxInt64)

/-! ### decimal text -/

def digitByte (n : Nat) : UInt8 := UInt8.ofNat (48 + n % 10)

/-- Decimal digits of a natural number, most significant first (`strconv.Itoa`, `%d`). -/
def natDigits (n : Nat) : Bytes :=
  if h : n < 10 then [digitByte n] else natDigits (n / 10) ++ [digitByte (n % 10)]
decreasing_by omega

/-- `%d` of an integer. -/
def fmtInt (i : Int) : Bytes :=
  if i < 0 then 45 :: natDigits i.natAbs else natDigits i.natAbs

def isDigit (b : UInt8) : Bool := 48 ≤ b && b ≤ 57

/-- Value of a list of decimal digit bytes (no validation). -/
def digitsVal (bs : Bytes) : Nat := bs.foldl (fun acc b => acc * 10 + (b.toNat - 48)) 0

/-- `[0-9]+`. -/
def parseDigits? (ds : Bytes) : Option Nat :=
  if ds.isEmpty || !ds.all isDigit then none else some (digitsVal ds)

/-- `[+-]?[0-9]+` — what `strconv.ParseInt(s,10,64)` (ignoring range) and
    `big.Int.SetString(s,10)` accept. -/
def parseDecimal? (bs : Bytes) : Option Int :=
  match bs with
  | 45 :: r => (parseDigits? r).map fun n => -(n : Int)
  | 43 :: r => (parseDigits? r).map fun n => (n : Int)
  | r => (parseDigits? r).map fun n => (n : Int)

/-! ### small list helpers -/

/-- Split at the first LF: `(line without LF, rest after LF)`; `none` if there is no LF. -/
def splitLine : Bytes → Option (Bytes × Bytes)
  | [] => none
  | b :: bs =>
    if b = 10 then some ([], bs)
    else match splitLine bs with
      | some (l, r) => some (b :: l, r)
      | none => none

/-- `take n` that fails when fewer than `n` bytes are present. -/
def takeExact (n : Nat) (bs : Bytes) : Option (Bytes × Bytes) :=
  if n ≤ bs.length then some (bs.take n, bs.drop n) else none

def containsLF (bs : Bytes) : Bool := bs.any (· == 10)

end Ogorek
