import Ogorek.Decoder

/-!
  The decoder's four read primitives under an arbitrary delivery schedule (C14).

  `bufio.Reader` hands the decoder the next bytes of the stream in pieces whose sizes depend on
  how the underlying `io.Reader` delivers them and on the 4096-byte buffer.  The contract used
  here: every underlying delivery brings between 1 and the requested number of the *next* bytes
  of the stream, or reports the end; `ReadSlice('\n')` answers with the bytes through the first
  LF if it sees one in its window, with the window and `ErrBufferFull` if the window is full
  without LF, and with what is left and `io.EOF` at the end of the stream.  The schedule
  (`sizes i` = size of the i-th piece minus one) is universally quantified in the theorems.
-/
namespace Ogorek

/-- `io.ReadFull`: keep reading until `need` bytes have arrived. `eofErr` is what a short
    stream yields once some bytes were read (`io.ErrUnexpectedEOF` for ReadFull, `io.EOF` for
    CopyN and the byte-at-a-time loops). -/
def readNChunked (sizes : Nat → Nat) (eofErr : DErr) : Nat → Nat → Nat → Bytes → Bytes → Except DErr (Bytes × Bytes)
  | 0, _, _, acc, inp => .ok (acc, inp)
  | need + 1, i, fuel, acc, inp =>
    match fuel with
    | 0 => .error (.panic "out of fuel")
    | fuel + 1 =>
      if inp.isEmpty then .error (if acc.isEmpty then .eof else eofErr)
      else
        let c := min (sizes i + 1) (min (need + 1) inp.length)
        readNChunked sizes eofErr (need + 1 - c) (i + 1) fuel (acc ++ inp.take c) (inp.drop c)

/-- og-rek's `readLine`: `ReadSlice('\n')` in a loop while it answers `ErrBufferFull`. -/
def readLineChunked (windows : Nat → Nat) : Nat → Nat → Bytes → Bytes → Except DErr (Bytes × Bytes)
  | 0, _, _, _ => .error (.panic "out of fuel")
  | fuel + 1, i, acc, inp =>
    let w := windows i + 1
    match splitLine (inp.take w) with
    | some (l, _) => .ok (acc ++ l, inp.drop (l.length + 1))        -- LF seen: the line is complete
    | none =>
      if w < inp.length then                                        -- window full, no LF: ErrBufferFull, go on
        readLineChunked windows fuel (i + 1) (acc ++ inp.take w) (inp.drop w)
      else .error .eof                                              -- end of stream before LF

end Ogorek
