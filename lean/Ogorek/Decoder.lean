import Ogorek.Quote
import Ogorek.Dict

/-!
  `ogorek.go`: the decoder, in two layers.

  * `parseInsn` — the opcode byte and its argument, built only from the four reader
    combinators `readByte`, `readFull n`, `copyN n`, `readLine`  (C10, C11, C14, C04-alloc
    are statements about this layer);
  * `exec` — the effect of one instruction on the machine state (C04, C06, C09, C16, C17, C18).

  Every Go panic source is an explicit outcome (`DErr.panic`), so "never panics" is a theorem
  and not a by-product of totality.  Lists have value semantics (a Go slice header is copied
  by the memo and by DUP — finding K1); `map[any]any` and `Dict` are reference types and live
  in a heap.  With `listRef := true` lists live in the heap too: that machine is what the
  decoder would be without K1 and is used to classify K1 runs.
-/
namespace Ogorek

structure Cfg where
  pyDict : Bool
  su : Bool        -- StrictUnicode
  deriving DecidableEq, Repr, Inhabited

/-- What `PersistentLoad` answers. -/
inductive LoadResult where
  | replace (v : GoVal)   -- non-nil object
  | keep                  -- nil, nil: keep the Ref
  | fail                  -- error

/-- `PersistentLoad` as a function of the call index and the Ref. -/
abbrev Hook := Option (Nat → GoVal → LoadResult)

inductive HKind where
  | map | dict | list
  deriving DecidableEq, Repr, Inhabited

/-- A heap container. -/
structure HObj where
  kind : HKind
  kvs : Entries := []
  xs : List GoVal := []
  deriving Inhabited

structure DState where
  stack : List GoVal := []              -- head = top of the Go stack
  memo : List (Bytes × GoVal) := []     -- Go map[string]any, newest binding first
  heap : List HObj := []                -- id = index
  proto : Nat := 0
  nbig : Nat := 1                       -- id supply for *big.Int allocations
  calls : List GoVal := []              -- ghost: arguments PersistentLoad was called with (newest first)
  deriving Inhabited

/-! ### layer 1: syntax -/

inductive Insn where
  | mark | stop | pop | popMark | dup
  | pushFloat (f : F64)
  | pushBool (b : Bool)
  | pushInt (i : Int)
  | pushBig (i : Int)
  | pushNone
  | persid (s : Bytes)
  | binpersid
  | reduce
  | pushByteString (s : Bytes)     -- py2 str: ByteString or string by config
  | pushStr (s : Bytes)
  | pushBytes (s : Bytes)
  | pushBytearray (s : Bytes)
  | append | build
  | global (m n : Bytes)
  | dict | emptyDict | appends
  | get (key : Bytes)
  | inst | list | emptyList | obj
  | put (key : Bytes)
  | setitem | tuple
  | tupleN (n : Nat)
  | emptyTuple | setitems | frame | stackGlobal | memoize
  | nextBuffer | readonlyBuffer
  | proto (v : Nat)
  | unknown (k : UInt8)
  deriving Inhabited

/-- Result of a reader: `io.EOF`, `io.ErrUnexpectedEOF` or success. -/
abbrev PR := Except DErr

/-- `bufio.Reader.ReadByte`. -/
def readByte : Bytes → PR (UInt8 × Bytes)
  | [] => .error .eof
  | b :: r => .ok (b, r)

/-- `io.ReadFull(d.r, b[:n])`. -/
def readFull (n : Nat) (inp : Bytes) : PR (Bytes × Bytes) :=
  if n ≤ inp.length then .ok (inp.take n, inp.drop n)
  else if inp.isEmpty then .error .eof else .error .unexpectedEOF

/-- `io.CopyN(&d.buf, d.r, n)` and the byte-at-a-time loops: short input is `io.EOF`. -/
def copyN (n : Nat) (inp : Bytes) : PR (Bytes × Bytes) :=
  if n ≤ inp.length then .ok (inp.take n, inp.drop n) else .error .eof

/-- `readLine`: through the next LF (not included); no LF before the end is `io.EOF`. -/
def readLine (inp : Bytes) : PR (Bytes × Bytes) :=
  match splitLine inp with
  | some (l, r) => .ok (l, r)
  | none => .error .eof

/-- `decodeLong` as the code computes it: little-endian magnitude, and for a set top bit
    "subtract one, flip the bits of the big-endian bytes, negate". -/
def decodeLong (data : Bytes) : Int :=
  match data with
  | [] => 0
  | _ =>
    let v := leNat data
    let negative : Bool := match data.getLast? with
      | some b => decide (b > 127)
      | none => false
    if negative then
      let t := v - 1
      let flipped := beNat ((natBytesBE t).map fun b => 255 - b)
      (-(flipped : Int) : Int)
    else (v : Int)

/-- `strconv.Itoa` of a memo index. -/
def memoKey (n : Nat) : Bytes := natDigits n

def maxgrow : Nat := 0x10000

/-- Argument of STRING: quotes checked, then string-escape decoded. -/
def parseStringArg (line : Bytes) : Except DErr Bytes :=
  if line.length < 2 then .error .unexpectedEOF else
  match line with
  | q :: rest =>
    if q ≠ 39 && q ≠ 34 then .error .other
    else if rest.getLast? ≠ some q then .error .unexpectedEOF
    else match pydecodeStringEscape rest.dropLast with
      | .ok s => .ok s
      | .error .syntax => .error .other
      | .error .panic => .error (.panic "pydecode: string-escape: non-byte escaped rune")
  | [] => .error .unexpectedEOF

/-- Argument of INT. `nbig` is not needed here: allocation ids are given by `exec`. -/
def parseIntArg (line : Bytes) : Except DErr Insn :=
  if line = [48, 48] then .ok (.pushBool false)
  else if line = [48, 49] then .ok (.pushBool true)
  else match parseDecimal? line with
    | some i => .ok (if inInt64 i then .pushInt i else .pushBig i)
    | none => .error .other

def parseLongArg (line : Bytes) : Except DErr Insn :=
  if line.getLast? ≠ some 76 then .error .unexpectedEOF
  else match parseDecimal? line.dropLast with
    | some i => .ok (.pushBig i)
    | none => .error .other

def parseFloatArg (line : Bytes) : Except DErr Insn :=
  match F64.parse line with
  | .ok f => .ok (.pushFloat f)
  | .range => .error .other
  | .syntax => .error .other
  | .unmodelled => .error .unmodelled

/-- Read a length-prefixed payload: `lenBytes` little-endian length, then the data. -/
def readCounted (lenBytes : Nat) (inp : Bytes) : PR (Bytes × Bytes) := do
  let (lb, r) ← readFull lenBytes inp
  let l := leNat lb
  if l > 2 ^ 63 - 1 then .error .other      -- "size([]data) > maxint64"
  else copyN l r

def readCounted1 (inp : Bytes) : PR (Bytes × Bytes) := do
  let (b, r) ← readByte inp
  copyN b.toNat r

/-- The opcode byte `key` has been read; read its argument. -/
def parseArg (key : UInt8) (inp : Bytes) : PR (Insn × Bytes) :=
  let line (f : Bytes → Except DErr Insn) : PR (Insn × Bytes) := do
    let (l, r) ← readLine inp
    let i ← f l
    pure (i, r)
  if key = 40 then .ok (.mark, inp)                 -- (
  else if key = 46 then .ok (.stop, inp)            -- .
  else if key = 48 then .ok (.pop, inp)             -- 0
  else if key = 49 then .ok (.popMark, inp)         -- 1
  else if key = 50 then .ok (.dup, inp)             -- 2
  else if key = 70 then line parseFloatArg          -- F
  else if key = 73 then line parseIntArg            -- I
  else if key = 74 then do                          -- J
    let (b, r) ← readFull 4 inp
    pure (.pushInt (toSigned 32 (leNat b)), r)
  else if key = 75 then do                          -- K
    let (b, r) ← readByte inp
    pure (.pushInt b.toNat, r)
  else if key = 76 then line parseLongArg           -- L
  else if key = 77 then do                          -- M
    let (b, r) ← readFull 2 inp
    pure (.pushInt (leNat b), r)
  else if key = 78 then .ok (.pushNone, inp)        -- N
  else if key = 80 then line fun l => .ok (.persid l)   -- P
  else if key = 81 then .ok (.binpersid, inp)       -- Q
  else if key = 82 then .ok (.reduce, inp)          -- R
  else if key = 83 then line fun l => .pushByteString <$> parseStringArg l   -- S
  else if key = 84 then do                          -- T
    let (s, r) ← readCounted 4 inp
    pure (.pushByteString s, r)
  else if key = 85 then do                          -- U
    let (s, r) ← readCounted1 inp
    pure (.pushByteString s, r)
  else if key = 86 then line fun l =>               -- V
    match pydecodeRawUnicodeEscape l with
    | .ok s => .ok (.pushStr s)
    | .error _ => .error .other
  else if key = 88 then do                          -- X
    let (s, r) ← readCounted 4 inp
    pure (.pushStr s, r)
  else if key = 97 then .ok (.append, inp)          -- a
  else if key = 98 then .ok (.build, inp)           -- b
  else if key = 99 then do                          -- c
    let (m, r) ← readLine inp
    let (n, r) ← readLine r
    pure (.global m n, r)
  else if key = 100 then .ok (.dict, inp)           -- d
  else if key = 125 then .ok (.emptyDict, inp)      -- }
  else if key = 101 then .ok (.appends, inp)        -- e
  else if key = 103 then line fun l => .ok (.get l) -- g
  else if key = 104 then do                         -- h
    let (b, r) ← readByte inp
    pure (.get (memoKey b.toNat), r)
  else if key = 105 then .ok (.inst, inp)           -- i
  else if key = 0x8a then do                        -- LONG1
    let (s, r) ← readCounted1 inp
    pure (.pushBig (decodeLong s), r)
  else if key = 0x89 then .ok (.pushBool false, inp)
  else if key = 0x88 then .ok (.pushBool true, inp)
  else if key = 106 then do                         -- j
    let (b, r) ← readFull 4 inp
    pure (.get (memoKey (leNat b)), r)
  else if key = 108 then .ok (.list, inp)           -- l
  else if key = 93 then .ok (.emptyList, inp)       -- ]
  else if key = 111 then .ok (.obj, inp)            -- o
  else if key = 112 then line fun l => .ok (.put l) -- p
  else if key = 113 then do                         -- q
    let (b, r) ← readByte inp
    pure (.put (memoKey b.toNat), r)
  else if key = 114 then do                         -- r
    let (b, r) ← readFull 4 inp
    pure (.put (memoKey (leNat b)), r)
  else if key = 115 then .ok (.setitem, inp)        -- s
  else if key = 116 then .ok (.tuple, inp)          -- t
  else if key = 0x85 then .ok (.tupleN 1, inp)
  else if key = 0x86 then .ok (.tupleN 2, inp)
  else if key = 0x87 then .ok (.tupleN 3, inp)
  else if key = 41 then .ok (.emptyTuple, inp)      -- )
  else if key = 117 then .ok (.setitems, inp)       -- u
  else if key = 71 then do                          -- G
    let (b, r) ← readFull 8 inp
    pure (.pushFloat (UInt64.ofNat (beNat b)), r)
  else if key = 66 then do                          -- B
    let (s, r) ← readCounted 4 inp
    pure (.pushBytes s, r)
  else if key = 67 then do                          -- C
    let (s, r) ← readCounted1 inp
    pure (.pushBytes s, r)
  else if key = 0x95 then do                        -- FRAME
    let (_, r) ← readFull 8 inp
    pure (.frame, r)
  else if key = 0x8c then do                        -- SHORT_BINUNICODE
    let (s, r) ← readCounted1 inp
    pure (.pushStr s, r)
  else if key = 0x93 then .ok (.stackGlobal, inp)
  else if key = 0x94 then .ok (.memoize, inp)
  else if key = 0x96 then do                        -- BYTEARRAY8
    let (s, r) ← readCounted 8 inp
    pure (.pushBytearray s, r)
  else if key = 0x97 then .ok (.nextBuffer, inp)
  else if key = 0x98 then .ok (.readonlyBuffer, inp)
  else if key = 0x80 then do                        -- PROTO
    let (v, r) ← readByte inp
    pure (.proto v.toNat, r)
  else .ok (.unknown key, inp)

/-- One instruction from the input: opcode byte, then argument. The caller maps the
    error of `readByte` on the opcode itself (clean EOF vs. mid-pickle). -/
def parseInsn (inp : Bytes) : PR (Insn × Bytes) := do
  let (key, r) ← readByte inp
  parseArg key r

/-- Memory the decoder requests *before* it knows whether the payload is present
    (`d.buf.Grow(min(l, maxgrow))`), as a function of the input at an opcode boundary. -/
def preallocOf (inp : Bytes) : Nat :=
  match inp with
  | [] => 0
  | key :: r =>
    let counted (n : Nat) : Nat :=
      if n ≤ r.length then min (leNat (r.take n)) maxgrow else 0
    if key = 84 || key = 66 then counted 4
    else if key = 0x96 then counted 8
    else if key = 85 || key = 67 || key = 0x8c then counted 1
    else 0

/-! ### layer 2: semantics -/

/-- Machine variant: `listRef = false` is the Go decoder (slice headers are values),
    `true` gives lists reference semantics (K1 repaired). -/
structure MCfg where
  cfg : Cfg
  listRef : Bool := false

abbrev M := Except DErr

def push (st : DState) (v : GoVal) : DState := { st with stack := v :: st.stack }

/-- `d.pop()`. -/
def pop (st : DState) : M (GoVal × DState) :=
  match st.stack with
  | [] => .error .stackUnderflow
  | v :: s => .ok (v, { st with stack := s })

/-- `d.xpop()`: panics on an empty stack. -/
def xpop (st : DState) : M (GoVal × DState) :=
  match st.stack with
  | [] => .error (.panic "pickle: stack underflow")
  | v :: s => .ok (v, { st with stack := s })

/-- `userOK(v)`. -/
def userOK (v : GoVal) : M Unit :=
  match v with
  | .mark => .error .markExposed
  | _ => .ok ()

def userOKAll : List GoVal → M Unit
  | [] => .ok ()
  | v :: vs => do userOK v; userOKAll vs

/-- `d.popUser()`. -/
def popUser (st : DState) : M (GoVal × DState) := do
  let (v, st) ← pop st
  userOK v
  pure (v, st)

def isMark : GoVal → Bool
  | .mark => true
  | _ => false

/-- `d.marker()`: items above the topmost mark (top first) and the stack below the mark. -/
def splitAtMark : List GoVal → Option (List GoVal × List GoVal)
  | [] => none
  | v :: s =>
    if isMark v then some ([], s)
    else match splitAtMark s with
      | some (above, below) => some (v :: above, below)
      | none => none

def allocObj (st : DState) (o : HObj) : DState × GoVal :=
  ({ st with heap := st.heap ++ [o] }, .href st.heap.length)

def heapSet (st : DState) (id : Nat) (o : HObj) : DState :=
  { st with heap := st.heap.set id o }

def memoGet (st : DState) (key : Bytes) : Option GoVal := st.memo.lookup key

/-- `d.memo[key] = v`. -/
def memoPut (st : DState) (key : Bytes) (v : GoVal) : DState :=
  { st with memo := (key, v) :: st.memo.filter (·.1 != key) }

/-- `mapTryAssign` / `dictTryAssign`: `none` when the key cannot be hashed (recovered panic). -/
def tryAssign (kind : HKind) (es : Entries) (k v : GoVal) : Option Entries :=
  match kind with
  | .dict => if hashable k then some (dictSetSpec es k v) else none
  | _ => if goMapHashable k then some (mapSet es k v) else none

/-- Assign `k1 v1 k2 v2 …` (bottom-to-top order) one after another. -/
def assignAll (kind : HKind) : Entries → List GoVal → Option Entries
  | es, k :: v :: rest =>
    match tryAssign kind es k v with
    | some es' => assignAll kind es' rest
    | none => none
  | es, _ => some es

def dictKind (c : Cfg) : HKind := if c.pyDict then .dict else .map

/-- A fresh list value (by value or in the heap). -/
def mkList (mc : MCfg) (st : DState) (xs : List GoVal) : DState × GoVal :=
  if mc.listRef then allocObj st { kind := .list, xs := xs } else (st, .list xs)

/-- `append(l, items...)` on whatever represents a list; `none` if it is not a list. -/
def listAppend (st : DState) (l : GoVal) (items : List GoVal) : Option (DState × GoVal) :=
  match l with
  | .list xs => some (st, .list (xs ++ items))
  | .href id =>
    match st.heap[id]? with
    | some o => if o.kind == .list then some (heapSet st id { o with xs := o.xs ++ items }, l) else none
    | none => none
  | _ => none

/-- `AsString(x)` then compare: x is `string` or `ByteString` with this content. -/
def stringEQ (x : GoVal) (lit : String) : Bool :=
  match x with
  | .str s => s == sb lit
  | .bytestr s => s == sb lit
  | _ => false

/-- `decodeLatin1Bytes`: the argument must be a `string` whose runes are all < 0x100. -/
def decodeLatin1Bytes (arg : GoVal) : Option Bytes :=
  match arg with
  | .str s =>
    let rs := runes s
    if rs.all (fun (r, _) => r < 0x100) then some (rs.map fun (r, _) => UInt8.ofNat r) else none
  | _ => none

def pybuiltinModule (proto : Nat) : Bytes := if proto ≤ 2 then sb "__builtin__" else sb "builtins"

/-- `handleCall`: `some` = handled (value or error), `none` = errCallNotHandled. -/
def handleCall (proto : Nat) (m n : Bytes) (argv : List GoVal) : Option (M GoVal) :=
  if m == sb "_codecs" && n == sb "encode" && argv.length == 2 && stringEQ (argv.getD 1 .none) "latin1" then
    match decodeLatin1Bytes (argv.getD 0 .none) with
    | some d => some (.ok (.bytes d))
    | none => some (.error .other)
  else if m == pybuiltinModule proto && n == sb "bytes" && argv.length == 0 then
    some (.ok (.bytes []))
  else if m == pybuiltinModule proto && n == sb "bytearray" then
    if argv.length == 0 then some (.ok (.bytearray []))
    else if argv.length == 1 then
      match argv.getD 0 .none with
      | .bytes d => some (.ok (.bytearray d))
      | _ => some (.error .other)
    else if argv.length == 2 && stringEQ (argv.getD 1 .none) "latin-1" then
      match decodeLatin1Bytes (argv.getD 0 .none) with
      | some d => some (.ok (.bytearray d))
      | none => some (.error .other)
    else none
  else none

/-- `handleRef`. -/
def handleRef (hook : Hook) (st : DState) (ref : GoVal) : M DState :=
  match hook with
  | none => .ok (push st ref)
  | some load =>
    let st := { st with calls := ref :: st.calls }
    match load (st.calls.length - 1) ref with
    | .replace v => .ok (push st v)
    | .keep => .ok (push st ref)
    | .fail => .error .hook

/-- Effect of one instruction (everything except STOP, which ends the loop). -/
def exec (mc : MCfg) (hook : Hook) (insn : Insn) (pos : Nat) (st : DState) : M DState :=
  match insn with
  | .mark => .ok (push st .mark)
  | .stop => .ok st
  | .pop => do let (_, st) ← pop st; pure st
  | .popMark => .error (.opcode 49 pos)
  | .dup =>
    match st.stack with
    | [] => .error .stackUnderflow
    | v :: _ => .ok (push st v)
  | .pushFloat f => .ok (push st (.float f))
  | .pushBool b => .ok (push st (.bool b))
  | .pushInt i => .ok (push st (.int i))
  | .pushBig i => .ok (push { st with nbig := st.nbig + 1 } (.big st.nbig i))
  | .pushNone => .ok (push st .none)
  | .persid s => handleRef hook st (.ref (.str s))
  | .binpersid => do
    let (pid, st) ← popUser st
    handleRef hook st (.ref pid)
  | .reduce =>
    if st.stack.length < 2 then .error .stackUnderflow else do
    let (xargs, st) ← xpop st
    let (xclass, st) ← xpop st
    match xargs, xclass with
    | .tuple args, .cls m n =>
      match handleCall st.proto m n args with
      | some r => do let v ← r; pure (push st v)
      | none => pure (push st (.call m n args))
    | _, _ => .error .other
  | .pushByteString s => .ok (push st (if mc.cfg.su then .bytestr s else .str s))
  | .pushStr s => .ok (push st (.str s))
  | .pushBytes s => .ok (push st (.bytes s))
  | .pushBytearray s => .ok (push st (.bytearray s))
  | .append =>
    if st.stack.length < 2 then .error .stackUnderflow else do
    let (v, st) ← xpop st
    match st.stack with
    | [] => .error (.panic "index out of range")
    | l :: below => do
      userOK v
      match listAppend st l [v] with
      | some (st, l') => pure { st with stack := l' :: below }
      | none => .error .other
  | .build => .error (.opcode 98 pos)
  | .global m n => .ok (push st (.cls m n))
  | .dict =>
    match splitAtMark st.stack with
    | none => .error .noMarker
    | some (above, below) =>
      if above.length % 2 ≠ 0 then .error .other
      else match assignAll (dictKind mc.cfg) [] above.reverse with
        | some es =>
          let (st, r) := allocObj st { kind := dictKind mc.cfg, kvs := es }
          .ok { st with stack := r :: below }
        | none => .error .other
  | .emptyDict =>
    let (st, r) := allocObj st { kind := dictKind mc.cfg }
    .ok (push st r)
  | .appends =>
    match splitAtMark st.stack with
    | none => .error .noMarker
    | some (above, below) =>
      match below with
      | [] => .error .stackUnderflow
      | l :: below' =>
        match listAppend st l above.reverse with
        | some (st, l') => .ok { st with stack := l' :: below' }
        | none => .error .other
  | .get key =>
    match memoGet st key with
    | some v => .ok (push st v)
    | none => .error .other
  | .inst => .error (.opcode 105 pos)
  | .list =>
    match splitAtMark st.stack with
    | none => .error .noMarker
    | some (above, below) =>
      let (st, l) := mkList mc st above.reverse
      .ok { st with stack := l :: below }
  | .emptyList =>
    let (st, l) := mkList mc st []
    .ok (push st l)
  | .obj => .error (.opcode 111 pos)
  | .put key =>
    match st.stack with
    | [] => .error .stackUnderflow
    | v :: _ => do userOK v; pure (memoPut st key v)
  | .setitem =>
    if st.stack.length < 3 then .error .stackUnderflow else do
    let (v, st) ← xpop st
    let (k, st) ← xpop st
    userOK k
    userOK v
    match st.stack with
    | [] => .error (.panic "index out of range")
    | .href id :: _ =>
      match st.heap[id]? with
      | some o =>
        if o.kind == .list then .error .other
        else match tryAssign o.kind o.kvs k v with
          | some es => pure (heapSet st id { o with kvs := es })
          | none => .error .other
      | none => .error .other
    | _ :: _ => .error .other
  | .tuple =>
    match splitAtMark st.stack with
    | none => .error .noMarker
    | some (above, below) => .ok { st with stack := .tuple above.reverse :: below }
  | .tupleN n =>
    if st.stack.length < n then .error .stackUnderflow else do
    let items := st.stack.take n
    userOKAll items.reverse
    pure { st with stack := .tuple items.reverse :: st.stack.drop n }
  | .emptyTuple => .ok (push st (.tuple []))
  | .setitems =>
    match splitAtMark st.stack with
    | none => .error .noMarker
    | some (above, below) =>
      match below with
      | [] => .error .stackUnderflow
      | l :: below' =>
        if above.length % 2 ≠ 0 then .error .other
        else match l with
          | .href id =>
            match st.heap[id]? with
            | some o =>
              if o.kind == .list then .error .other
              else match assignAll o.kind o.kvs above.reverse with
                | some es => .ok { heapSet st id { o with kvs := es } with stack := l :: below' }
                | none => .error .other
            | none => .error .other
          | _ => .error .other
  | .frame => .ok st
  | .stackGlobal =>
    if st.stack.length < 2 then .error .stackUnderflow else do
    let (xname, st) ← xpop st
    let (xmodule, st) ← xpop st
    match xname, xmodule with
    | .str n, .str m => pure (push st (.cls m n))
    | _, _ => .error .other
  | .memoize =>
    match st.stack with
    | [] => .error .stackUnderflow
    | v :: _ => do userOK v; pure (memoPut st (memoKey st.memo.length) v)
  | .nextBuffer => .error .other
  | .readonlyBuffer => .error .other
  | .proto v => if v ≤ 5 then .ok { st with proto := v } else .error .invalidVersion
  | .unknown k => .error (.opcode k pos)

/-- The main loop of `Decode`.  `fuel` bounds the number of instructions; with
    `fuel = length of the input + 1` it is never exhausted (theorem `C04_progress`). -/
def decodeLoop (mc : MCfg) (hook : Hook) :
    Nat → Nat → DState → Bytes → (M GoVal) × DState × Bytes
  | 0, _, st, inp => (.error (.panic "decode: out of fuel"), st, inp)
  | fuel + 1, insn, st, inp =>
    match readByte inp with
    | .error _ =>
      -- err == io.EOF && insn != 0  →  io.ErrUnexpectedEOF
      (.error (if insn = 0 then .eof else .unexpectedEOF), st, inp)
    | .ok (key, r) =>
      match parseArg key r with
      | .error e =>
        -- EOF from an individual opcode decoder is an unexpected end of stream
        (.error (if e = .eof then .unexpectedEOF else e), st, r)
      | .ok (.stop, rest) =>
        match popUser st with
        | .ok (v, st') => (.ok v, st', rest)
        | .error e => (.error e, st, rest)
      | .ok (i, rest) =>
        match exec mc hook i (insn + 1) st with
        | .ok st' => decodeLoop mc hook fuel (insn + 1) st' rest
        | .error e => (.error e, st, rest)

/-- One `Decode` call: reset stack and protocol (F5), then run to STOP. -/
def decode (mc : MCfg) (hook : Hook) (st : DState) (inp : Bytes) : (M GoVal) × DState × Bytes :=
  decodeLoop mc hook (inp.length + 1) 0 { st with stack := [], proto := 0 } inp

def goCfg (c : Cfg) : MCfg := { cfg := c, listRef := false }
def refCfg (c : Cfg) : MCfg := { cfg := c, listRef := true }

end Ogorek
