import Ogorek.Quote
import Ogorek.Dict

/-!
  `ogorek.go`: the decoder, in two layers.

  * `parseInsn` — the opcode byte and its argument, built only from the four reader
    combinators `readByte`, `readFull n`, `copyN n`, `readLine`  (C10, C11, C14, C04-alloc
    are statements about this layer);
  * `exec` — the effect of one instruction on the machine state (C04, C06, C09, C16, C17, C18).

  Every Go panic source is an explicit outcome (`DErr.panic`), so "never panics" is a theorem
  and not a by-product of totality.  Lists have value semantics (a Go slice header is copied
  by the memo and by DUP — finding K1); `map[any]any` and `Dict` are reference types and live
  in a heap.  With `listRef := true` lists live in the heap too: that machine is what the
  decoder would be without K1 and is used to classify K1 runs.
-/
namespace Ogorek

structure Cfg where
  pyDict : Bool
  su : Bool        -- StrictUnicode
  deriving DecidableEq, Repr, Inhabited

/-- What `PersistentLoad` answers. -/
inductive LoadResult where
  | replace (v : GoVal)   -- non-nil object
  | keep                  -- nil, nil: keep the Ref
  | fail                  -- error

/-- `PersistentLoad` as a function of the call index and the Ref. -/
abbrev Hook := Option (Nat → GoVal → LoadResult)

inductive HKind where
  | map | dict | list
  deriving DecidableEq, Repr, Inhabited

/-- A heap container. -/
structure HObj where
  kind : HKind
  kvs : Entries := []
  xs : List GoVal := []
  deriving Inhabited

structure DState where
  stack : List GoVal := []              -- head = top of the Go stack
  memo : List (Bytes × GoVal) := []     -- Go map[string]any, newest binding first
  heap : List HObj := []                -- id = index
  proto : Nat := 0
  nbig : Nat := 1                       -- id supply for *big.Int allocations
  calls : List GoVal := []              -- ghost: arguments PersistentLoad was called with (newest first)
  deriving Inhabited

/-! ### layer 1: syntax -/

inductive Insn where
  | mark | stop | pop | popMark | dup
  | pushFloat (f : F64)
  | pushBool (b : Bool)
  | pushInt (i : Int)
  | pushBig (i : Int)
  | pushNone
  | persid (s : Bytes)
  | binpersid
  | reduce
  | pushByteString (s : Bytes)     -- py2 str: ByteString or string by config
  | pushStr (s : Bytes)
  | pushBytes (s : Bytes)
  | pushBytearray (s : Bytes)
  | append | build
  | global (m n : Bytes)
  | dict | emptyDict | appends
  | get (key : Bytes)
  | inst | list | emptyList | obj
  | put (key : Bytes)
  | setitem | tuple
  | tupleN (n : Nat)
  | emptyTuple | setitems | frame | stackGlobal | memoize
  | nextBuffer | readonlyBuffer
  | proto (v : Nat)
  | unknown (k : UInt8)
  deriving Inhabited

/-- A reader: consumes a prefix of the input and returns a value, or fails
    (`io.EOF`, `io.ErrUnexpectedEOF`, or another error). -/
abbrev Rd (α : Type) := Bytes → Except DErr (α × Bytes)

namespace Rd
/-- Consume nothing. -/
def pure (a : α) : Rd α := fun inp => .ok (a, inp)
/-- Fail without consuming. -/
def fail (e : DErr) : Rd α := fun _ => .error e
/-- Sequencing: the second reader continues where the first stopped. -/
def bind (r : Rd α) (s : α → Rd β) : Rd β := fun inp =>
  match r inp with
  | .ok (a, rest) => s a rest
  | .error e => .error e
/-- Interpret what was read; interpretation may fail but consumes nothing. -/
def mapE (r : Rd α) (f : α → Except DErr β) : Rd β :=
  r.bind fun a => match f a with
    | .ok b => pure b
    | .error e => fail e
def map (r : Rd α) (f : α → β) : Rd β := r.bind fun a => pure (f a)
end Rd

/-- `bufio.Reader.ReadByte`. -/
def readByte : Rd UInt8
  | [] => .error .eof
  | b :: r => .ok (b, r)

/-- `io.ReadFull(d.r, b[:n])`. -/
def readFull (n : Nat) : Rd Bytes := fun inp =>
  if n ≤ inp.length then .ok (inp.take n, inp.drop n)
  else if inp.isEmpty then .error .eof else .error .unexpectedEOF

/-- `io.CopyN(&d.buf, d.r, n)` and the byte-at-a-time loops: short input is `io.EOF`. -/
def copyN (n : Nat) : Rd Bytes := fun inp =>
  if n ≤ inp.length then .ok (inp.take n, inp.drop n) else .error .eof

/-- `readLine`: through the next LF (not included); no LF before the end is `io.EOF`. -/
def readLine : Rd Bytes := fun inp =>
  match splitLine inp with
  | some (l, r) => .ok (l, r)
  | none => .error .eof

/-- `decodeLong` as the code computes it: little-endian magnitude, and for a set top bit
    "subtract one, flip the bits of the big-endian bytes, negate". -/
def decodeLong (data : Bytes) : Int :=
  match data with
  | [] => 0
  | _ =>
    let v := leNat data
    let negative : Bool := match data.getLast? with
      | some b => decide (b > 127)
      | none => false
    if negative then
      let t := v - 1
      let flipped := beNat ((natBytesBE t).map fun b => 255 - b)
      (-(flipped : Int) : Int)
    else (v : Int)

/-- `strconv.Itoa` of a memo index. -/
def memoKey (n : Nat) : Bytes := natDigits n

def maxgrow : Nat := 0x10000

/-- Argument of STRING: quotes checked, then string-escape decoded. -/
def parseStringArg (line : Bytes) : Except DErr Bytes :=
  if line.length < 2 then .error .unexpectedEOF else
  match line with
  | q :: rest =>
    if q ≠ 39 && q ≠ 34 then .error .other
    else if rest.getLast? ≠ some q then .error .unexpectedEOF
    else match pydecodeStringEscape rest.dropLast with
      | .ok s => .ok s
      | .error .syntax => .error .other
      | .error .panic => .error (.panic "pydecode: string-escape: non-byte escaped rune")
  | [] => .error .unexpectedEOF

/-- Argument of INT (`00`/`01` are the booleans). Allocation ids of longs are given by `exec`. -/
def parseIntArg (line : Bytes) : Except DErr Insn :=
  if line = [48, 48] then .ok (.pushBool false)
  else if line = [48, 49] then .ok (.pushBool true)
  else match parseDecimal? line with
    | some i => .ok (if inInt64 i then .pushInt i else .pushBig i)
    | none => .error .other

def parseLongArg (line : Bytes) : Except DErr Insn :=
  if line.getLast? ≠ some 76 then .error .unexpectedEOF
  else match parseDecimal? line.dropLast with
    | some i => .ok (.pushBig i)
    | none => .error .other

def parseFloatArg (line : Bytes) : Except DErr Insn :=
  match F64.parse line with
  | .ok f => .ok (.pushFloat f)
  | .range => .error .other
  | .syntax => .error .other
  | .unmodelled => .error .unmodelled

def parseUnicodeArg (line : Bytes) : Except DErr Insn :=
  match pydecodeRawUnicodeEscape line with
  | .ok s => .ok (.pushStr s)
  | .error _ => .error .other

/-- A length-prefixed payload: `lenBytes` little-endian length, then the data. -/
def readCounted (lenBytes : Nat) : Rd Bytes :=
  (readFull lenBytes).bind fun lb =>
    if leNat lb > 2 ^ 63 - 1 then Rd.fail .other      -- "size([]data) > maxint64"
    else copyN (leNat lb)

def readCounted1 : Rd Bytes := readByte.bind fun b => copyN b.toNat

/-- The opcode byte `key` has been read; read its argument. -/
def parseArg (key : UInt8) : Rd Insn :=
  if key = 40 then Rd.pure .mark                    -- (
  else if key = 46 then Rd.pure .stop               -- .
  else if key = 48 then Rd.pure .pop                -- 0
  else if key = 49 then Rd.pure .popMark            -- 1
  else if key = 50 then Rd.pure .dup                -- 2
  else if key = 70 then readLine.mapE parseFloatArg -- F
  else if key = 73 then readLine.mapE parseIntArg   -- I
  else if key = 74 then (readFull 4).map fun b => .pushInt (toSigned 32 (leNat b))   -- J
  else if key = 75 then readByte.map fun b => .pushInt b.toNat                       -- K
  else if key = 76 then readLine.mapE parseLongArg  -- L
  else if key = 77 then (readFull 2).map fun b => .pushInt (leNat b)                 -- M
  else if key = 78 then Rd.pure .pushNone           -- N
  else if key = 80 then readLine.map .persid        -- P
  else if key = 81 then Rd.pure .binpersid          -- Q
  else if key = 82 then Rd.pure .reduce             -- R
  else if key = 83 then readLine.mapE fun l => .pushByteString <$> parseStringArg l  -- S
  else if key = 84 then (readCounted 4).map .pushByteString                          -- T
  else if key = 85 then readCounted1.map .pushByteString                             -- U
  else if key = 86 then readLine.mapE parseUnicodeArg                                -- V
  else if key = 88 then (readCounted 4).map .pushStr                                 -- X
  else if key = 97 then Rd.pure .append             -- a
  else if key = 98 then Rd.pure .build              -- b
  else if key = 99 then readLine.bind fun m => readLine.map fun n => .global m n     -- c
  else if key = 100 then Rd.pure .dict              -- d
  else if key = 125 then Rd.pure .emptyDict         -- }
  else if key = 101 then Rd.pure .appends           -- e
  else if key = 103 then readLine.map .get          -- g
  else if key = 104 then readByte.map fun b => .get (memoKey b.toNat)                -- h
  else if key = 105 then Rd.pure .inst              -- i
  else if key = 0x8a then readCounted1.map fun s => .pushBig (decodeLong s)          -- LONG1
  else if key = 0x89 then Rd.pure (.pushBool false)
  else if key = 0x88 then Rd.pure (.pushBool true)
  else if key = 106 then (readFull 4).map fun b => .get (memoKey (leNat b))          -- j
  else if key = 108 then Rd.pure .list              -- l
  else if key = 93 then Rd.pure .emptyList          -- ]
  else if key = 111 then Rd.pure .obj               -- o
  else if key = 112 then readLine.map .put          -- p
  else if key = 113 then readByte.map fun b => .put (memoKey b.toNat)                -- q
  else if key = 114 then (readFull 4).map fun b => .put (memoKey (leNat b))          -- r
  else if key = 115 then Rd.pure .setitem           -- s
  else if key = 116 then Rd.pure .tuple             -- t
  else if key = 0x85 then Rd.pure (.tupleN 1)
  else if key = 0x86 then Rd.pure (.tupleN 2)
  else if key = 0x87 then Rd.pure (.tupleN 3)
  else if key = 41 then Rd.pure .emptyTuple         -- )
  else if key = 117 then Rd.pure .setitems          -- u
  else if key = 71 then (readFull 8).map fun b => .pushFloat (UInt64.ofNat (beNat b))  -- G
  else if key = 66 then (readCounted 4).map .pushBytes                               -- B
  else if key = 67 then readCounted1.map .pushBytes                                  -- C
  else if key = 0x95 then (readFull 8).map fun _ => .frame                           -- FRAME
  else if key = 0x8c then readCounted1.map .pushStr                                  -- SHORT_BINUNICODE
  else if key = 0x93 then Rd.pure .stackGlobal
  else if key = 0x94 then Rd.pure .memoize
  else if key = 0x96 then (readCounted 8).map .pushBytearray                         -- BYTEARRAY8
  else if key = 0x97 then Rd.pure .nextBuffer
  else if key = 0x98 then Rd.pure .readonlyBuffer
  else if key = 0x80 then readByte.map fun v => .proto v.toNat                       -- PROTO
  else Rd.pure (.unknown key)

/-- One instruction from the input: opcode byte, then argument. The caller maps the
    error of `readByte` on the opcode itself (clean EOF vs. mid-pickle). -/
def parseInsn : Rd Insn := readByte.bind parseArg

/-- Memory the decoder requests *before* it knows whether the payload is present
    (`d.buf.Grow(min(l, maxgrow))`), as a function of the input at an opcode boundary. -/
def preallocOf (inp : Bytes) : Nat :=
  match inp with
  | [] => 0
  | key :: r =>
    let counted (n : Nat) : Nat :=
      if n ≤ r.length then min (leNat (r.take n)) maxgrow else 0
    if key = 84 || key = 66 then counted 4
    else if key = 0x96 then counted 8
    else if key = 85 || key = 67 || key = 0x8c then counted 1
    else 0

/-! ### layer 2: semantics -/

/-- Machine variant: `listRef = false` is the Go decoder (slice headers are values),
    `true` gives lists reference semantics (K1 repaired). -/
structure MCfg where
  cfg : Cfg
  listRef : Bool := false

abbrev M := Except DErr

def push (st : DState) (v : GoVal) : DState := { st with stack := v :: st.stack }

/-- `d.pop()`. -/
def pop (st : DState) : M (GoVal × DState) :=
  match st.stack with
  | [] => .error .stackUnderflow
  | v :: s => .ok (v, { st with stack := s })

/-- `d.xpop()`: panics on an empty stack. -/
def xpop (st : DState) : M (GoVal × DState) :=
  match st.stack with
  | [] => .error (.panic "pickle: stack underflow")
  | v :: s => .ok (v, { st with stack := s })

/-- `userOK(v)`. -/
def userOK (v : GoVal) : M Unit :=
  match v with
  | .mark => .error .markExposed
  | _ => .ok ()

def userOKAll : List GoVal → M Unit
  | [] => .ok ()
  | v :: vs => do userOK v; userOKAll vs

/-- `d.popUser()`. -/
def popUser (st : DState) : M (GoVal × DState) := do
  let (v, st) ← pop st
  userOK v
  pure (v, st)

def isMark : GoVal → Bool
  | .mark => true
  | _ => false

/-- `d.marker()`: items above the topmost mark (top first) and the stack below the mark. -/
def splitAtMark : List GoVal → Option (List GoVal × List GoVal)
  | [] => none
  | v :: s =>
    if isMark v then some ([], s)
    else match splitAtMark s with
      | some (above, below) => some (v :: above, below)
      | none => none

def allocObj (st : DState) (o : HObj) : DState × GoVal :=
  ({ st with heap := st.heap ++ [o] }, .href st.heap.length)

def heapSet (st : DState) (id : Nat) (o : HObj) : DState :=
  { st with heap := st.heap.set id o }

def memoGet (st : DState) (key : Bytes) : Option GoVal := st.memo.lookup key

/-- `d.memo[key] = v`. -/
def memoPut (st : DState) (key : Bytes) (v : GoVal) : DState :=
  { st with memo := (key, v) :: st.memo.filter (·.1 != key) }

/-- `mapTryAssign` / `dictTryAssign`: `none` when the key cannot be hashed (recovered panic). -/
def tryAssign (kind : HKind) (es : Entries) (k v : GoVal) : Option Entries :=
  match kind with
  | .dict => if hashable k then some (dictSetSpec es k v) else none
  | _ => if goMapHashable k then some (mapSet es k v) else none

/-- Assign `k1 v1 k2 v2 …` (bottom-to-top order) one after another. -/
def assignAll (kind : HKind) : Entries → List GoVal → Option Entries
  | es, k :: v :: rest =>
    match tryAssign kind es k v with
    | some es' => assignAll kind es' rest
    | none => none
  | es, _ => some es

def dictKind (c : Cfg) : HKind := if c.pyDict then .dict else .map

/-- A fresh list value (by value or in the heap). -/
def mkList (mc : MCfg) (st : DState) (xs : List GoVal) : DState × GoVal :=
  if mc.listRef then allocObj st { kind := .list, xs := xs } else (st, .list xs)

/-- `append(l, items...)` on whatever represents a list; `none` if it is not a list. -/
def listAppend (st : DState) (l : GoVal) (items : List GoVal) : Option (DState × GoVal) :=
  match l with
  | .list xs => some (st, .list (xs ++ items))
  | .href id =>
    match st.heap[id]? with
    | some o => if o.kind == .list then some (heapSet st id { o with xs := o.xs ++ items }, l) else none
    | none => none
  | _ => none

/-- `AsString(x)` then compare: x is `string` or `ByteString` with this content. -/
def stringEQ (x : GoVal) (lit : String) : Bool :=
  match x with
  | .str s => s == sb lit
  | .bytestr s => s == sb lit
  | _ => false

/-- `decodeLatin1Bytes`: the argument must be a `string` whose runes are all < 0x100. -/
def decodeLatin1Bytes (arg : GoVal) : Option Bytes :=
  match arg with
  | .str s =>
    let rs := runes s
    if rs.all (fun (r, _) => r < 0x100) then some (rs.map fun (r, _) => UInt8.ofNat r) else none
  | _ => none

def pybuiltinModule (proto : Nat) : Bytes := if proto ≤ 2 then sb "__builtin__" else sb "builtins"

/-- `handleCall`: `some` = handled (value or error), `none` = errCallNotHandled. -/
def handleCall (proto : Nat) (m n : Bytes) (argv : List GoVal) : Option (M GoVal) :=
  if m == sb "_codecs" && n == sb "encode" && argv.length == 2 && stringEQ (argv.getD 1 .none) "latin1" then
    match decodeLatin1Bytes (argv.getD 0 .none) with
    | some d => some (.ok (.bytes d))
    | none => some (.error .other)
  else if m == pybuiltinModule proto && n == sb "bytes" && argv.length == 0 then
    some (.ok (.bytes []))
  else if m == pybuiltinModule proto && n == sb "bytearray" then
    if argv.length == 0 then some (.ok (.bytearray []))
    else if argv.length == 1 then
      match argv.getD 0 .none with
      | .bytes d => some (.ok (.bytearray d))
      | _ => some (.error .other)
    else if argv.length == 2 && stringEQ (argv.getD 1 .none) "latin-1" then
      match decodeLatin1Bytes (argv.getD 0 .none) with
      | some d => some (.ok (.bytearray d))
      | none => some (.error .other)
    else none
  else none

/-- `handleRef`. -/
def handleRef (hook : Hook) (st : DState) (ref : GoVal) : M DState :=
  match hook with
  | none => .ok (push st ref)
  | some load =>
    let st := { st with calls := ref :: st.calls }
    match load (st.calls.length - 1) ref with
    | .replace v => .ok (push st v)
    | .keep => .ok (push st ref)
    | .fail => .error .hook

/-- Effect of one instruction (everything except STOP, which ends the loop). -/
def exec (mc : MCfg) (hook : Hook) (insn : Insn) (pos : Nat) (st : DState) : M DState :=
  match insn with
  | .mark => .ok (push st .mark)
  | .stop => .ok st
  | .pop => do let (_, st) ← pop st; pure st
  | .popMark => .error (.opcode 49 pos)
  | .dup =>
    match st.stack with
    | [] => .error .stackUnderflow
    | v :: _ => .ok (push st v)
  | .pushFloat f => .ok (push st (.float f))
  | .pushBool b => .ok (push st (.bool b))
  | .pushInt i => .ok (push st (.int i))
  | .pushBig i => .ok (push { st with nbig := st.nbig + 1 } (.big st.nbig i))
  | .pushNone => .ok (push st .none)
  | .persid s => handleRef hook st (.ref (.str s))
  | .binpersid => do
    let (pid, st) ← popUser st
    handleRef hook st (.ref pid)
  | .reduce =>
    if st.stack.length < 2 then .error .stackUnderflow else do
    let (xargs, st) ← xpop st
    let (xclass, st) ← xpop st
    match xargs, xclass with
    | .tuple args, .cls m n =>
      match handleCall st.proto m n args with
      | some r => do let v ← r; pure (push st v)
      | none => pure (push st (.call m n args))
    | _, _ => .error .other
  | .pushByteString s => .ok (push st (if mc.cfg.su then .bytestr s else .str s))
  | .pushStr s => .ok (push st (.str s))
  | .pushBytes s => .ok (push st (.bytes s))
  | .pushBytearray s => .ok (push st (.bytearray s))
  | .append =>
    if st.stack.length < 2 then .error .stackUnderflow else do
    let (v, st) ← xpop st
    match st.stack with
    | [] => .error (.panic "index out of range")
    | l :: below => do
      userOK v
      match listAppend st l [v] with
      | some (st, l') => pure { st with stack := l' :: below }
      | none => .error .other
  | .build => .error (.opcode 98 pos)
  | .global m n => .ok (push st (.cls m n))
  | .dict =>
    match splitAtMark st.stack with
    | none => .error .noMarker
    | some (above, below) =>
      if above.length % 2 ≠ 0 then .error .other
      else match assignAll (dictKind mc.cfg) [] above.reverse with
        | some es =>
          let (st, r) := allocObj st { kind := dictKind mc.cfg, kvs := es }
          .ok { st with stack := r :: below }
        | none => .error .other
  | .emptyDict =>
    let (st, r) := allocObj st { kind := dictKind mc.cfg }
    .ok (push st r)
  | .appends =>
    match splitAtMark st.stack with
    | none => .error .noMarker
    | some (above, below) =>
      match below with
      | [] => .error .stackUnderflow
      | l :: below' =>
        match listAppend st l above.reverse with
        | some (st, l') => .ok { st with stack := l' :: below' }
        | none => .error .other
  | .get key =>
    match memoGet st key with
    | some v => .ok (push st v)
    | none => .error .other
  | .inst => .error (.opcode 105 pos)
  | .list =>
    match splitAtMark st.stack with
    | none => .error .noMarker
    | some (above, below) =>
      let (st, l) := mkList mc st above.reverse
      .ok { st with stack := l :: below }
  | .emptyList =>
    let (st, l) := mkList mc st []
    .ok (push st l)
  | .obj => .error (.opcode 111 pos)
  | .put key =>
    match st.stack with
    | [] => .error .stackUnderflow
    | v :: _ => do userOK v; pure (memoPut st key v)
  | .setitem =>
    if st.stack.length < 3 then .error .stackUnderflow else do
    let (v, st) ← xpop st
    let (k, st) ← xpop st
    userOK k
    userOK v
    match st.stack with
    | [] => .error (.panic "index out of range")
    | .href id :: _ =>
      match st.heap[id]? with
      | some o =>
        if o.kind == .list then .error .other
        else match tryAssign o.kind o.kvs k v with
          | some es => pure (heapSet st id { o with kvs := es })
          | none => .error .other
      | none => .error .other
    | _ :: _ => .error .other
  | .tuple =>
    match splitAtMark st.stack with
    | none => .error .noMarker
    | some (above, below) => .ok { st with stack := .tuple above.reverse :: below }
  | .tupleN n =>
    if st.stack.length < n then .error .stackUnderflow else do
    let items := st.stack.take n
    userOKAll items.reverse
    pure { st with stack := .tuple items.reverse :: st.stack.drop n }
  | .emptyTuple => .ok (push st (.tuple []))
  | .setitems =>
    match splitAtMark st.stack with
    | none => .error .noMarker
    | some (above, below) =>
      match below with
      | [] => .error .stackUnderflow
      | l :: below' =>
        if above.length % 2 ≠ 0 then .error .other
        else match l with
          | .href id =>
            match st.heap[id]? with
            | some o =>
              if o.kind == .list then .error .other
              else match assignAll o.kind o.kvs above.reverse with
                | some es => .ok { heapSet st id { o with kvs := es } with stack := l :: below' }
                | none => .error .other
            | none => .error .other
          | _ => .error .other
  | .frame => .ok st
  | .stackGlobal =>
    if st.stack.length < 2 then .error .stackUnderflow else do
    let (xname, st) ← xpop st
    let (xmodule, st) ← xpop st
    match xname, xmodule with
    | .str n, .str m => pure (push st (.cls m n))
    | _, _ => .error .other
  | .memoize =>
    match st.stack with
    | [] => .error .stackUnderflow
    | v :: _ => do userOK v; pure (memoPut st (memoKey st.memo.length) v)
  | .nextBuffer => .error .other
  | .readonlyBuffer => .error .other
  | .proto v => if v ≤ 5 then .ok { st with proto := v } else .error .invalidVersion
  | .unknown k => .error (.opcode k pos)

/-- The main loop of `Decode`.  `fuel` bounds the number of instructions; with
    `fuel = length of the input + 1` it is never exhausted (theorem `C04_progress`). -/
def decodeLoop (mc : MCfg) (hook : Hook) :
    Nat → Nat → DState → Bytes → (M GoVal) × DState × Bytes
  | 0, _, st, inp => (.error (.panic "decode: out of fuel"), st, inp)
  | fuel + 1, insn, st, inp =>
    match readByte inp with
    | .error _ =>
      -- err == io.EOF && insn != 0  →  io.ErrUnexpectedEOF
      (.error (if insn = 0 then .eof else .unexpectedEOF), st, inp)
    | .ok (key, r) =>
      match parseArg key r with
      | .error e =>
        -- EOF from an individual opcode decoder is an unexpected end of stream
        (.error (if e = .eof then .unexpectedEOF else e), st, r)
      | .ok (.stop, rest) =>
        match popUser st with
        | .ok (v, st') => (.ok v, st', rest)
        | .error e => (.error e, st, rest)
      | .ok (i, rest) =>
        match exec mc hook i (insn + 1) st with
        | .ok st' => decodeLoop mc hook fuel (insn + 1) st' rest
        | .error e => (.error e, st, rest)

/-- One `Decode` call: reset stack and protocol (F5), then run to STOP. -/
def decode (mc : MCfg) (hook : Hook) (st : DState) (inp : Bytes) : (M GoVal) × DState × Bytes :=
  decodeLoop mc hook (inp.length + 1) 0 { st with stack := [], proto := 0 } inp

def goCfg (c : Cfg) : MCfg := { cfg := c, listRef := false }
def refCfg (c : Cfg) : MCfg := { cfg := c, listRef := true }

end Ogorek
