import Ogorek.CPickle

/-!
  Python 2's protocol-0 text: `pickle.py` replaces backslash and LF by `\u005c` / `\u000a` and encodes with the
  `raw-unicode-escape` codec (characters below U+0100 as single bytes, `\uXXXX`, `\UXXXXXXXX` above); `cPickle`'s
  `modified_EncodeRawUnicodeEscape` writes the same bytes.  CR, NUL and 0x1a travel as raw bytes (CPython 3.8+ escapes those too:
  `cpRue`).  `none`: not valid UTF-8.
-/
namespace Ogorek

def py2RueAux : Nat → Bytes → Option Bytes
  | 0, _ => some []
  | fuel + 1, s =>
    match decodeRune s with
    | (_, 0) => some []
    | (r, w) =>
      if r = runeError && w = 1 then none
      else
        let piece : Bytes :=
          if r = 92 || r = 10 then [92, 117, 48, 48, hexLower (r / 16), hexLower r]
          else if r ≥ 0x10000 then
            [92, 85] ++ (List.range 8).map fun i => hexLower (r / 16 ^ (7 - i))
          else if r ≥ 0x100 then
            [92, 117] ++ (List.range 4).map fun i => hexLower (r / 16 ^ (3 - i))
          else [UInt8.ofNat r]
        (piece ++ ·) <$> py2RueAux fuel (s.drop w)

def py2Rue (s : Bytes) : Option Bytes := py2RueAux s.length s

end Ogorek
