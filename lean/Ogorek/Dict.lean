import Ogorek.Value

/-!
  `dict.go`: Python-like equality `equal`, the hash that must agree with it, the
  abstract table standing for `gomap.Map`, and `Dict`'s operations on it.
  Also the key semantics of the builtin `map[any]any` (Go `==` on interface values).

  `equal` is modelled on the domain that can reach it through `Dict`: hashable keys
  (the query is hashed before any comparison, stored keys were hashed on insertion).
-/
namespace Ogorek

/-! ### `equal`: the numeric matrix (after the F4 repair) -/

def bint (b : Bool) : Int := if b then 1 else 0

def eqIntInt (a b : Int) : Bool := a == b
def eqIntUint (a : Int) (b : Nat) : Bool := decide (a ≥ 0) && a.toNat == b
/-- `b == math.Trunc(b) && -0x1p63 <= b && b < 0x1p63 && a == int64(b)`. -/
def eqIntFloat (a : Int) (b : F64) : Bool :=
  b.isInteger && decide (minInt64 ≤ b.toInt) && decide (b.toInt ≤ maxInt64) && a == b.toInt
/-- `b == math.Trunc(b) && 0 <= b && b < 0x1p64 && a == uint64(b)`. -/
def eqUintFloat (a : Nat) (b : F64) : Bool :=
  b.isInteger && decide (0 ≤ b.toInt) && decide (b.toInt < 2 ^ 64) && (a : Int) == b.toInt
def eqIntComplex (a : Int) (re im : F64) : Bool := F64.eq im 0 && eqIntFloat a re
def eqUintComplex (a : Nat) (re im : F64) : Bool := F64.eq im 0 && eqUintFloat a re
/-- `b.IsInt64() && a == b.Int64()`. -/
def eqIntBig (a : Int) (b : Int) : Bool := inInt64 b && a == b
/-- `b.IsUint64() && a == b.Uint64()`. -/
def eqUintBig (a : Nat) (b : Int) : Bool := decide (0 ≤ b) && decide (b < 2 ^ 64) && (a : Int) == b
def eqUintUint (a b : Nat) : Bool := a == b
def eqFloatFloat (a b : F64) : Bool := F64.eq a b
/-- `complex(a, 0) == b`. -/
def eqFloatComplex (a re im : F64) : Bool := F64.eq a re && F64.eq 0 im
/-- `bf, acc := b.Float64(); acc == Exact && a == bf`  (`ofIntExact?` models `big.Int.Float64`
    reporting `Exact`: the float equal to `b`, if one exists). -/
def eqFloatBig (a : F64) (b : Int) : Bool :=
  match F64.ofIntExact? b with
  | some bf => F64.eq a bf
  | none => false
def eqComplexComplex (ar ai br bi : F64) : Bool := F64.eq ar br && F64.eq ai bi
def eqComplexBig (re im : F64) (b : Int) : Bool := F64.eq im 0 && eqFloatBig re b
def eqBigBig (a b : Int) : Bool := a == b

/-- Numeric kinds of `kindOf`, in its order (bool < int < uint < float < complex < bigint). -/
inductive Num where
  | bool (b : Bool) | int (i : Int) | uint (u : Nat) | float (f : F64)
  | complex (re im : F64) | big (i : Int)

def numOf? : GoVal → Option Num
  | .bool b => some (.bool b)
  | .int i => some (.int i)
  | .uint u => some (.uint u)
  | .float f => some (.float f)
  | .complex re im => some (.complex re im)
  | .big _ i => some (.big i)
  | _ => none

/-- The upper triangle of the matrix as `equal` dispatches it (after ordering by kind). -/
def numEq : Num → Num → Bool
  | .bool a, .bool b => eqIntInt (bint a) (bint b)
  | .bool a, .int b => eqIntInt (bint a) b
  | .bool a, .uint b => eqIntUint (bint a) b
  | .bool a, .float b => eqIntFloat (bint a) b
  | .bool a, .complex re im => eqIntComplex (bint a) re im
  | .bool a, .big b => eqIntBig (bint a) b
  | .int a, .int b => eqIntInt a b
  | .int a, .uint b => eqIntUint a b
  | .int a, .float b => eqIntFloat a b
  | .int a, .complex re im => eqIntComplex a re im
  | .int a, .big b => eqIntBig a b
  | .uint a, .uint b => eqUintUint a b
  | .uint a, .float b => eqUintFloat a b
  | .uint a, .complex re im => eqUintComplex a re im
  | .uint a, .big b => eqUintBig a b
  | .float a, .float b => eqFloatFloat a b
  | .float a, .complex re im => eqFloatComplex a re im
  | .float a, .big b => eqFloatBig a b
  | .complex ar ai, .complex br bi => eqComplexComplex ar ai br bi
  | .complex re im, .big b => eqComplexBig re im b
  | .big a, .big b => eqBigBig a b
  -- lower triangle: `equal` swaps the arguments so that kind(a) ≤ kind(b)
  | .int a, .bool b => eqIntInt (bint b) a
  | .uint a, .bool b => eqIntUint (bint b) a
  | .uint a, .int b => eqIntUint b a
  | .float a, .bool b => eqIntFloat (bint b) a
  | .float a, .int b => eqIntFloat b a
  | .float a, .uint b => eqUintFloat b a
  | .complex re im, .bool b => eqIntComplex (bint b) re im
  | .complex re im, .int b => eqIntComplex b re im
  | .complex re im, .uint b => eqUintComplex b re im
  | .complex re im, .float b => eqFloatComplex b re im
  | .big a, .bool b => eqIntBig (bint b) a
  | .big a, .int b => eqIntBig b a
  | .big a, .uint b => eqUintBig b a
  | .big a, .float b => eqFloatBig b a
  | .big a, .complex re im => eqComplexBig re im a

/-- The three string types (`equal`'s first switch). 0 = string, 1 = ByteString, 2 = Bytes. -/
def strKind? : GoVal → Option (Nat × Bytes)
  | .str s => some (0, s)
  | .bytestr s => some (1, s)
  | .bytes s => some (2, s)
  | _ => none

/-- string ≠ Bytes; ByteString equals both. -/
def strEq (ka : Nat) (a : Bytes) (kb : Nat) (b : Bytes) : Bool :=
  (ka == kb || ka == 1 || kb == 1) && a == b

mutual
/-- `equal(xa, xb)`. -/
def goEqual : GoVal → GoVal → Bool
  | .tuple xs, b => match b with
    | .tuple ys => goEqualList xs ys
    | .list ys => goEqualList xs ys          -- both kSlice: compared element-wise
    | _ => false
  | .list xs, b => match b with
    | .tuple ys => goEqualList xs ys
    | .list ys => goEqualList xs ys
    | _ => false
  | .call m n args, b => match b with        -- eq_Struct_Struct on Call{Callable, Args}
    | .call m' n' args' => m == m' && n == n' && goEqualList args args'
    | _ => false
  | .ref p, b => match b with                -- eq_Struct_Struct on Ref{Pid}
    | .ref q => goEqual p q
    | _ => false
  | a, b =>
    match strKind? a, strKind? b with
    | some (ka, x), some (kb, y) => strEq ka x kb y
    | some _, none => false
    | none, some _ => false
    | none, none =>
      match numOf? a, numOf? b with
      | some x, some y => numEq x y
      | some _, none => false
      | none, some _ => false
      | none, none =>
        match a, b with
        | .none, .none => true
        | .mark, .mark => true
        | .cls m n, .cls m' n' => m == m' && n == n'
        | .user x, .user y => x == y           -- harness application object: struct{N int}
        | .bytearray x, .bytearray y => x == y
        | .href x, .href y => x == y           -- not reachable from Dict (unhashable)
        | _, _ => false
def goEqualList : List GoVal → List GoVal → Bool
  | [], [] => true
  | x :: xs, y :: ys => goEqual x y && goEqualList xs ys
  | _, _ => false
end

/-! ### `hash` -/

/-- What is fed to maphash: a leaf byte string, or a tag followed by the 8-byte hashes of
    the children.  For every hash function the hash of a key is a function of this tree. -/
inductive HTree where
  | leaf (bs : Bytes)
  | node (tag : Bytes) (kids : List HTree)
  deriving Inhabited

def be8 (n : Nat) : Bytes := natBE 8 n
def hashInt (i : Int) : HTree := .leaf (be8 (ofSigned 64 i))
def hashUint (u : Nat) : HTree := .leaf (be8 u)

/-- The bytes `hash_Float` writes (after F4: integral floats in uint64 range hash as uint). -/
def hashFloatBytes (f : F64) : Bytes :=
  if f.isInteger && decide (minInt64 ≤ f.toInt) && decide (f.toInt ≤ maxInt64) then be8 (ofSigned 64 f.toInt)
  else if f.isInteger && decide ((2 : Int) ^ 63 ≤ f.toInt) && decide (f.toInt < 2 ^ 64) then be8 f.toInt.toNat
  else be8 f.toNat

/-- `b.Bytes()`: big-endian magnitude without leading zeros. -/
def natBytesBE (n : Nat) : Bytes :=
  if h : n = 0 then [] else natBytesBE (n / 256) ++ [UInt8.ofNat (n % 256)]
decreasing_by omega

def hashBig (b : Int) : HTree :=
  if inInt64 b then hashInt b
  else if decide (0 ≤ b) && decide (b < 2 ^ 64) then hashUint b.toNat
  else match F64.ofIntExact? b with
    | some f => .leaf (hashFloatBytes f)
    | none => .leaf (sb "bigInt" ++ natBytesBE b.natAbs)

mutual
/-- `hash(seed, x)` up to the hash function; `none` = panic "unhashable type: …". -/
def hashTree : GoVal → Option HTree
  | .str s => some (.leaf s)
  | .bytestr s => some (.leaf s)
  | .bytes s => some (.leaf s)
  | .bool b => some (hashInt (bint b))
  | .int i => some (hashInt i)
  | .uint u => some (hashUint u)
  | .float f => some (.leaf (hashFloatBytes f))
  | .complex re im =>
    some (.leaf (hashFloatBytes re ++ (if F64.eq im 0 then [] else hashFloatBytes im)))
  | .big _ b => some (hashBig b)
  | .tuple xs => (hashTreeList xs).map (.node (sb "tuple"))
  | .none => some (.node (sb "None") [])
  | .mark => some (.node (sb "mark") [])
  | .cls m n => some (.node (sb "Class") [.leaf m, .leaf n])
  | .call m n args =>
    (hashTreeList args).map fun ks =>
      .node (sb "Call") [.node (sb "Class") [.leaf m, .leaf n], .node (sb "tuple") ks]
  | .ref p => (hashTree p).map fun t => .node (sb "Ref") [t]
  | .user n => some (.node (sb "UserObj") [hashInt n])
  | .list _ | .bytearray _ | .map _ | .dict _ | .href _ | .cycle | .nil => none
def hashTreeList : List GoVal → Option (List HTree)
  | [] => some []
  | x :: xs =>
    match hashTree x, hashTreeList xs with
    | some t, some ts => some (t :: ts)
    | _, _ => none
end

def hashable (v : GoVal) : Bool := (hashTree v).isSome

mutual
def HTree.beq : HTree → HTree → Bool
  | .leaf a, .leaf b => a == b
  | .node t ks, .node t' ks' => t == t' && HTree.beqList ks ks'
  | _, _ => false
def HTree.beqList : List HTree → List HTree → Bool
  | [], [] => true
  | a :: as, b :: bs => HTree.beq a b && HTree.beqList as bs
  | _, _ => false
end

/-- The hash for a concrete hash function `H` (maphash with some seed). -/
def HTree.eval (H : Bytes → UInt64) : HTree → UInt64
  | .leaf bs => H bs
  | .node tag kids => H (tag ++ (kids.attach.map fun ⟨k, _⟩ => be8 (HTree.eval H k).toNat).flatten)

/-! ### the abstract table standing for `gomap.Map` and `Dict` on top of it -/

abbrev Entries := List (GoVal × GoVal)

/-- Entries whose key equals the query. -/
def matching (es : Entries) (q : GoVal) : Entries := es.filter fun e => goEqual q e.1

/-- `gomap.Map.Delete`: removes one entry equal to the key (which one is `pick`'s choice). -/
def tableDelete (pick : Entries → Nat) (es : Entries) (q : GoVal) : Entries :=
  let ms := (List.range es.length).filter fun i => match es[i]? with
    | some e => goEqual q e.1
    | none => false
  match ms[pick es % (if ms.length = 0 then 1 else ms.length)]? with
  | some i => es.eraseIdx i
  | none => es

/-- `gomap.Map.Get`: some entry equal to the key. -/
def tableGet (pick : Entries → Nat) (es : Entries) (q : GoVal) : Option GoVal :=
  let ms := matching es q
  (ms[pick es % (if ms.length = 0 then 1 else ms.length)]?).map (·.2)

/-- `Dict.Del`: loop `Delete; if !have break` (fuel = number of entries). -/
def dictDelLoop (pick : Entries → Nat) : Nat → Entries → GoVal → Entries
  | 0, es, _ => es
  | fuel + 1, es, q =>
    let es' := tableDelete pick es q
    if (matching es' q).isEmpty then es' else dictDelLoop pick fuel es' q

def dictDel (pick : Entries → Nat) (es : Entries) (q : GoVal) : Entries :=
  dictDelLoop pick (es.length + 1) es q

/-- `gomap.Map.Set` once no equal key is left: a new entry. -/
def dictSet (pick : Entries → Nat) (es : Entries) (k v : GoVal) : Entries :=
  dictDel pick es k ++ [(k, v)]

/-- The pick-independent description of `Dict.Set` used by the decoder model:
    drop every entry equal to the key, add the new one. -/
def dictSetSpec (es : Entries) (k v : GoVal) : Entries :=
  (es.filter fun e => !goEqual k e.1) ++ [(k, v)]

/-! ### the exported API: the key is hashed before the table is touched -/

/-- Outcome of `Dict.Get_` / `Set` / `Del`: new contents and result, or the panic raised by `hash`. -/
inductive ApiRes where
  | done (es : Entries) (ret : Option GoVal)
  | panic (msg : String)

def unhashableMsg : String := "unhashable type: "

/-- `Dict.Get_` (after F7 also on an empty Dict). -/
def apiGet (pick : Entries → Nat) (es : Entries) (k : GoVal) : ApiRes :=
  if hashable k then .done es (tableGet pick es k) else .panic unhashableMsg

/-- `Dict.Set`: `Del` (which hashes the key first) then `gomap.Set`. -/
def apiSet (pick : Entries → Nat) (es : Entries) (k v : GoVal) : ApiRes :=
  if hashable k then .done (dictSet pick es k v) none else .panic unhashableMsg

/-- `Dict.Del`. -/
def apiDel (pick : Entries → Nat) (es : Entries) (k : GoVal) : ApiRes :=
  if hashable k then .done (dictDel pick es k) none else .panic unhashableMsg

/-! ### builtin `map[any]any`: Go `==` on interface values -/

mutual
/-- Can the runtime hash this dynamic value (otherwise `m[k] = v` panics)? -/
def goMapHashable : GoVal → Bool
  | .none | .mark | .bool _ | .int _ | .uint _ | .big _ _ | .float _ | .complex _ _ => true
  | .str _ | .bytestr _ | .bytes _ | .cls _ _ | .user _ => true
  | .ref p => goMapHashable p
  | .call _ _ _ => false            -- struct with a slice field
  | .list _ | .tuple _ | .bytearray _ | .map _ | .dict _ | .href _ | .cycle | .nil => false
end

/-- Go `==` between two hashable interface values (same dynamic type and equal value). -/
def goKeyEq : GoVal → GoVal → Bool
  | .ref p, b => match b with
    | .ref q => goKeyEq p q
    | _ => false
  | .none, .none => true
  | .mark, .mark => true
  | .bool a, .bool b => a == b
  | .int a, .int b => a == b
  | .uint a, .uint b => a == b
  | .big ida _, .big idb _ => ida == idb                 -- pointer identity
  | .float a, .float b => F64.eq a b                      -- NaN ≠ NaN, +0 == -0
  | .complex ar ai, .complex br bi => F64.eq ar br && F64.eq ai bi
  | .str a, .str b => a == b
  | .bytestr a, .bytestr b => a == b
  | .bytes a, .bytes b => a == b
  | .cls m n, .cls m' n' => m == m' && n == n'
  | .user a, .user b => a == b
  | _, _ => false

/-- `m[k] = v` on a builtin map: an equal key is replaced (interface keys are updated), else added. -/
def mapSet (es : Entries) (k v : GoVal) : Entries :=
  (es.filter fun e => !goKeyEq k e.1) ++ [(k, v)]

end Ogorek
