import Ogorek.Decoder

/-!
  An opcode table transcribed from CPython's `pickletools` — independent of og-rek's source
  (it is diffed against `pickletools.opcodes` of the installed CPython on every run) — and a
  scanner that checks an opcode stream against it: argument layout, introducing protocol,
  stack discipline, single final STOP (C12).
-/
namespace Ogorek

/-- Argument layouts. -/
inductive ArgKind where
  | none
  | u1 | u2 | i4 | u4 | u8
  | f8
  | line | line2
  | counted1 | counted4 | counted8
  deriving DecidableEq, Repr, Inhabited

/-- Effect on the abstract stack of objects and marks. -/
inductive Eff where
  | push                 -- pushes one object
  | pushMark
  | pop                  -- pops one entry (object or mark)
  | popMark              -- pops through the topmost mark
  | dup
  | unary                -- pops one object, pushes one (BINPERSID, BUILD-like)
  | binary               -- pops two objects, pushes one (REDUCE, STACK_GLOBAL, NEWOBJ)
  | ternary              -- pops three objects, pushes one (NEWOBJ_EX)
  | tupleN (n : Nat)     -- pops n objects, pushes one
  | collect              -- pops objects through the topmost mark, pushes one (LIST, TUPLE, DICT, FROZENSET, INST, OBJ)
  | appendTo             -- pops one object; an object must remain below (APPEND)
  | setitemTo            -- pops two objects; an object must remain below (SETITEM)
  | build                -- pops one object; an object must remain below (BUILD)
  | extendTo             -- pops objects through the topmost mark; an object must remain below (APPENDS, SETITEMS, ADDITEMS)
  | peek                 -- needs one object on top, changes nothing (PUT family, MEMOIZE, READONLY_BUFFER)
  | nop                  -- PROTO, FRAME
  | stop
  deriving DecidableEq, Repr, Inhabited

structure OpInfo where
  code : UInt8
  name : String
  proto : Nat
  arg : ArgKind
  eff : Eff
  deriving Repr, Inhabited

/-- The 68 opcodes of protocols 0–5. -/
def opTable : List OpInfo := [
  ⟨73, "INT", 0, .line, .push⟩, ⟨74, "BININT", 1, .i4, .push⟩, ⟨75, "BININT1", 1, .u1, .push⟩, ⟨77, "BININT2", 1, .u2, .push⟩,
  ⟨76, "LONG", 0, .line, .push⟩, ⟨0x8a, "LONG1", 2, .counted1, .push⟩, ⟨0x8b, "LONG4", 2, .counted4, .push⟩,
  ⟨83, "STRING", 0, .line, .push⟩, ⟨84, "BINSTRING", 1, .counted4, .push⟩, ⟨85, "SHORT_BINSTRING", 1, .counted1, .push⟩,
  ⟨66, "BINBYTES", 3, .counted4, .push⟩, ⟨67, "SHORT_BINBYTES", 3, .counted1, .push⟩, ⟨0x8e, "BINBYTES8", 4, .counted8, .push⟩,
  ⟨0x96, "BYTEARRAY8", 5, .counted8, .push⟩, ⟨0x97, "NEXT_BUFFER", 5, .none, .push⟩, ⟨0x98, "READONLY_BUFFER", 5, .none, .peek⟩,
  ⟨78, "NONE", 0, .none, .push⟩, ⟨0x88, "NEWTRUE", 2, .none, .push⟩, ⟨0x89, "NEWFALSE", 2, .none, .push⟩,
  ⟨86, "UNICODE", 0, .line, .push⟩, ⟨0x8c, "SHORT_BINUNICODE", 4, .counted1, .push⟩, ⟨88, "BINUNICODE", 1, .counted4, .push⟩,
  ⟨0x8d, "BINUNICODE8", 4, .counted8, .push⟩,
  ⟨70, "FLOAT", 0, .line, .push⟩, ⟨71, "BINFLOAT", 1, .f8, .push⟩,
  ⟨93, "EMPTY_LIST", 1, .none, .push⟩, ⟨97, "APPEND", 0, .none, .appendTo⟩, ⟨101, "APPENDS", 1, .none, .extendTo⟩, ⟨108, "LIST", 0, .none, .collect⟩,
  ⟨41, "EMPTY_TUPLE", 1, .none, .push⟩, ⟨116, "TUPLE", 0, .none, .collect⟩, ⟨0x85, "TUPLE1", 2, .none, .tupleN 1⟩,
  ⟨0x86, "TUPLE2", 2, .none, .tupleN 2⟩, ⟨0x87, "TUPLE3", 2, .none, .tupleN 3⟩,
  ⟨125, "EMPTY_DICT", 1, .none, .push⟩, ⟨100, "DICT", 0, .none, .collect⟩, ⟨115, "SETITEM", 0, .none, .setitemTo⟩, ⟨117, "SETITEMS", 1, .none, .extendTo⟩,
  ⟨0x8f, "EMPTY_SET", 4, .none, .push⟩, ⟨0x90, "ADDITEMS", 4, .none, .extendTo⟩, ⟨0x91, "FROZENSET", 4, .none, .collect⟩,
  ⟨48, "POP", 0, .none, .pop⟩, ⟨50, "DUP", 0, .none, .dup⟩, ⟨40, "MARK", 0, .none, .pushMark⟩, ⟨49, "POP_MARK", 1, .none, .popMark⟩,
  ⟨103, "GET", 0, .line, .push⟩, ⟨104, "BINGET", 1, .u1, .push⟩, ⟨106, "LONG_BINGET", 1, .u4, .push⟩,
  ⟨112, "PUT", 0, .line, .peek⟩, ⟨113, "BINPUT", 1, .u1, .peek⟩, ⟨114, "LONG_BINPUT", 1, .u4, .peek⟩, ⟨0x94, "MEMOIZE", 4, .none, .peek⟩,
  ⟨0x82, "EXT1", 2, .u1, .push⟩, ⟨0x83, "EXT2", 2, .u2, .push⟩, ⟨0x84, "EXT4", 2, .i4, .push⟩,
  ⟨99, "GLOBAL", 0, .line2, .push⟩, ⟨0x93, "STACK_GLOBAL", 4, .none, .binary⟩,
  ⟨82, "REDUCE", 0, .none, .binary⟩, ⟨98, "BUILD", 0, .none, .build⟩, ⟨105, "INST", 0, .line2, .collect⟩, ⟨111, "OBJ", 1, .none, .collect⟩,
  ⟨0x81, "NEWOBJ", 2, .none, .binary⟩, ⟨0x92, "NEWOBJ_EX", 4, .none, .ternary⟩,
  ⟨0x80, "PROTO", 2, .u1, .nop⟩, ⟨46, "STOP", 0, .none, .stop⟩, ⟨0x95, "FRAME", 4, .u8, .nop⟩,
  ⟨80, "PERSID", 0, .line, .push⟩, ⟨81, "BINPERSID", 1, .none, .unary⟩]

def opLookup (k : UInt8) : Option OpInfo := opTable.find? (·.code == k)

/-- Skip the argument of an opcode. -/
def skipArg : ArgKind → Rd Unit
  | .none => Rd.pure ()
  | .u1 => readByte.map fun _ => ()
  | .u2 => (readFull 2).map fun _ => ()
  | .i4 | .u4 => (readFull 4).map fun _ => ()
  | .u8 | .f8 => (readFull 8).map fun _ => ()
  | .line => readLine.map fun _ => ()
  | .line2 => readLine.bind fun _ => readLine.map fun _ => ()
  | .counted1 => readCounted1.map fun _ => ()
  | .counted4 => (readCounted 4).map fun _ => ()
  | .counted8 => (readCounted 8).map fun _ => ()

/-- One opcode with its argument, per the table (`other` = not an opcode of protocols 0–5). -/
def scanOp : Rd (OpInfo × Nat) := fun inp =>
  match inp with
  | [] => .error .eof
  | k :: r =>
    match opLookup k with
    | none => .error .other
    | some info =>
      match skipArg info.arg r with
      | .ok (_, rest) => .ok ((info, match r with | v :: _ => v.toNat | [] => 0), rest)
      | .error e => .error e

/-- Abstract stack entry: `true` = an object, `false` = a mark. -/
abbrev AStack := List Bool

def popThroughMark : AStack → Option AStack
  | [] => none
  | true :: s => popThroughMark s
  | false :: s => some s

def topObjs (n : Nat) (s : AStack) : Bool := n ≤ s.length && (s.take n).all id

/-- Effect of an opcode on the abstract stack; `none` = stack discipline violated. -/
def applyEff (e : Eff) (s : AStack) : Option AStack :=
  match e with
  | .push => some (true :: s)
  | .pushMark => some (false :: s)
  | .pop => match s with | _ :: r => some r | [] => none
  | .popMark => popThroughMark s
  | .dup => match s with | x :: r => some (x :: x :: r) | [] => none
  | .unary => if topObjs 1 s then some s else none
  | .binary => if topObjs 2 s then some (true :: s.drop 2) else none
  | .ternary => if topObjs 3 s then some (true :: s.drop 3) else none
  | .tupleN n => if topObjs n s then some (true :: s.drop n) else none
  | .collect => (popThroughMark s).map (true :: ·)
  | .appendTo => if topObjs 2 s then some (s.drop 1) else none
  | .setitemTo => if topObjs 3 s then some (s.drop 2) else none
  | .build => if topObjs 2 s then some (s.drop 1) else none
  | .extendTo => match popThroughMark s with
    | some (true :: r) => some (true :: r)
    | _ => none
  | .peek => if topObjs 1 s then some s else none
  | .nop => some s
  | .stop => if s == [true] then some [] else none

/-- Verdict of a scan. -/
structure ScanOK where
  ops : List String          -- opcode names in order
  maxProto : Nat             -- highest introducing protocol among them
  firstProto : Option Nat    -- argument of a leading PROTO opcode
  protoCount : Nat           -- number of PROTO opcodes
  consumed : Nat

/-- Scan one pickle: opcodes per the table until STOP, stack discipline enforced, exactly one
    object when STOP is reached. Returns the verdict and the bytes after STOP. -/
def scanLoop : Nat → AStack → List String → Nat → Option Nat → Nat → Bytes → Except String (ScanOK × Bytes)
  | 0, _, _, _, _, _, _ => .error "out of fuel"
  | fuel + 1, s, names, maxp, firstp, pcount, inp =>
    match scanOp inp with
    | .error .eof => .error "truncated: no STOP"
    | .error .unexpectedEOF => .error "truncated argument"
    | .error _ => .error "not an opcode of protocols 0-5 / bad argument"
    | .ok ((info, arg), rest) =>
      match applyEff info.eff s with
      | none => .error s!"stack discipline violated at {info.name}"
      | some s' =>
        let names' := info.name :: names
        let maxp' := max maxp info.proto
        let isProto := info.code == 0x80
        let firstp' := if isProto && names.isEmpty then some arg else firstp
        let pcount' := if isProto then pcount + 1 else pcount
        if info.eff == .stop then
          .ok (⟨names'.reverse, maxp', firstp', pcount', 0⟩, rest)
        else scanLoop fuel s' names' maxp' firstp' pcount' rest

def scan (inp : Bytes) : Except String (ScanOK × Bytes) :=
  scanLoop (inp.length + 1) [] [] 0 none 0 inp

/-- The property's verdict for protocol `p`: one framed pickle, nothing after STOP, PROTO p first
    iff p ≥ 2 (and no other PROTO), only opcodes introduced in protocols ≤ p. -/
def conforms (p : Nat) (inp : Bytes) : Except String Unit :=
  match scan inp with
  | .error e => .error e
  | .ok (r, rest) =>
    if !rest.isEmpty then .error "bytes after STOP"
    else if p ≥ 2 && r.firstProto != some p then .error "output does not begin with PROTO p"
    else if p < 2 && r.protoCount != 0 then .error "PROTO opcode below protocol 2"
    else if r.protoCount > 1 then .error "more than one PROTO"
    else if r.maxProto > p then .error s!"opcode introduced in protocol {r.maxProto} used at protocol {p}"
    else .ok ()

end Ogorek
