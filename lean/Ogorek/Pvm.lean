import Ogorek.Decoder

/-!
  CPython's reference unpickler (`pickle._Unpickler`, the pure-Python one) with classes and
  persistent ids kept symbolic — the machine the properties C01, C02 and C06 compare og-rek with.

  * Values are Python values (`PyVal`); lists, dicts and bytearrays are mutable objects and live in
    a heap, everything else is immutable and is a plain value.
  * The stack is CPython's: a current segment plus a `metastack` of segments pushed by MARK.
  * A global is symbolic (`glob m n`); REDUCE on a symbolic global yields a symbolic call, except for the
    three callables CPython really executes for the documented types: `_codecs.encode`,
    `bytearray` and `bytes` (from `__builtin__` below protocol 3, `builtins` from 3 on).
  * dict keys follow Python equality (`pyEq`: numbers by exact value across bool / int / float, text,
    byte strings and py2 strings by kind and content, tuples / calls / persistent references
    element-wise); unhashable keys raise.

  The syntax layer is shared with the decoder model (`parseInsn`): opcode arguments are read with the
  same readers, and the text arguments of the protocol-0 opcodes (INT, LONG, FLOAT, STRING, UNICODE) are
  interpreted by the same functions, so only canonically formatted text arguments are modelled
  (everything the encoder writes is; the correspondence run compares this machine with the real
  CPython on the encoder's output and on canonical programs).  What the machine declines to
  interpret is an explicit outcome (`PErr.unmodelled`), never a guess.
-/
namespace Ogorek

inductive PyVal where
  | none
  | bool (b : Bool)
  | int (i : Int)
  | float (f : F64)
  | str (s : Bytes)                      -- unicode str, as its UTF-8 (surrogatepass) encoding
  | str2 (s : Bytes)                     -- Python-2 byte str (STRING / BINSTRING / SHORT_BINSTRING)
  | bytes (s : Bytes)
  | tuple (xs : List PyVal)
  | glob (m n : Bytes)                   -- a global, symbolic: module and name (UTF-8 of the two str)
  | call (f : PyVal) (args : List PyVal) -- result of REDUCE on a symbolic global
  | pers (pid : PyVal)                   -- persistent_load(pid), symbolic
  | obj (id : Nat)                       -- a mutable object: index into the heap
  -- resolved forms: used by specifications and by rendering, never on the machine's stack
  | list (xs : List PyVal)
  | dict (kvs : List (PyVal × PyVal))
  | bytearray (s : Bytes)
  | cycle
  deriving Inhabited

inductive PObj where
  | list (xs : List PyVal)
  | dict (kvs : List (PyVal × PyVal))
  | bytearray (s : Bytes)
  deriving Inhabited

inductive PErr where
  | exc          -- any Python exception
  | unmodelled   -- input the model declines to interpret
  | fuel
  deriving DecidableEq, Repr, Inhabited

structure PState where
  stack : List PyVal := []               -- current segment, head = top
  metas : List (List PyVal) := []        -- the metastack
  memo : List (Nat × PyVal) := []        -- newest binding first
  heap : List PObj := []
  proto : Nat := 0
  inFrame : Bool := false                -- inside a frame that extends to the end of the input (set by the load loop only)
  deriving Inhabited

abbrev PM := Except PErr

/-! ### Python equality and hashability of keys -/

def pyNum? : PyVal → Option Num
  | .bool b => some (.bool b)
  | .int i => some (.big i)
  | .float f => some (.float f)
  | _ => none

mutual
/-- `a == b` for values that can be dict keys (and identity for mutable objects). -/
def pyEq : PyVal → PyVal → Bool
  | .tuple xs, b => match b with
    | .tuple ys => pyEqList xs ys
    | _ => false
  | .call f xs, b => match b with
    | .call g ys => pyEq f g && pyEqList xs ys
    | _ => false
  | .pers p, b => match b with
    | .pers q => pyEq p q
    | _ => false
  | .str x, b => match b with
    | .str y => x == y
    | _ => false
  | .str2 x, b => match b with
    | .str2 y => x == y
    | _ => false
  | .bytes x, b => match b with
    | .bytes y => x == y
    | _ => false
  | .glob m n, b => match b with
    | .glob m' n' => m == m' && n == n'
    | _ => false
  | .none, b => match b with
    | .none => true
    | _ => false
  | .obj x, b => match b with
    | .obj y => x == y
    | _ => false
  | .bool x, b => match pyNum? b with
    | some y => numEq (.bool x) y
    | none => false
  | .int x, b => match pyNum? b with
    | some y => numEq (.big x) y
    | none => false
  | .float x, b => match pyNum? b with
    | some y => numEq (.float x) y
    | none => false
  | .list _, _ => false
  | .dict _, _ => false
  | .bytearray _, _ => false
  | .cycle, _ => false
def pyEqList : List PyVal → List PyVal → Bool
  | [], [] => true
  | x :: xs, y :: ys => pyEq x y && pyEqList xs ys
  | _, _ => false
end

mutual
/-- `hash(k)` does not raise. -/
def pyHashable : PyVal → Bool
  | .none => true
  | .bool _ => true
  | .int _ => true
  | .float _ => true
  | .str _ => true
  | .str2 _ => true
  | .bytes _ => true
  | .glob _ _ => true
  | .tuple xs => pyHashableList xs
  | .call f xs => pyHashable f && pyHashableList xs
  | .pers p => pyHashable p
  | _ => false
def pyHashableList : List PyVal → Bool
  | [] => true
  | x :: xs => pyHashable x && pyHashableList xs
end

mutual
/-- A NaN float somewhere in the key: CPython compares keys "identical or equal", and the identity of
    a float object is not part of this model. -/
def pyHasNaN : PyVal → Bool
  | .float f => F64.isNaN f
  | .tuple xs => pyHasNaNList xs
  | .call f xs => pyHasNaN f || pyHasNaNList xs
  | .pers p => pyHasNaN p
  | _ => false
def pyHasNaNList : List PyVal → Bool
  | [] => false
  | x :: xs => pyHasNaN x || pyHasNaNList xs
end

/-- `d[k] = v`: the entry whose key equals `k` keeps its key and gets the new value; otherwise a new entry. -/
def pyDictSet : List (PyVal × PyVal) → PyVal → PyVal → List (PyVal × PyVal)
  | [], k, v => [(k, v)]
  | (a, b) :: r, k, v => if pyEq a k then (a, v) :: r else (a, b) :: pyDictSet r k v

/-- One assignment, as the machine performs it. -/
def pyAssign (es : List (PyVal × PyVal)) (k v : PyVal) : PM (List (PyVal × PyVal)) :=
  if !pyHashable k then .error .exc
  else if pyHasNaN k && es.any (fun e => pyHasNaN e.1) then .error .unmodelled
  else .ok (pyDictSet es k v)

/-- `k1 v1 k2 v2 …` assigned one after another (`items[i]: items[i+1]`; an odd count is an IndexError
    raised when the last key is reached, after the earlier assignments). -/
def pyAssignAll : List (PyVal × PyVal) → List PyVal → PM (List (PyVal × PyVal))
  | es, k :: v :: rest =>
    match pyAssign es k v with
    | .ok es' => pyAssignAll es' rest
    | .error e => .error e
  | es, [] => .ok es
  | _, [_] => .error .exc

/-! ### text -/

def isSurrogateSeq : Bytes → Bool
  | b0 :: b1 :: b2 :: _ => b0 == 0xED && decide (0xA0 ≤ b1) && decide (b1 ≤ 0xBF) && isCont b2
  | _ => false

/-- `bytes.decode('utf-8', errors)` succeeds: strict, or with lone surrogates allowed (`surrogatepass`). -/
def pyUtf8ValidAux (sp : Bool) : Nat → Bytes → Bool
  | 0, s => s.isEmpty
  | fuel + 1, s =>
    match decodeRune s with
    | (_, 0) => true
    | (r, w) =>
      if r == runeError && w == 1 then sp && isSurrogateSeq s && pyUtf8ValidAux sp fuel (s.drop 3)
      else pyUtf8ValidAux sp fuel (s.drop w)

def pyUtf8Valid (sp : Bool) (s : Bytes) : Bool := pyUtf8ValidAux sp s.length s

def isAscii (s : Bytes) : Bool := s.all (· < 0x80)

/-- The code points of a str given as valid UTF-8 (surrogatepass), all below 256: its latin-1 encoding. -/
def pyLatin1Encode (s : Bytes) : Option Bytes :=
  let rs := runes s
  if rs.all (fun (r, w) => r < 0x100 && !(r == runeError && w == 1)) then some (rs.map fun (r, _) => UInt8.ofNat r) else none

/-- `_text(x)`: a str, or a py2 str read as latin-1 — here only when it is ASCII (the general case is not needed
    for encoding names). -/
def pyTextOf : PyVal → Option Bytes
  | .str s => some s
  | .str2 s => if isAscii s then some s else none
  | _ => none

def isLatin1Name (s : Bytes) : Bool := s == sb "latin1" || s == sb "latin-1"

/-! ### the machine -/

def ppush (st : PState) (v : PyVal) : PState := { st with stack := v :: st.stack }

def palloc (st : PState) (o : PObj) : PState × PyVal :=
  ({ st with heap := st.heap ++ [o] }, .obj st.heap.length)

def pmemoPut (st : PState) (key : Nat) (v : PyVal) : PState :=
  { st with memo := (key, v) :: st.memo.filter (·.1 != key) }

/-- `pop_mark()`: the current segment (bottom first) and the state with the previous segment restored. -/
def popMark (st : PState) : PM (List PyVal × PState) :=
  match st.metas with
  | [] => .error .exc
  | s :: ms => .ok (st.stack.reverse, { st with stack := s, metas := ms })

def pyExecModule (proto : Nat) : Bytes := if proto < 3 then sb "__builtin__" else sb "builtins"

/-- The arguments of a call as a list: `func(*args)` accepts any iterable; tuples and lists are modelled. -/
def pyArgs (st : PState) : PyVal → PM (List PyVal)
  | .tuple xs => .ok xs
  | .obj id => match st.heap[id]? with
    | some (.list xs) => .ok xs
    | _ => .error .unmodelled
  | .none => .error .exc
  | .bool _ => .error .exc
  | .int _ => .error .exc
  | .float _ => .error .exc
  | _ => .error .unmodelled

/-- `codecs.encode(text, encoding)` for the encodings the documented forms use. -/
def pyCodecsEncode (args : List PyVal) : PM PyVal :=
  match args with
  | [.str s, e] =>
    match pyTextOf e with
    | some enc =>
      if isLatin1Name enc then
        match pyLatin1Encode s with
        | some d => .ok (.bytes d)
        | none => .error .exc
      else .error .unmodelled
    | none => .error .unmodelled
  | _ => .error .unmodelled

/-- The content `bytearray(*args)` gets. -/
def pyBytearrayOf (args : List PyVal) : PM Bytes :=
  match args with
  | [] => .ok []
  | [.bytes d] => .ok d
  | [.str2 d] => .ok d
  | [.str s, e] =>
    match pyTextOf e with
    | some enc =>
      if isLatin1Name enc then
        match pyLatin1Encode s with
        | some d => .ok d
        | none => .error .exc
      else .error .unmodelled
    | none => .error .unmodelled
  | _ => .error .unmodelled

/-- Calling a global: the three callables that are really executed, everything else stays symbolic. -/
def pyCallGlob (st : PState) (m n : Bytes) (args : List PyVal) : PM (PState × PyVal) :=
  if m == sb "_codecs" && n == sb "encode" then
    match pyCodecsEncode args with
    | .ok v => .ok (st, v)
    | .error e => .error e
  else if m == pyExecModule st.proto && n == sb "bytes" then
    .ok (st, if args.isEmpty then .bytes [] else .call (.glob m n) args)
  else if m == pyExecModule st.proto && n == sb "bytearray" then
    match pyBytearrayOf args with
    | .ok d => .ok (palloc st (.bytearray d))
    | .error e => .error e
  else .ok (st, .call (.glob m n) args)

/-- `func(*args)`. -/
def pyCall (st : PState) (func : PyVal) (args : List PyVal) : PM (PState × PyVal) :=
  match func with
  | .glob m n => pyCallGlob st m n args
  | _ => .error .exc     -- not callable

/-- A unicode payload (`str(data, 'utf-8', 'surrogatepass')`). -/
def pyStr (s : Bytes) : PM PyVal := if pyUtf8Valid true s then .ok (.str s) else .error .exc

/-- Opcodes of CPython that the shared syntax layer does not parse (their arguments would be misread). -/
def pyOnlyOpcode (k : UInt8) : Bool :=
  k == 0x81 || k == 0x82 || k == 0x83 || k == 0x84 || k == 0x8b || k == 0x8d || k == 0x8e || k == 0x8f ||
  k == 0x90 || k == 0x91 || k == 0x92

def pexec (i : Insn) (st : PState) : PM PState :=
  match i with
  | .mark => .ok { st with stack := [], metas := st.stack :: st.metas }
  | .stop => .ok st
  | .pop =>
    match st.stack with
    | _ :: s => .ok { st with stack := s }
    | [] => do let (_, st) ← popMark st; pure st
  | .popMark => do let (_, st) ← popMark st; pure st
  | .dup =>
    match st.stack with
    | v :: _ => .ok (ppush st v)
    | [] => .error .exc
  | .pushFloat f => .ok (ppush st (.float f))
  | .pushBool b => .ok (ppush st (.bool b))
  | .pushInt i => .ok (ppush st (.int i))
  | .pushBig i => .ok (ppush st (.int i))
  | .pushNone => .ok (ppush st .none)
  | .persid s => if isAscii s then .ok (ppush st (.pers (.str s))) else .error .exc
  | .binpersid =>
    match st.stack with
    | pid :: s => .ok { st with stack := .pers pid :: s }
    | [] => .error .exc
  | .reduce =>
    match st.stack with
    | args :: func :: s => do
      let argv ← pyArgs st args
      let (st, r) ← pyCall st func argv
      pure { st with stack := r :: s }
    | _ => .error .exc
  | .pushByteString s => .ok (ppush st (.str2 s))
  | .pushStr s => do let v ← pyStr s; pure (ppush st v)
  | .pushBytes s => .ok (ppush st (.bytes s))
  | .pushBytearray s => let (st, r) := palloc st (.bytearray s); .ok (ppush st r)
  | .append =>
    match st.stack with
    | v :: .obj id :: s =>
      match st.heap[id]? with
      | some (.list xs) => .ok { st with stack := .obj id :: s, heap := st.heap.set id (.list (xs ++ [v])) }
      | some (.dict _) => .error .exc
      | _ => .error .unmodelled
    | [_] => .error .exc
    | [] => .error .exc
    | _ :: _ :: _ => .error .exc        -- no `append` attribute
  | .build => .error .unmodelled
  | .global m n =>
    if pyUtf8Valid false m && pyUtf8Valid false n then .ok (ppush st (.glob m n)) else .error .exc
  | .dict => do
    let (items, st) ← popMark st
    let es ← pyAssignAll [] items
    let (st, r) := palloc st (.dict es)
    pure (ppush st r)
  | .emptyDict => let (st, r) := palloc st (.dict []); .ok (ppush st r)
  | .appends => do
    let (items, st) ← popMark st
    match st.stack with
    | .obj id :: _ =>
      match st.heap[id]? with
      | some (.list xs) => pure { st with heap := st.heap.set id (.list (xs ++ items)) }
      | some (.dict _) => if items.isEmpty then .error .unmodelled else .error .exc
      | _ => .error .unmodelled
    | [] => .error .exc
    | _ :: _ => .error .unmodelled
  | .get key =>
    if key.length > 4300 then .error .exc else        -- int(): more digits than sys.int_info.default_max_str_digits
    match parseDigits? key with
    | some n =>
      match st.memo.lookup n with
      | some v => .ok (ppush st v)
      | none => .error .exc
    | none => .error .unmodelled
  | .inst => .error .unmodelled
  | .list => do
    let (items, st) ← popMark st
    let (st, r) := palloc st (.list items)
    pure (ppush st r)
  | .emptyList => let (st, r) := palloc st (.list []); .ok (ppush st r)
  | .obj => .error .unmodelled
  | .put key =>
    if key.length > 4300 then .error .exc else
    match parseDigits? key with
    | some n =>
      match st.stack with
      | v :: _ => .ok (pmemoPut st n v)
      | [] => .error .exc
    | none => .error .unmodelled
  | .setitem =>
    match st.stack with
    | v :: k :: .obj id :: s =>
      match st.heap[id]? with
      | some (.dict es) => do
        let es' ← pyAssign es k v
        pure { st with stack := .obj id :: s, heap := st.heap.set id (.dict es') }
      | _ => .error .unmodelled
    | _ :: _ :: _ :: _ => .error .exc     -- not subscriptable
    | _ => .error .exc
  | .tuple => do
    let (items, st) ← popMark st
    pure (ppush st (.tuple items))
  | .tupleN n =>
    if st.stack.length < n then .error .exc
    else .ok { st with stack := .tuple (st.stack.take n).reverse :: st.stack.drop n }
  | .emptyTuple => .ok (ppush st (.tuple []))
  | .setitems => do
    let (items, st) ← popMark st
    match st.stack with
    | .obj id :: _ =>
      match st.heap[id]? with
      | some (.dict es) => do
        let es' ← pyAssignAll es items
        pure { st with heap := st.heap.set id (.dict es') }
      | _ => .error .unmodelled
    | [] => .error .exc
    | _ :: _ => if items.isEmpty then .ok st else .error .exc
  | .frame => .ok st
  | .stackGlobal =>
    match st.stack with
    | .str n :: .str m :: s =>
      -- the module is imported and the attribute looked up by name: lone surrogates cannot be encoded
      if pyUtf8Valid false m && pyUtf8Valid false n then .ok { st with stack := .glob m n :: s } else .error .unmodelled
    | _ :: _ :: _ => .error .exc
    | _ => .error .exc
  | .memoize =>
    match st.stack with
    | v :: _ => .ok (pmemoPut st st.memo.length v)
    | [] => .error .exc
  | .nextBuffer => .error .exc
  | .readonlyBuffer =>
    match st.stack with
    | .bytes _ :: _ => .ok st
    | .obj _ :: _ => .error .unmodelled
    | _ :: _ => .error .exc
    | [] => .error .exc
  | .proto v => if v ≤ 5 then .ok { st with proto := v } else .error .exc
  | .unknown k => if pyOnlyOpcode k then .error .unmodelled else .error .exc

def Insn.isFrame : Insn → Bool
  | .frame => true
  | _ => false

/-- FRAME (its 8-byte size is the first thing in `arg`, `rest` is the input after it).  A size beyond
    `sys.maxsize` raises; so does a new frame while the current one still holds unread bytes.  A frame that is empty
    changes nothing; a frame that reaches to the end of the input (what the picklers write for a small pickle) only
    forbids further frames.  A frame that ends inside the rest of the input constrains how later reads may be split;
    that is not modelled. -/
def frameStep (i : Insn) (arg rest : Bytes) (st : PState) : PM PState :=
  if i.isFrame then
    let n := leNat (arg.take 8)
    if n > 2 ^ 63 - 1 then .error .exc
    else if st.inFrame && !rest.isEmpty then .error .exc
    else if n = 0 then .ok st
    else if n ≥ rest.length then .ok { st with inFrame := true }
    else .error .unmodelled
  else .ok st

/-- `load()`: run to STOP.  Result, final state, unread input. -/
def pvmLoop : Nat → PState → Bytes → (PM PyVal) × PState × Bytes
  | 0, st, inp => (.error .fuel, st, inp)
  | fuel + 1, st, inp =>
    match readByte inp with
    | .error _ => (.error .exc, st, inp)                    -- EOFError
    | .ok (key, r) =>
      match parseArg key r with
      | .error e =>
        -- running out of input is an exception; an argument the shared readers refuse is not modelled
        (.error (if e = .eof || e = .unexpectedEOF then .exc else .unmodelled), st, r)
      | .ok (.stop, rest) =>
        match st.stack with
        | v :: s => (.ok v, { st with stack := s }, rest)
        | [] => (.error .exc, st, rest)
      | .ok (i, rest) =>
        match frameStep i r rest st with
        | .error e => (.error e, st, rest)
        | .ok st0 =>
          match pexec i st0 with
          | .ok st' => pvmLoop fuel st' rest
          | .error e => (.error e, st, rest)

def pvmLoad (inp : Bytes) : (PM PyVal) × PState × Bytes := pvmLoop (inp.length + 1) {} inp

/-! ### rendering (driver) -/

/-- Unfold heap objects; an object met again on the way down is a cycle. -/
partial def pyResolve (heap : List PObj) (path : List Nat) : PyVal → PyVal
  | .obj id =>
    if path.contains id then .cycle
    else match heap[id]? with
      | some (.list xs) => .list (xs.map (pyResolve heap (id :: path)))
      | some (.dict kvs) => .dict (kvs.map fun (k, v) => (pyResolve heap (id :: path) k, pyResolve heap (id :: path) v))
      | some (.bytearray s) => .bytearray s
      | none => .cycle
  | .tuple xs => .tuple (xs.map (pyResolve heap path))
  | .call f xs => .call (pyResolve heap path f) (xs.map (pyResolve heap path))
  | .pers p => .pers (pyResolve heap path p)
  | v => v

/-- The oracle's canonical text. -/
partial def PyVal.render : PyVal → String
  | .none => "N"
  | .bool true => "T"
  | .bool false => "F"
  | .int i => s!"J{i}"
  | .float f => "D" ++ f64Hex f
  | .str s => "S" ++ hexOrDash s
  | .str2 s => "Y" ++ hexOrDash s
  | .bytes s => "B" ++ hexOrDash s
  | .bytearray s => "A" ++ hexOrDash s
  | .list xs => "l( " ++ String.join (xs.map fun x => x.render ++ " ") ++ ")"
  | .tuple xs => "t( " ++ String.join (xs.map fun x => x.render ++ " ") ++ ")"
  | .dict kvs =>
    "d( " ++ String.join ((sortPairs (kvs.map fun (k, v) => (k.render, v.render))).map
      fun (k, v) => k ++ " " ++ v ++ " ") ++ ")"
  | .glob m n => "C" ++ hexOrDash m ++ "." ++ hexOrDash n
  | .call f xs => "c( " ++ f.render ++ " " ++ String.join (xs.map fun x => x.render ++ " ") ++ ")"
  | .pers p => "R( " ++ p.render ++ " )"
  | .obj id => s!"H{id}"
  | .cycle => "#cycle"

end Ogorek
