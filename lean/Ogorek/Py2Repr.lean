import Ogorek.Quote

/-!
  `repr` of a Python-2 `str` (the same algorithm as `repr` of a Python-3 `bytes`, minus the `b` prefix): what Python 2's
  pickler writes after the STRING opcode.  Single quotes unless the string holds a single quote and no double quote;
  backslash and the chosen quote are backslash-escaped; TAB, LF, CR as `\t \n \r`; every other byte below 0x20 or from 0x7f
  on as `\xNN` (lowercase hex).
-/
namespace Ogorek

def py2reprByte (q b : UInt8) : Bytes :=
  if b = q || b = 92 then [92, b]
  else if b = 9 then [92, 116]
  else if b = 10 then [92, 110]
  else if b = 13 then [92, 114]
  else if b < 32 || b ≥ 127 then hexEscape b
  else [b]

def py2quoteChar (s : Bytes) : UInt8 := if s.contains 39 && !s.contains 34 then 34 else 39

def py2repr (s : Bytes) : Bytes := py2quoteChar s :: (s.flatMap (py2reprByte (py2quoteChar s)) ++ [py2quoteChar s])

end Ogorek
