import Ogorek.Basic

/-!
  float64 as its IEEE-754 bit pattern.  No Lean `Float` anywhere: the exact value is
  sign / mantissa / binary exponent over `Nat`/`Int`, decimal text is produced and
  parsed with exact rational arithmetic (correct rounding, shortest digits).
-/
namespace Ogorek

abbrev F64 := UInt64

namespace F64

def signBit (f : F64) : Bool := f.toNat / 2 ^ 63 == 1
def expField (f : F64) : Nat := (f.toNat / 2 ^ 52) % 2048
def fracField (f : F64) : Nat := f.toNat % 2 ^ 52

def isNaN (f : F64) : Bool := expField f == 2047 && fracField f != 0
def isInf (f : F64) : Bool := expField f == 2047 && fracField f == 0
def isZero (f : F64) : Bool := expField f == 0 && fracField f == 0
def isFinite (f : F64) : Bool := expField f != 2047

/-- Mantissa `m` and exponent `e` of a finite float: `|f| = m * 2^e`. -/
def mant (f : F64) : Nat := if expField f == 0 then fracField f else 2 ^ 52 + fracField f
def exp2 (f : F64) : Int := if expField f == 0 then -1074 else (expField f : Int) - 1075

/-- IEEE `==` (Go `a == b` on float64): NaN differs from everything, +0 == -0. -/
def eq (a b : F64) : Bool :=
  !isNaN a && !isNaN b && (a == b || (isZero a && isZero b))

/-- `f == math.Trunc(f)` for finite f, i.e. the value is an integer. -/
def isInteger (f : F64) : Bool :=
  isFinite f && (exp2 f ≥ 0 || mant f % 2 ^ (-(exp2 f)).toNat == 0)

/-- The integer value of a finite integral float. -/
def toInt (f : F64) : Int :=
  let m : Nat := if exp2 f ≥ 0 then mant f * 2 ^ (exp2 f).toNat else mant f / 2 ^ (-(exp2 f)).toNat
  if signBit f then -(m : Int) else (m : Int)

def ofParts (neg : Bool) (expF frac : Nat) : F64 :=
  UInt64.ofNat ((if neg then 2 ^ 63 else 0) + expF * 2 ^ 52 + frac)

def posInf : F64 := ofParts false 2047 0
def negInf : F64 := ofParts true 2047 0
/-- The NaN that `math.NaN()` / strconv return. -/
def goNaN : F64 := 0x7FF8000000000001

/-- Round-half-even quotient of naturals. -/
def divRoundEven (n d : Nat) : Nat :=
  let q := n / d
  let r := n % d
  if 2 * r < d then q else if 2 * r > d then q + 1 else if q % 2 == 0 then q else q + 1

/-- Correctly rounded (nearest, ties to even) conversion of the positive rational `n/d`
    to float64 parts; `none` on overflow. `n > 0`, `d > 0`. -/
def ofRatPos (n d : Nat) : Option (Nat × Nat) :=   -- (expField, frac)
  -- first guess of e with 2^52 ≤ (n/d)/2^e < 2^53
  let e0 : Int := (Nat.log2 n : Int) - (Nat.log2 d : Int) - 52
  let scaled (e : Int) : Nat × Nat :=          -- (n', d') with n'/d' = (n/d)/2^e
    if e ≥ 0 then (n, d * 2 ^ e.toNat) else (n * 2 ^ (-e).toNat, d)
  -- adjust so that floor((n/d)/2^e) has exactly 53 bits (or clamp at the subnormal exponent)
  let fix (e : Int) : Int :=
    let (a, b) := scaled e
    if a / b ≥ 2 ^ 53 then e + 1 else if a / b < 2 ^ 52 then e - 1 else e
  let e1 := fix (fix e0)
  let e := if e1 < -1074 then -1074 else e1
  let (a, b) := scaled e
  let m := divRoundEven a b
  -- rounding may carry into the next binade
  let (m, e) := if m ≥ 2 ^ 53 then (m / 2, e + 1) else (m, e)
  if m < 2 ^ 52 then some (0, m)                -- subnormal or zero (e = -1074)
  else if e + 1075 ≥ 2047 then none
  else some ((e + 1075).toNat, m - 2 ^ 52)

/-- Result of parsing float text. -/
inductive Parsed where
  | ok (f : F64)
  | range            -- ±Inf with strconv.ErrRange
  | syntax
  | unmodelled       -- hex floats and digit-separating underscores: not interpreted by the model
  deriving Repr

def lower (b : UInt8) : UInt8 := if 65 ≤ b && b ≤ 90 then b + 32 else b

def eqIgnoreCase (s : Bytes) (lit : String) : Bool := s.map lower == sb lit

def takeDigits : Bytes → Bytes × Bytes
  | [] => ([], [])
  | b :: bs => if isDigit b then let (d, r) := takeDigits bs; (b :: d, r) else ([], b :: bs)

/-- strconv's `underscoreOK` for text without a base prefix: every underscore separates two digits. -/
def underscoreOK (s : Bytes) : Bool :=
  let body := match s with
    | 45 :: r => r
    | 43 :: r => r
    | r => r
  -- saw: 0 = beginning, 1 = digit, 2 = underscore, 3 = anything else
  let rec go : Bytes → Nat → Bool
    | [], saw => saw != 2
    | b :: bs, saw =>
      if isDigit b then go bs 1
      else if b == 95 then (if saw != 1 then false else go bs 2)
      else if saw == 2 then false
      else go bs 3
  go body 0

/-- `strconv.ParseFloat(s, 64)` for decimal text, `inf`/`infinity`/`nan`. -/
def parse (s0 : Bytes) : Parsed :=
  let hasUnderscore := s0.any (· == 95)
  let s := if hasUnderscore then s0.filter (· != 95) else s0
  let (neg, hasSign, body) := match s with
    | 45 :: r => (true, true, r)
    | 43 :: r => (false, true, r)
    | r => (false, false, r)
  let hexPrefix := match body with
    | 48 :: x :: _ => lower x == 120
    | _ => false
  if hexPrefix then .unmodelled
  else if hasUnderscore && !underscoreOK s0 then .syntax else
  if eqIgnoreCase body "inf" || eqIgnoreCase body "infinity" then .ok (if neg then negInf else posInf)
  else if !hasSign && eqIgnoreCase body "nan" then .ok goNaN
  else
    let (ip, r1) := takeDigits body
    let (fp, r2) := match r1 with
      | 46 :: r => takeDigits r
      | r => ([], r)
    if ip.isEmpty && fp.isEmpty then .syntax else
    let expo? : Option Int := match r2 with
      | [] => some 0
      | c :: r =>
        if lower c == 101 then
          let (eneg, ds) := match r with
            | 45 :: q => (true, q)
            | 43 :: q => (false, q)
            | q => (false, q)
          if ds.isEmpty || !ds.all isDigit then none
          else
            -- strconv caps the accumulated exponent (leading zeros do not count: `1e0000000005` is 1e5); anything this large is
            -- decided by the guard below
            let sig := ds.dropWhile (· == 48)
            let v : Nat := if sig.length > 8 then 100000000 else digitsVal sig
            some (if eneg then -(v : Int) else (v : Int))
        else none
    match expo? with
    | none => .syntax
    | some ex =>
      let digs := (ip ++ fp).dropWhile (· == 48)
      if digs.isEmpty then .ok (ofParts neg 0 0) else
      -- decimal point position: value = 0.d1d2… × 10^dp
      let lead0 := (ip ++ fp).length - digs.length
      let dp : Int := (ip.length : Int) - (lead0 : Int) + ex
      if dp > 310 then .range
      else if dp < -330 then .ok (ofParts neg 0 0)
      else
        let m := digitsVal digs
        let e10 : Int := dp - (digs.length : Int)
        let (n, d) := if e10 ≥ 0 then (m * 10 ^ e10.toNat, 1) else (m, 10 ^ (-e10).toNat)
        match ofRatPos n d with
        | none => .range
        | some (ef, fr) => .ok (ofParts neg ef fr)

/-- Decimal digits and point position of the shortest decimal that parses back to `f`
    (closest to the exact value among the shortest): `(digits, dp)` with value `0.digits × 10^dp`.
    `f` finite and non-zero. -/
def shortest (f : F64) : Bytes × Int :=
  let m := mant f
  let e := exp2 f
  let (n, d) : Nat × Nat := if e ≥ 0 then (m * 2 ^ e.toNat, 1) else (m, 2 ^ (-e).toNat)
  -- k with 10^k ≤ n/d < 10^(k+1)
  let kEst : Int := ((Nat.log2 n : Int) - (Nat.log2 d : Int)) * 30103 / 100000
  let ge10 (k : Int) : Bool :=   -- n/d ≥ 10^k
    if k ≥ 0 then n ≥ d * 10 ^ k.toNat else n * 10 ^ (-k).toNat ≥ d
  let rec adjust (fuel : Nat) (k : Int) : Int :=
    match fuel with
    | 0 => k
    | fuel + 1 => if !ge10 k then adjust fuel (k - 1) else if ge10 (k + 1) then adjust fuel (k + 1) else k
  let k := adjust 8 kEst
  let target : F64 := ofParts false (expField f) (fracField f)
  let parsesBack (digs : Nat) (p : Int) : Bool :=   -- digs × 10^p
    let (a, b) := if p ≥ 0 then (digs * 10 ^ p.toNat, 1) else (digs, 10 ^ (-p).toNat)
    match ofRatPos a b with
    | some (ef, fr) => ofParts false ef fr == target
    | none => false
  let rec search (fuel nd : Nat) : Bytes × Int :=
    match fuel with
    | 0 => (natDigits m, 0)
    | fuel + 1 =>
      -- scale so that the integer part has nd digits: x / 10^p,  p = k - nd + 1
      let p : Int := k - (nd : Int) + 1
      let (a, b) := if p ≥ 0 then (n, d * 10 ^ p.toNat) else (n * 10 ^ (-p).toNat, d)
      let lo := a / b
      let hi := lo + 1
      let okLo := lo ≥ 10 ^ (nd - 1) && parsesBack lo p
      let okHi := parsesBack hi p
      let pick : Option Nat :=
        if okLo && okHi then
          let r := a % b
          some (if 2 * r < b then lo else if 2 * r > b then hi else if lo % 2 == 0 then lo else hi)
        else if okLo then some lo else if okHi then some hi else none
      match pick with
      | some v =>
        -- hi may have one more digit (…999 + 1); strip trailing zeros
        let ds := natDigits v
        let dpv : Int := (ds.length : Int) + p
        let ds := (ds.reverse.dropWhile (· == 48)).reverse
        (ds, dpv)
      | none => search fuel (nd + 1)
  search 17 1

def pad2 (n : Nat) : Bytes := if n < 10 then 48 :: natDigits n else natDigits n

/-- `fmt.Sprintf("%g", f)`. -/
def fmtG (f : F64) : Bytes :=
  if isNaN f then sb "NaN"
  else if isInf f then (if signBit f then sb "-Inf" else sb "+Inf")
  else
    let sign : Bytes := if signBit f then [45] else []
    if isZero f then sign ++ [48]
    else
      let (ds, dp) := shortest f
      let nd := ds.length
      let ex := dp - 1
      if ex < -4 || ex ≥ 6 then
        -- %e with nd-1 fractional digits
        let frac := ds.drop 1
        let mantissa := ds.take 1 ++ (if frac.isEmpty then [] else 46 :: frac)
        let esign : UInt8 := if ex < 0 then 45 else 43
        sign ++ mantissa ++ [101, esign] ++ pad2 ex.natAbs
      else
        -- %f with max(nd - dp, 0) fractional digits
        let ip : Bytes :=
          if dp > 0 then ds.take dp.toNat ++ List.replicate (dp.toNat - nd) 48 else [48]
        let nfrac : Nat := ((nd : Int) - dp).toNat
        let fp : Bytes :=
          if nfrac == 0 then []
          else 46 :: (List.replicate (-dp).toNat 48 ++ ds.drop dp.toNat)
        sign ++ ip ++ fp

/-- Exact widening float32 → float64 (Go `float64(f32)`). -/
def ofF32Bits (b : Nat) : F64 :=
  let neg := b / 2 ^ 31 % 2 == 1
  let e := b / 2 ^ 23 % 256
  let fr := b % 2 ^ 23
  if e == 255 then ofParts neg 2047 (fr * 2 ^ 29)
  else if e == 0 then
    if fr == 0 then ofParts neg 0 0
    else
      -- subnormal float32: fr × 2^-149, normal in float64
      let k := Nat.log2 fr                 -- position of the leading bit
      ofParts neg (k + 874) ((fr * 2 ^ (52 - k)) % 2 ^ 52)
  else ofParts neg (e + 896) (fr * 2 ^ 29)

/-- `big.Int.Float64()` when it reports `big.Exact`: the float64 whose value is exactly `i`,
    if there is one — `|i| = m · 2^e` with `m < 2^53` and the exponent in range. -/
def ofIntExact? (i : Int) : Option F64 :=
  if i == 0 then some 0 else
  let n := i.natAbs
  let k := Nat.log2 n                      -- 2^k ≤ n < 2^(k+1)
  if k > 1023 then none
  else if k ≤ 52 then some (ofParts (decide (i < 0)) (k + 1023) (n * 2 ^ (52 - k) - 2 ^ 52))
  else if n % 2 ^ (k - 52) == 0 then some (ofParts (decide (i < 0)) (k + 1023) (n / 2 ^ (k - 52) - 2 ^ 52))
  else none

end F64
end Ogorek
