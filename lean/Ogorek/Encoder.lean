import Ogorek.Quote
import Ogorek.Value

/-!
  `encode.go`: the encoder.  The result is the list of `Write` calls made on the
  destination (one chunk per `emit*` call) together with the error that stopped it,
  if any — so both "what was written" and "what was returned" are observable (C13).
-/
namespace Ogorek

inductive EncErr where
  | invalidProtocol
  | typeError (kind : String)      -- *TypeError
  | p0Utf8                         -- errP0UnicodeUTF8Only
  | p0Persid                       -- errP0PersIDStringLineOnly
  | p0123Global                    -- errP0123GlobalStringLineOnly
  | panic (what : String)
  | unmodelled
  deriving DecidableEq, Repr, Inhabited

def EncErr.render : EncErr → String
  | .invalidProtocol => "invalidProtocol"
  | .typeError k => s!"typeError:{k}"
  | .p0Utf8 => "p0-utf8"
  | .p0Persid => "p0-persid"
  | .p0123Global => "p0123-global"
  | .panic w => s!"PANIC:{w}"
  | .unmodelled => "UNMODELLED"

structure ECfg where
  proto : Int
  su : Bool
  deriving DecidableEq, Repr, Inhabited

/-- Chunks written so far, and the error that stopped the encoder (if any). -/
structure Out where
  chunks : List Bytes
  err : Option EncErr
  deriving Inhabited

def emit (bs : Bytes) : Out := ⟨[bs], none⟩
def failWith (e : EncErr) : Out := ⟨[], some e⟩
def Out.nil : Out := ⟨[], none⟩

/-- `a; if err != nil { return err }; b`. -/
def Out.seq (a b : Out) : Out :=
  match a.err with
  | some _ => a
  | none => ⟨a.chunks ++ b.chunks, b.err⟩

infixl:65 " +> " => Out.seq

/-- `PersistentRef`: for application object `n`, the persistent id or `none`. -/
abbrev RefHook := Option (Nat → Option GoVal)

/-- `strconv.IsPrint`, a parameter of the model (a generated table in the driver). -/
abbrev IsPrint := Nat → Bool

def le4 (n : Nat) : Bytes := natLE 4 n
def le8 (n : Nat) : Bytes := natLE 8 n

def encodeBool (c : ECfg) (b : Bool) : Out :=
  if c.proto ≥ 2 then emit [if b then 0x88 else 0x89]
  else emit (if b then sb "I01\n" else sb "I00\n")

def encodeInt (c : ECfg) (i : Int) : Out :=
  if c.proto ≥ 1 ∧ 0 ≤ i ∧ i ≤ 255 then emit [75, UInt8.ofNat i.toNat]
  else if c.proto ≥ 1 ∧ 0 ≤ i ∧ i ≤ 65535 then
    emit [77, UInt8.ofNat (i.toNat % 256), UInt8.ofNat (i.toNat / 256)]
  else if c.proto ≥ 1 ∧ -(2 : Int) ^ 31 ≤ i ∧ i ≤ (2 : Int) ^ 31 - 1 then
    emit (74 :: le4 (ofSigned 32 i))
  else emit (73 :: fmtInt i ++ [10])

def encodeUint (c : ECfg) (u : Nat) : Out :=
  if (u : Int) ≤ maxInt64 then encodeInt c u else emit (73 :: natDigits u ++ [10])

def encodeLong (i : Int) : Out := emit (76 :: fmtInt i ++ [76, 10])

def encodeFloat (c : ECfg) (f : F64) : Out :=
  if c.proto ≥ 1 then emit (71 :: natBE 8 f.toNat) else emit (70 :: F64.fmtG f ++ [10])

def encodeByteString (ip : IsPrint) (c : ECfg) (s : Bytes) : Out :=
  if c.proto ≥ 1 then
    (if s.length < 256 then emit [85, UInt8.ofNat s.length] else emit (84 :: le4 s.length)) +> emit s
  else emit (83 :: pyquote ip s ++ [10])

def encodeUnicode (c : ECfg) (s : Bytes) : Out :=
  if c.proto ≥ 1 then
    (if s.length < 256 ∧ c.proto ≥ 4 then emit [0x8c, UInt8.ofNat s.length] else emit (88 :: le4 s.length))
      +> emit s
  else match pyencodeRawUnicodeEscape s with
    | some u => emit (86 :: u ++ [10])
    | none => failWith .p0Utf8

def encodeString (ip : IsPrint) (c : ECfg) (s : Bytes) : Out :=
  if c.su ∨ c.proto ≥ 3 then encodeUnicode c s else encodeByteString ip c s

def encodeClass (ip : IsPrint) (c : ECfg) (m n : Bytes) : Out :=
  if c.proto ≥ 4 then encodeString ip c m +> encodeString ip c n +> emit [0x93]
  else if containsLF m || containsLF n then failWith .p0123Global
  else emit (99 :: m ++ [10] ++ n ++ [10])

/-- `encodeTuple` given the already encoded items. -/
def encodeTupleOf (c : ECfg) (l : Nat) (items : Out) : Out :=
  if c.proto ≥ 2 ∧ 1 ≤ l ∧ l ≤ 3 then
    items +> emit [if l = 1 then 0x85 else if l = 2 then 0x86 else 0x87]
  else if c.proto ≥ 1 ∧ l = 0 then emit [41]
  else emit [40] +> items +> emit [116]

def pybuiltinModuleE (proto : Int) : Bytes := if proto ≤ 2 then sb "__builtin__" else sb "builtins"

/-- `encodeBytes`. -/
def encodeBytes (ip : IsPrint) (c : ECfg) (s : Bytes) : Out :=
  if c.proto ≥ 3 then
    (if s.length < 256 then emit [67, UInt8.ofNat s.length] else emit (66 :: le4 s.length)) +> emit s
  else
    -- `_codecs.encode(byt.decode('latin1'), 'latin1')`
    let ulatin1 : Bytes := s.flatMap fun b => encodeRune b.toNat
    encodeClass ip c (sb "_codecs") (sb "encode")
      +> encodeTupleOf c 2 (encodeUnicode c ulatin1 +> encodeByteString ip c (sb "latin1"))
      +> emit [82]

/-- `encodeByteArray`. -/
def encodeByteArray (ip : IsPrint) (c : ECfg) (s : Bytes) : Out :=
  if c.proto ≥ 5 then emit (0x96 :: le8 s.length) +> emit s
  else
    encodeClass ip c (pybuiltinModuleE c.proto) (sb "bytearray")
      +> encodeTupleOf c 1 (encodeBytes ip c s)
      +> emit [82]

mutual
/-- `(*Encoder).encode`. -/
def enc (ip : IsPrint) (c : ECfg) : GoVal → Out
  | .nil => emit [78]
  | .none => emit [78]
  | .bool b => encodeBool c b
  | .int i => encodeInt c i
  | .uint u => encodeUint c u
  | .big _ i => encodeLong i
  | .float f => encodeFloat c f
  | .complex _ _ => failWith (.typeError "complex128")
  | .str s => encodeString ip c s
  | .bytestr s => encodeByteString ip c s
  | .bytes s => encodeBytes ip c s
  | .bytearray s => encodeByteArray ip c s
  | .list xs =>
    if c.proto ≥ 1 ∧ xs.length = 0 then emit [93]
    else emit [40] +> encList ip c xs +> emit [108]
  | .tuple xs => encodeTupleOf c xs.length (encList ip c xs)
  | .map kvs =>
    if c.proto ≥ 1 ∧ kvs.length = 0 then emit [125]
    else emit [40] +> encPairs ip c kvs +> emit [100]
  | .dict kvs =>
    if c.proto ≥ 1 ∧ kvs.length = 0 then emit [125]
    else emit [40] +> encPairs ip c kvs +> emit [100]
  | .cls m n => encodeClass ip c m n
  | .call m n args =>
    encodeClass ip c m n +> encodeTupleOf c args.length (encList ip c args) +> emit [82]
  | .ref pid =>
    if c.proto = 0 then
      match pid with
      | .str s => if containsLF s then failWith .p0Persid else emit (80 :: s ++ [10])
      | _ => failWith .p0Persid
    else enc ip c pid +> emit [81]
  | .user n =>
    -- pointer to an application struct `UserObj{N int}`
    -- (one that `PersistentRef` did not turn into a reference, see `substRefs`)
    emit [40] +> encodeString ip c (sb "N") +> encodeInt c n +> emit [100]
  | .mark => emit [40] +> emit [100]
  | .href _ => failWith .unmodelled
  | .cycle => failWith .unmodelled
def encList (ip : IsPrint) (c : ECfg) : List GoVal → Out
  | [] => Out.nil
  | x :: xs => enc ip c x +> encList ip c xs
def encPairs (ip : IsPrint) (c : ECfg) : List (GoVal × GoVal) → Out
  | [] => Out.nil
  | (k, v) :: r => enc ip c k +> enc ip c v +> encPairs ip c r
end

mutual
/-- `PersistentRef` as a substitution: a pointer to an application struct for which the hook
    returns a Ref is encoded exactly as that Ref (`encodeRef`). Ids returned by the hook are
    plain values (the harness never returns ids containing application objects). -/
def substRefs (getref : Nat → Option GoVal) : GoVal → GoVal
  | .user n => match getref n with
    | some pid => .ref pid
    | none => .user n
  | .list xs => .list (substRefsList getref xs)
  | .tuple xs => .tuple (substRefsList getref xs)
  | .map kvs => .map (substRefsPairs getref kvs)
  | .dict kvs => .dict (substRefsPairs getref kvs)
  | .call m n args => .call m n (substRefsList getref args)
  | .ref pid => .ref (substRefs getref pid)
  | v => v
def substRefsList (getref : Nat → Option GoVal) : List GoVal → List GoVal
  | [] => []
  | x :: xs => substRefs getref x :: substRefsList getref xs
def substRefsPairs (getref : Nat → Option GoVal) : List (GoVal × GoVal) → List (GoVal × GoVal)
  | [] => []
  | (k, v) :: r => (substRefs getref k, substRefs getref v) :: substRefsPairs getref r
end

mutual
/-- Pointers to structs the encoder consults `PersistentRef` for, in traversal order
    (application objects and `*big.Int`). -/
def refConsults : GoVal → List GoVal
  | .user n => [.user n]
  | .big id i => [.big id i]
  | .list xs => refConsultsList xs
  | .tuple xs => refConsultsList xs
  | .map kvs => refConsultsPairs kvs
  | .dict kvs => refConsultsPairs kvs
  | .call _ _ args => refConsultsList args
  | .ref pid => refConsults pid
  | _ => []
def refConsultsList : List GoVal → List GoVal
  | [] => []
  | x :: xs => refConsults x ++ refConsultsList xs
def refConsultsPairs : List (GoVal × GoVal) → List GoVal
  | [] => []
  | (k, v) :: r => refConsults k ++ refConsults v ++ refConsultsPairs r
end

/-- `(*Encoder).Encode`. -/
def encodeTop (ip : IsPrint) (c : ECfg) (getref : RefHook) (v0 : GoVal) : Out :=
  let v := match getref with
    | some g => substRefs g v0
    | none => v0
  if ¬(0 ≤ c.proto ∧ c.proto ≤ 5) then failWith .invalidProtocol
  else
    (if c.proto ≥ 2 then emit [0x80, UInt8.ofNat c.proto.toNat] else Out.nil)
      +> enc ip c v +> emit [46]

/-- The destination fails at its `k`-th `Write` (1-based): what the caller observes. -/
structure FaultObs where
  writes : Nat            -- number of Write calls made
  injected : Bool         -- Encode returned the injected error
  err : Option EncErr     -- otherwise: the encoder's own error
  deriving DecidableEq, Repr

def withFault (k : Nat) (o : Out) : FaultObs :=
  if 1 ≤ k ∧ k ≤ o.chunks.length then ⟨k, true, none⟩ else ⟨o.chunks.length, false, o.err⟩

end Ogorek
