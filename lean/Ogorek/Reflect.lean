import Ogorek.Encoder

/-!
  The encoder over reflect-level values (C15): every Go kind, named types, arrays and slices of any
  element type, maps with any key type, structs with exported / unexported / embedded / tagged
  fields, pointers and pointer chains, nil pointers and nil interfaces (an invalid `reflect.Value`).
  Values the plain model already covers are embedded through `val`.
-/
namespace Ogorek

structure RField (α : Type) where
  name : Bytes
  exported : Bool
  tag : Option Bytes
  value : α

inductive RVal where
  | val (v : GoVal)                       -- bool, ints, floats, strings and named strings, Bytes, ByteString, og-rek's own types
  | unsupported (kind : String)           -- chan, func, complex64/128, uintptr, unsafe.Pointer: `rk.String()`
  | invalid                               -- nil interface, or Elem() of a nil pointer
  | seq (xs : List RVal)                  -- array / slice of anything but bytes
  | tuple (xs : List RVal)                -- ogórek.Tuple
  | bytearr (bs : Bytes)                  -- [N]byte by value, []byte, named byte slices
  | map (kvs : List (RVal × RVal))
  | ptr (v : RVal)                        -- non-nil pointer (PersistentRef unset)
  | strct (fields : List (Bytes × Bool × Option Bytes × RVal))
  | zero                                  -- content of an unexported field: never looked at

mutual
/-- `(*Encoder).encode` over reflect values (after the F6 repair: byte arrays are copied, unexported
    fields are never consulted for tags). -/
def encR (ip : IsPrint) (c : ECfg) : RVal → Out
  | .val v => enc ip c v
  | .unsupported k => failWith (.typeError k)
  | .invalid => emit [78]
  | .zero => failWith (.panic "reflect: value obtained using unexported field")
  | .seq xs =>
    if c.proto ≥ 1 ∧ xs.length = 0 then emit [93]
    else emit [40] +> encRList ip c xs +> emit [108]
  | .tuple xs => encodeTupleOf c xs.length (encRList ip c xs)
  | .bytearr bs => encodeByteArray ip c bs
  | .map kvs =>
    if c.proto ≥ 1 ∧ kvs.length = 0 then emit [125]
    else emit [40] +> encRPairs ip c kvs +> emit [100]
  | .ptr v => encR ip c v
  | .strct fields =>
    emit [40] +> encRFields ip c (fields.any fun f => f.2.1 && f.2.2.1.isSome) fields +> emit [100]
def encRList (ip : IsPrint) (c : ECfg) : List RVal → Out
  | [] => Out.nil
  | x :: xs => encR ip c x +> encRList ip c xs
def encRPairs (ip : IsPrint) (c : ECfg) : List (RVal × RVal) → Out
  | [] => Out.nil
  | (k, v) :: r => encR ip c k +> encR ip c v +> encRPairs ip c r
/-- Fields of a struct: with at least one tagged exported field only those, under their tag;
    otherwise every exported field under its name. Unexported fields are skipped unseen. -/
def encRFields (ip : IsPrint) (c : ECfg) (tagged : Bool) : List (Bytes × Bool × Option Bytes × RVal) → Out
  | [] => Out.nil
  | (name, exported, tag, v) :: r =>
    (if !exported then Out.nil
     else if tagged then
       match tag with
       | some t => encodeString ip c t +> encR ip c v
       | none => Out.nil
     else encodeString ip c name +> encR ip c v)
    +> encRFields ip c tagged r
end

def encodeTopR (ip : IsPrint) (c : ECfg) (v : RVal) : Out :=
  if ¬(0 ≤ c.proto ∧ c.proto ≤ 5) then failWith .invalidProtocol
  else (if c.proto ≥ 2 then emit [0x80, UInt8.ofNat c.proto.toNat] else Out.nil) +> encR ip c v +> emit [46]

end Ogorek
