import Ogorek.Decoder
import Ogorek.Encoder
import Ogorek.Conv
import Ogorek.Opcodes
import Ogorek.Reflect
import Ogorek.Pvm
import Ogorek.CPickle
import Ogorek.CPickleOK
import Ogorek.CPickleS
import Ogorek.Py2Repr
import Ogorek.Lemmas.PkRT
import Ogorek.Props.C03Dec
import Ogorek.Props.C02Py2
import Ogorek.Generated.IsPrint

/-!
  Line-protocol driver: one case per input line, one answer per output line.
  Everything printed is canonical (sorted dict entries, hex payloads, error classes).
-/
namespace Ogorek.Driver
open Ogorek

def parseCfg (s : String) : Option Cfg :=
  match s.toList with
  | [a, b] => some { pyDict := a == '1', su := b == '1' }
  | _ => none

/-- Hook spec: `-` none, `K` keep, `R` replace by application object #callIndex,
    `F<i>` fail at call i (replace otherwise); `G<i>` the same, the Go hook then returns a non-nil value with its error. -/
def parseHook (s : String) : Option Hook :=
  if s == "-" then some none
  else if s == "K" then some (some fun _ _ => .keep)
  else if s == "R" then some (some fun i _ => .replace (.user i))
  else if s == "I" then some (some fun _ r =>
    match r with
    | .ref (.str b) =>
      match b with
      | 105 :: 100 :: ds =>
        match parseDigits? ds with
        | some n => if natDigits n == ds then .replace (.user n) else .keep
        | none => .keep
      | 105 :: 0xe9 :: 100 :: ds =>      -- ids of the "B" PersistentRef hook
        match parseDigits? ds with
        | some n => if natDigits n == ds then .replace (.user n) else .keep
        | none => .keep
      | _ => .keep
    | _ => .keep)
  else if s.front == 'F' || s.front == 'G' then     -- G: the hook returns a value TOGETHER with the error; still an error
    (s.drop 1).toString.toNat?.map fun k => some fun i _ => if i == k then .fail else .replace (.user i)
  else none

/-- Node budget for rendering (DAGs can be exponentially large as trees). -/
def nodeBudget : Nat := 200000

/-- Resolve heap references (cycle → `#cycle`), counting nodes. -/
partial def resolve (heap : Array HObj) (path : List Nat) (v : GoVal) : StateT Nat Option GoVal := do
  let n ← get
  if n == 0 then failure
  set (n - 1)
  match v with
  | .list xs => return .list (← xs.mapM (resolve heap path))
  | .tuple xs => return .tuple (← xs.mapM (resolve heap path))
  | .call m n args => return .call m n (← args.mapM (resolve heap path))
  | .ref p => return .ref (← resolve heap path p)
  | .href id =>
    if path.contains id then return .cycle
    else match heap[id]? with
      | none => return .cycle
      | some o =>
        match o.kind with
        | .list => return .list (← o.xs.mapM (resolve heap (id :: path)))
        | k =>
          let kvs ← o.kvs.mapM fun (a, b) => do
            let a' ← resolve heap (id :: path) a
            let b' ← resolve heap (id :: path) b
            pure (a', b')
          return (if k == .dict then .dict kvs else .map kvs)
  | v => return v

def renderResolved (st : DState) (v : GoVal) : String :=
  match (resolve st.heap.toArray [] v).run nodeBudget with
  | some (r, _) => r.render
  | none => "TOOBIG"

/-- Coarse error class used for comparison with the implementation. -/
def classOf : DErr → String
  | .eof => "eof"
  | .unexpectedEOF => "unexpectedEOF"
  | .opcode k _ => s!"opcode:{k.toNat}"
  | .invalidVersion => "invalidVersion"
  | .panic w => s!"PANIC:{w}"
  | .unmodelled => "UNMODELLED"
  | _ => "other"

/-- The same with the position an OpcodeError carries. -/
def classOfP : DErr → String
  | .opcode k pos => s!"opcode:{k.toNat}@{pos}"
  | e => classOf e

def showDec (inpLen : Nat) (r : M GoVal × DState × Bytes) : String :=
  match r with
  | (.ok v, st, rest) => s!"OK {renderResolved st v} {inpLen - rest.length}"
  | (.error e, _, _) => s!"ERR {classOf e}"

def runDec (mc : MCfg) (hook : Hook) (inp : Bytes) : String :=
  showDec inp.length (decode mc hook {} inp)

/-- Stream decoding: call Decode until it fails; results joined by ` | `. -/
partial def runDecs (mc : MCfg) (hook : Hook) (st : DState) (inp : Bytes) (acc : List String) (n : Nat)
    (cls : DErr → String := classOf) : String :=
  if n == 0 then " | ".intercalate acc.reverse else
  match decode mc hook st inp with
  | (.ok v, st', rest) =>
    runDecs mc hook st' rest (s!"OK {renderResolved st' v} {inp.length - rest.length}" :: acc) (n - 1) cls
  | (.error e, st', rest) =>
    -- after an end-of-input error the stream is over; after any other error the next call goes on where
    -- this one stopped (how far that is comparable with the implementation is the caller's business)
    if e == .eof || e == .unexpectedEOF || (match e with | .panic _ => true | _ => false) then
      " | ".intercalate (s!"ERR {cls e}" :: acc).reverse
    else runDecs mc hook st' rest (s!"ERR {cls e}" :: acc) (n - 1) cls

/-- One letter per cut position k = 0 … len-1: the outcome of decoding the first k bytes. -/
def cutLetter (r : M GoVal × DState × Bytes) : Char :=
  match r.1 with
  | .ok _ => 'V'
  | .error .eof => 'E'
  | .error .unexpectedEOF => 'U'
  | .error (.panic _) => 'P'
  | .error .unmodelled => '?'
  | .error _ => 'O'

def runCuts (mc : MCfg) (inp : Bytes) : String :=
  let full := decode mc none {} inp
  let head := match full with
    | (.ok _, _, rest) => s!"OK {inp.length - rest.length}"
    | (.error e, _, _) => s!"ERR {classOf e}"
  let letters := (List.range inp.length).map fun k => cutLetter (decode mc none {} (inp.take k))
  s!"{head} {String.ofList letters}"

def runDecH (mc : MCfg) (hook : Hook) (inp : Bytes) : String :=
  let r := decode mc hook {} inp
  let st := r.2.1
  let calls := " ".intercalate (st.calls.reverse.map (renderResolved st))
  showDec inp.length r ++ " ; " ++ calls

def ip : IsPrint := Generated.isPrint

def joinChunks (o : Out) : Bytes := o.chunks.flatten

/-- Does the value contain a call of the `bytes` / `bytearray` builtins? -/
partial def hasBuiltinCall : GoVal → Bool
  | .call m n args =>
    ((m == sb "__builtin__" || m == sb "builtins") && (n == sb "bytes" || n == sb "bytearray")) || args.any hasBuiltinCall
  | .list xs => xs.any hasBuiltinCall
  | .tuple xs => xs.any hasBuiltinCall
  | .map kvs => kvs.any fun (k, v) => hasBuiltinCall k || hasBuiltinCall v
  | .dict kvs => kvs.any fun (k, v) => hasBuiltinCall k || hasBuiltinCall v
  | .ref p => hasBuiltinCall p
  | _ => false

/-- decode, then re-encode at every protocol and decode again (C05). -/
def runReenc (c : Cfg) (inp : Bytes) : String :=
  match decode (goCfg c) none {} inp with
  | (.error e, _, _) => s!"ERR {classOf e}"
  | (.ok v, st, _) =>
    match (resolve st.heap.toArray [] v).run nodeBudget with
    | none => "SKIP TOOBIG"
    | some (rv, _) =>
      let first := rv.render
      if (first.splitOn "#cycle").length > 1 then "SKIP #cycle" else
      let per := (List.range 6).map fun p =>
        let o := encodeTop ip { proto := (p : Nat), su := c.su } none rv
        match o.err with
        | some e => s!"p{p}:ENCERR:{e.render}"
        | none =>
          match decode (goCfg c) none {} (joinChunks o) with
          | (.error e, _, _) => s!"p{p}:DECERR:{classOf e}"
          | (.ok v2, st2, _) =>
            let r2 := renderResolved st2 v2
            if r2 == first then s!"p{p}:SAME" else s!"p{p}:DIFF:{r2.replace " " "_"}"
      s!"OK {first} " ++ " ".intercalate per

def runConv (mc : MCfg) (inp : Bytes) : String :=
  match decode mc none {} inp with
  | (.error e, _, _) => s!"ERR {classOf e}"
  | (.ok v, _, _) =>
    let i := match asInt64 v with | some i => s!"{i}" | none => "ERR"
    let s := match asString v with | some b => hexOrDash b | none => "ERR"
    let b := match asBytes v with | some b => hexOrDash b | none => "ERR"
    s!"I:{i} S:{s} B:{b}"

def dictContents (es : Entries) : String :=
  s!"len={es.length} iter={es.length} {(GoVal.dict es).render}"

/-- Split a token list at the end of its first complete value. -/
def firstValue (toks : List String) : Option (GoVal × List String) := parseVal toks

/-- Replay a Dict history on the abstract table. `Get` prints the set of candidate answers
    (values of all entries equal to the query) — the contract leaves the choice to the table. -/
def runDict (spec : String) : String :=
  let ops := spec.splitOn " ; "
  let step (acc : Entries × List String) (op : String) : Entries × List String :=
    let (es, out) := acc
    match (op.splitOn " ").filter (· ≠ "") with
    | "S" :: rest =>
      match firstValue rest with
      | some (k, rest') =>
        match parseValue? rest' with
        | some v =>
          if hashable k then
            let es' := dictSetSpec es k v
            (es', dictContents es' :: out)
          else (es, ("PANIC:unhashable_type: " ++ dictContents es) :: out)
        | none => (es, "BADCASE" :: out)
      | none => (es, "BADCASE" :: out)
    | "D" :: rest =>
      match parseValue? rest with
      | some k =>
        if hashable k then
          let es' := es.filter fun e => !goEqual k e.1
          (es', dictContents es' :: out)
        else (es, ("PANIC:unhashable_type: " ++ dictContents es) :: out)
      | none => (es, "BADCASE" :: out)
    | "G" :: rest =>
      match parseValue? rest with
      | some k =>
        if hashable k then
          let cands := (matching es k).map fun e => e.2.render
          let g := if cands.isEmpty then "get=nil" else "get=" ++ "|or|".intercalate cands
          (es, (g ++ " " ++ dictContents es) :: out)
        else (es, ("PANIC:unhashable_type: " ++ dictContents es) :: out)
      | none => (es, "BADCASE" :: out)
    | _ => (es, "BADCASE" :: out)
  let (_, out) := ops.foldl step ([], [])
  " | ".intercalate out.reverse


/-- Ref hook spec: `-` none; `S` object n ↦ string id "id<n>"; `T` ↦ Tuple{"cls", n};
    `N` ↦ string with a newline; `E<k>` only even n are mapped (string ids). -/
def parseRefHook (s : String) : Option RefHook :=
  if s == "-" then some none
  else if s == "S" then some (some fun n => some (.str (sb s!"id{n}")))
  else if s == "B" then some (some fun n => some (.str ([105, 0xe9, 100] ++ natDigits n)))
  else if s == "T" then some (some fun n => some (.tuple [.str (sb "cls"), .int n]))
  else if s == "N" then some (some fun n => some (.str (sb s!"id\n{n}")))
  else if s == "E" then some (some fun n => if n % 2 == 0 then some (.str (sb s!"id{n}")) else none)
  else none

def showOut (o : Out) : String :=
  let cs := ",".intercalate (o.chunks.map hexOrDash)
  match o.err with
  | none => s!"OK {cs}"
  | some e => s!"ERR {e.render} {o.chunks.length}"


mutual
/-- Parse the description of a reflect-generated value. -/
partial def parseRVal : List String → Option (RVal × List String)
  | [] => none
  | t :: rest =>
    if t == "inv" then some (.invalid, rest)
    else if t == "zero" then some (.zero, rest)
    else if t.startsWith "uns:" then some (.unsupported (t.drop 4).toString, rest)
    else if t.startsWith "barr:" then (bytesOfHex? (t.drop 5).toString).map fun b => (.bytearr b, rest)
    else if t == "seq(" then (parseRSeq rest []).map fun (xs, r) => (.seq xs, r)
    else if t == "tup(" then (parseRSeq rest []).map fun (xs, r) => (.tuple xs, r)
    else if t == "rmap(" then (parseRSeq rest []).bind fun (xs, r) => (rpairUp xs).map fun kvs => (.map kvs, r)
    else if t == "ptr(" then do
      let (v, r) ← parseRVal rest
      match r with
      | ")" :: r' => pure (.ptr v, r')
      | _ => none
    else if t == "st(" then (parseRFields rest []).map fun (fs, r) => (.strct fs, r)
    else (parseVal (t :: rest)).map fun (v, r) => (.val v, r)
partial def parseRSeq : List String → List RVal → Option (List RVal × List String)
  | [], _ => none
  | ")" :: rest, acc => some (acc.reverse, rest)
  | toks, acc => do
    let (v, r) ← parseRVal toks
    parseRSeq r (v :: acc)
partial def rpairUp : List RVal → Option (List (RVal × RVal))
  | [] => some []
  | k :: v :: r => (rpairUp r).map ((k, v) :: ·)
  | _ => none
partial def parseRFields : List String → List (Bytes × Bool × Option Bytes × RVal) → Option (List (Bytes × Bool × Option Bytes × RVal) × List String)
  | [], _ => none
  | ")" :: rest, acc => some (acc.reverse, rest)
  | hd :: toks, acc =>
    match hd.splitOn ":" with
    | [name, flags] => do
      let (v, r) ← parseRVal toks
      let exported := flags.startsWith "e"
      let tag : Option Bytes := match flags.splitOn "=" with
        | [_, t] => some (sb t)
        | _ => none
      parseRFields r ((sb name, exported, tag, v) :: acc)
    | _ => none
end

/-- A Python object of the basic types, written in the value syntax. -/
partial def pyObjOfGo : GoVal → Option PyObj
  | .none => some .none
  | .bool b => some (.bool b)
  | .int i => some (.int i)
  | .big _ i => some (.int i)
  | .float f => some (.float f)
  | .str s => some (.str s)
  | .bytes s => some (.bytes s)
  | .bytearray s => some (.bytearray s)
  | .tuple xs => (xs.mapM pyObjOfGo).map .tuple
  | .list xs => (xs.mapM pyObjOfGo).map .list
  | .dict kvs => (kvs.mapM fun (k, v) => do pure ((← pyObjOfGo k), (← pyObjOfGo v))).map .dict
  | .map kvs => (kvs.mapM fun (k, v) => do pure ((← pyObjOfGo k), (← pyObjOfGo v))).map .dict
  | _ => none

/-- The memo indices fetched by the GET instructions of a pickle. -/
partial def getKeys (bs : Bytes) (acc : List Nat) : List Nat :=
  match parseInsn bs with
  | .ok (.get k, rest) => getKeys rest ((parseDigits? k).getD 0 :: acc)
  | .ok (.stop, _) => acc
  | .ok (_, rest) => if rest.length < bs.length then getKeys rest acc else acc
  | .error _ => acc

/-- A Python object with identities: a str / bytes / bytearray leaf is written `c( C<hex "id">.<hex decimal id> leaf )`. -/
partial def pyObjSOfGo : GoVal → Option PyObjS
  | .none => some .none
  | .bool b => some (.bool b)
  | .int i => some (.int i)
  | .big _ i => some (.int i)
  | .float f => some (.float f)
  | .call m n [leaf] =>
    if m == sb "id" then
      match parseDigits? n, leaf with
      | some k, .str s => some (.str k s)
      | some k, .bytes s => some (.bytes k s)
      | some k, .bytearray s => some (.bytearray k s)
      | _, _ => none
    else none
  | .tuple xs => (xs.mapM pyObjSOfGo).map .tuple
  | .list xs => (xs.mapM pyObjSOfGo).map .list
  | .dict kvs => (kvs.mapM fun (k, v) => do pure ((← pyObjSOfGo k), (← pyObjSOfGo v))).map .dict
  | .map kvs => (kvs.mapM fun (k, v) => do pure ((← pyObjSOfGo k), (← pyObjSOfGo v))).map .dict
  | _ => none

def handle (line : String) : String :=
  match (line.splitOn " ").filter (· ≠ "") with
  | ["dec", cfg, hook, hex] =>
    match parseCfg cfg, parseHook hook, bytesOfHex? hex with
    | some c, some h, some inp => runDec (goCfg c) h inp
    | _, _, _ => "BADCASE"
  | ["decref", cfg, hook, hex] =>
    match parseCfg cfg, parseHook hook, bytesOfHex? hex with
    | some c, some h, some inp => runDec (refCfg c) h inp
    | _, _, _ => "BADCASE"
  | ["cuts", cfg, hex] =>
    match parseCfg cfg, bytesOfHex? hex with
    | some c, some inp => runCuts (goCfg c) inp
    | _, _ => "BADCASE"
  | ["dech", cfg, hook, hex] =>
    match parseCfg cfg, parseHook hook, bytesOfHex? hex with
    | some c, some h, some inp => runDecH (goCfg c) h inp
    | _, _, _ => "BADCASE"
  | ["decs", cfg, hook, hex] =>
    match parseCfg cfg, parseHook hook, bytesOfHex? hex with
    | some c, some h, some inp => runDecs (goCfg c) h {} inp [] 64
    | _, _, _ => "BADCASE"
  | ["decsp", cfg, hook, hex] =>      -- the same, OpcodeError printed with its position
    match parseCfg cfg, parseHook hook, bytesOfHex? hex with
    | some c, some h, some inp => runDecs (goCfg c) h {} inp [] 64 classOfP
    | _, _, _ => "BADCASE"
  | ["decp", cfg, hook, hex] =>
    match parseCfg cfg, parseHook hook, bytesOfHex? hex with
    | some c, some h, some inp =>
      match decode (goCfg c) h {} inp with
      | (.ok v, st, rest) => s!"OK {renderResolved st v} {inp.length - rest.length}"
      | (.error e, _, _) => s!"ERR {classOfP e}"
    | _, _, _ => "BADCASE"
  | "enc" :: proto :: su :: rh :: toks =>
    match proto.toInt?, parseRefHook rh, parseValue? toks with
    | some p, some g, some v => showOut (encodeTop ip { proto := p, su := su == "1" } g v)
    | _, _, _ => "BADCASE"
  | "encf" :: proto :: su :: k :: toks =>
    match proto.toInt?, k.toNat?, parseValue? toks with
    | some p, some k, some v =>
      let f := withFault k (encodeTop ip { proto := p, su := su == "1" } none v)
      s!"{f.writes} {if f.injected then 1 else 0} {match f.err with | some e => e.render | none => "-"}"
    | _, _, _ => "BADCASE"
  | "encfh" :: proto :: su :: rh :: k :: toks =>
    match proto.toInt?, parseRefHook rh, k.toNat?, parseValue? toks with
    | some p, some g, some k, some v =>
      let f := withFault k (encodeTop ip { proto := p, su := su == "1" } g v)
      s!"{f.writes} {if f.injected then 1 else 0} {match f.err with | some e => e.render | none => "-"}"
    | _, _, _, _ => "BADCASE"
  | "cpk" :: framed :: proto :: toks =>      -- the model of CPython's pickler; then, per decoder mode, whether `pkOKb` holds
    match proto.toNat?, (parseValue? toks).bind pyObjOfGo with
    | some p, some v =>
      match (if framed == "1" then cpDumpsFramed false p v else if framed == "P" then cpDumps true p v else cpDumps false p v) with
      | some bs =>
        let flag (pd : Bool) : String := if pkOKb { pyDict := pd, su := false } v then "1" else "0"
        "OK " ++ hexOfBytes bs ++ " " ++ flag false ++ flag true ++ (if p ≥ 1 || pyFloatsOKb v then "1" else "0")
      | none => "UNMODELLED"
    | _, _ => "BADCASE"
  | ["dechref", cfg, hook, hex] =>      -- `dech` on the list-by-reference machine (K1 classification)
    match parseCfg cfg, parseHook hook, bytesOfHex? hex with
    | some c, some h, some inp => runDecH (refCfg c) h inp
    | _, _, _ => "BADCASE"
  | "cpks" :: framed :: proto :: toks =>      -- the pickler model with the memo read (shared leaves, low-protocol bytes)
    -- framed: 0 = C pickler, frames taken out; 1 = C pickler with its one frame; P = pure-Python pickler; O = pickletools.optimize
    match proto.toNat?, (parseValue? toks).bind pyObjSOfGo with
    | some p, some v =>
      let all : Option PKey → Bool := fun _ => true
      -- what optimize keeps: the PUTs of objects that are fetched again in the full pickle
      let full := cpSaveS all false p v ⟨0, []⟩
      let gets : List Nat := match full with
        | some (bs, _) => getKeys bs []
        | none => []
      let tab : List (PKey × Nat) := match full with
        | some (_, st) => st.tab.filter fun e => gets.contains e.2
        | none => []
      let mzO : Option PKey → Bool := fun key => match key with
        | none => false
        | some k => tab.any fun e => decide (e.1 = k)
      match (if framed == "1" then cpDumpsFramedS all false p v else if framed == "P" then cpDumpsS all true p v
             else if framed == "O" then cpDumpsS mzO false p v else cpDumpsS all false p v) with
      | some bs =>
        let flag (pd : Bool) : String := if pkOKb { pyDict := pd, su := false } (erase v) then "1" else "0"
        "OK " ++ hexOfBytes bs ++ " " ++ flag false ++ flag true ++ (if pyOKb (erase v) then "1" else "0") ++
          (if p ≥ 1 || pyFloatsOKb (erase v) then "1" else "0")
      | none => "UNMODELLED"
    | _, _ => "BADCASE"
  | ["ftok", which, hex] =>      -- the protocol-0 float-text hypothesis, evaluated: g = Go's %g (floatTextOKb), p = Python's repr (pyFloatTextOKb)
    match bytesOfHex? hex with
    | some bs =>
      if bs.length != 8 then "BADCASE" else
      let f : F64 := UInt64.ofNat (bs.foldl (fun acc b => acc * 256 + b.toNat) 0)
      if which == "g" then (if floatTextOKb f then "1" else "0") else (if pyFloatTextOKb f then "1" else "0")
    | none => "BADCASE"
  | ["py2str", proto, put, hex] =>      -- what Python 2's picklers write for a str (put: the memo index written, or -)
    match proto.toNat?, bytesOfHex? hex with
    | some p, some bs =>
      if put == "-" then "OK " ++ hexOfBytes (py2StrPickle p none bs)
      else match put.toNat? with
        | some n => "OK " ++ hexOfBytes (py2StrPickle p (some n) bs)
        | none => "BADCASE"
    | _, _ => "BADCASE"
  | ["py2ba", proto, g, t, l, a, r, hex] =>      -- bytearray(text, 'latin-1') as Python 2 writes it; the five memo PUTs: an index or -
    let opt (x : String) : Option (Option Nat) := if x == "-" then some none else x.toNat?.map some
    match proto.toNat?, opt g, opt t, opt l, opt a, opt r, bytesOfHex? hex with
    | some p, some g, some t, some l, some a, some r, some bs =>
      if p == 0 then
        match py2BytearrayPickle0 ⟨g, t, l, a, r⟩ bs with
        | some out => "OK " ++ hexOfBytes out
        | none => "UNMODELLED"
      else "OK " ++ hexOfBytes (py2BytearrayPickle p ⟨g, t, l, a, r⟩ bs)
    | _, _, _, _, _, _, _ => "BADCASE"
  | ["py2uni", proto, put, hex] =>      -- what Python 2's picklers write for a unicode object
    match proto.toNat?, bytesOfHex? hex with
    | some p, some bs =>
      let o : Option (Option Nat) := if put == "-" then some none else put.toNat?.map some
      match o with
      | some pt =>
        match py2UnicodePickle p pt bs with
        | some out => "OK " ++ hexOfBytes out
        | none => "UNMODELLED"
      | none => "BADCASE"
    | _, _ => "BADCASE"
  | ["py2repr", hex] =>      -- repr of a Python-2 str (the STRING argument Python 2's pickler writes)
    match bytesOfHex? hex with
    | some bs => "OK " ++ hexOfBytes (py2repr bs)
    | none => "BADCASE"
  | ["pvm", hex] =>
    match bytesOfHex? hex with
    | some bs =>
      match pvmLoad bs with
      | (.ok v, st, rest) => "OK " ++ (pyResolve st.heap [] v).render ++ s!" {bs.length - rest.length}"
      | (.error .exc, _, _) => "EXC"
      | (.error .unmodelled, _, _) => "UNMODELLED"
      | (.error .fuel, _, _) => "FUEL"
    | none => "BADCASE"
  | "rt" :: proto :: cfg :: toks =>
    match proto.toInt?, parseCfg cfg, parseValue? toks with
    | some p, some c, some v =>
      let o := encodeTop ip { proto := p, su := c.su } none v
      match o.err with
      | some e => s!"ENCERR {e.render}"
      | none => runDec (goCfg c) none (joinChunks o)
    | _, _, _ => "BADCASE"
  | ["conv", cfg, hex] =>
    match parseCfg cfg, bytesOfHex? hex with
    | some c, some inp => runConv (goCfg c) inp
    | _, _ => "BADCASE"
  | "dict" :: _ => runDict (line.drop 5).toString
  | "dictz" :: _ => runDict (line.drop 6).toString      -- the zero-value Dict: empty
  | ["scan", proto, hex] =>
    match proto.toNat?, bytesOfHex? hex with
    | some p, some b =>
      match conforms p b with
      | .ok _ => "OK"
      | .error e => "BAD " ++ e
    | _, _ => "BADCASE"
  | ["optable"] =>
    " ".intercalate (opTable.map fun o => s!"{o.code.toNat}:{o.name}:{o.proto}:{repr o.arg}")
  | "encr" :: proto :: su :: toks =>
    match proto.toInt?, parseRVal toks with
    | some p, some (v, []) => showOut (encodeTopR ip { proto := p, su := su == "1" } v)
    | _, _ => "BADCASE"
  | "encrf" :: proto :: su :: k :: toks =>
    match proto.toInt?, k.toNat?, parseRVal toks with
    | some p, some k, some (v, []) =>
      let f := withFault k (encodeTopR ip { proto := p, su := su == "1" } v)
      s!"{f.writes} {if f.injected then 1 else 0} {match f.err with | some e => e.render | none => "-"}"
    | _, _, _ => "BADCASE"
  | ["reenc", cfg, hex] =>
    match parseCfg cfg, bytesOfHex? hex with
    | some c, some inp => runReenc c inp
    | _, _ => "BADCASE"
  | ["long", hex] =>
    match bytesOfHex? hex with
    | some b => s!"{decodeLong b}"
    | none => "BADCASE"
  | ["quote", fn, hex] =>
    match bytesOfHex? hex with
    | some b =>
      if fn == "pyquote" then hexOrDash (pyquote ip b)
      else if fn == "decse" then
        match pydecodeStringEscape b with
        | .ok r => "OK " ++ hexOrDash r
        | .error .syntax => "ERR"
        | .error .panic => "PANIC"
      else if fn == "encrue" then
        match pyencodeRawUnicodeEscape b with
        | some r => "OK " ++ hexOrDash r
        | none => "ERR"
      else if fn == "decrue" then
        match pydecodeRawUnicodeEscape b with
        | .ok r => "OK " ++ hexOrDash r
        | .error _ => "ERR"
      else "BADCASE"
    | none => "BADCASE"
  | "eq" :: toks =>
    -- two values separated by `;`
    let (a, b) := toks.span (· ≠ ";")
    match parseValue? a, parseValue? (b.drop 1) with
    | some x, some y =>
      let e := if goEqual x y then "1" else "0"
      let h := match hashTree x, hashTree y with
        | some t, some u => if HTree.beq t u then "1" else "0"
        | _, _ => "U"
      s!"{e} {h}"
    | _, _ => "BADCASE"
  | _ => "BADCASE"

end Ogorek.Driver
