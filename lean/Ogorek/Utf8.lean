import Ogorek.Basic

/-!
  Go's `unicode/utf8`: `DecodeRuneInString` (RuneError/width 1 on anything invalid)
  and the rune → bytes conversion used by `string([]rune)`.
-/
namespace Ogorek

def runeError : Nat := 0xFFFD

def isCont (b : UInt8) : Bool := 0x80 ≤ b && b ≤ 0xBF

/-- `utf8.DecodeRuneInString`: `(rune, width)`; width 0 only on empty input. -/
def decodeRune : Bytes → Nat × Nat
  | [] => (runeError, 0)
  | b0 :: rest =>
    if b0 < 0x80 then (b0.toNat, 1)
    else if b0 < 0xC2 then (runeError, 1)
    else if b0 < 0xE0 then
      match rest with
      | b1 :: _ =>
        if isCont b1 then ((b0.toNat % 32) * 64 + b1.toNat % 64, 2) else (runeError, 1)
      | _ => (runeError, 1)
    else if b0 < 0xF0 then
      match rest with
      | b1 :: b2 :: _ =>
        let lo : UInt8 := if b0 = 0xE0 then 0xA0 else 0x80
        let hi : UInt8 := if b0 = 0xED then 0x9F else 0xBF
        if lo ≤ b1 && b1 ≤ hi && isCont b2 then
          ((b0.toNat % 16) * 4096 + (b1.toNat % 64) * 64 + b2.toNat % 64, 3)
        else (runeError, 1)
      | _ => (runeError, 1)
    else if b0 < 0xF5 then
      match rest with
      | b1 :: b2 :: b3 :: _ =>
        let lo : UInt8 := if b0 = 0xF0 then 0x90 else 0x80
        let hi : UInt8 := if b0 = 0xF4 then 0x8F else 0xBF
        if lo ≤ b1 && b1 ≤ hi && isCont b2 && isCont b3 then
          ((b0.toNat % 8) * 262144 + (b1.toNat % 64) * 4096 + (b2.toNat % 64) * 64 + b3.toNat % 64, 4)
        else (runeError, 1)
      | _ => (runeError, 1)
    else (runeError, 1)

/-- `utf8.ValidRune`. -/
def validRune (r : Nat) : Bool := r < 0xD800 || (0xE000 ≤ r && r ≤ 0x10FFFF)

/-- `utf8.AppendRune` / `string(rune)`: invalid runes become U+FFFD. -/
def encodeRune (r : Nat) : Bytes :=
  if r < 0x80 then [UInt8.ofNat r]
  else if r < 0x800 then [UInt8.ofNat (0xC0 + r / 64), UInt8.ofNat (0x80 + r % 64)]
  else if !validRune r then [0xEF, 0xBF, 0xBD]
  else if r < 0x10000 then
    [UInt8.ofNat (0xE0 + r / 4096), UInt8.ofNat (0x80 + (r / 64) % 64), UInt8.ofNat (0x80 + r % 64)]
  else
    [UInt8.ofNat (0xF0 + r / 262144), UInt8.ofNat (0x80 + (r / 4096) % 64),
     UInt8.ofNat (0x80 + (r / 64) % 64), UInt8.ofNat (0x80 + r % 64)]

/-- All runes of a Go string (`for _, r := range s`), invalid bytes as RuneError; with fuel
    equal to the length so the definition is structural. -/
def runesAux : Nat → Bytes → List (Nat × Nat)
  | 0, _ => []
  | fuel + 1, s =>
    match decodeRune s with
    | (_, 0) => []
    | (r, w) => (r, w) :: runesAux fuel (s.drop w)

def runes (s : Bytes) : List (Nat × Nat) := runesAux s.length s

/-- `utf8.ValidString`. -/
def validUtf8 (s : Bytes) : Bool := (runes s).all fun (r, w) => !(r == runeError && w == 1)

end Ogorek
