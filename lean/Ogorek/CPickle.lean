import Ogorek.Encoder
import Ogorek.Float
import Ogorek.Lemmas.Num

/-!
  A model of CPython's pickler (`_pickle.c`, `pickle.dumps`) on tree-shaped objects of the basic
  types — None, bool, int, float, str, bytes, bytearray, tuple, list, dict — for protocols 0-5.

  What is modelled: the opcode chosen for every value and protocol (`save_long`, `save_float`,
  `save_unicode`, `save_bytes`, `save_bytearray`, `save_tuple`, `save_list` / `batch_list_exact`,
  `save_dict` / `batch_dict_exact` with their batches of 1000 — including the empty `MARK SETITEMS`
  the C pickler writes after a dict whose size is a multiple of 1000), and the memo: every str,
  bytes, bytearray, non-empty tuple, list and dict is memoized right where CPython memoizes it
  (`p<n>\n` / BINPUT / LONG_BINPUT / MEMOIZE with the running index).

  What is not: object identity.  The model is of objects in which no memoized object occurs twice
  (so the pickler never writes a GET) — the tie builds such objects and checks that precondition on
  the real ones.  Bytes below protocol 3 and bytearray below protocol 5 are written by CPython through
  a memoized global (`_codecs.encode`, `bytearray`), which a second such object fetches with GET: the
  model gives `none` there (unmodelled).  Framing (protocol 4+) is modelled for the one-frame case.
-/
namespace Ogorek

inductive PyObj where
  | none
  | bool (b : Bool)
  | int (i : Int)
  | float (f : F64)
  | str (s : Bytes)          -- the text as UTF-8
  | bytes (s : Bytes)
  | bytearray (s : Bytes)
  | tuple (xs : List PyObj)
  | list (xs : List PyObj)
  | dict (kvs : List (PyObj × PyObj))
  deriving Inhabited

def batchSize : Nat := 1000

def fits32 (i : Int) : Bool := decide (-(2 : Int) ^ 31 ≤ i) && decide (i ≤ (2 : Int) ^ 31 - 1)

/-- `n` fits two's complement on `k` bytes. -/
def fitsTwos (k : Nat) (n : Int) : Bool := decide (-((256 : Int) ^ k) ≤ 2 * n) && decide (2 * n < (256 : Int) ^ k)

/-- The least width `≥ k` on which `n` fits (`encode_long` / `_PyLong_AsByteArray` after trimming). -/
def long1WidthFrom : Nat → Nat → Int → Nat
  | 0, k, _ => k
  | fuel + 1, k, n => if fitsTwos k n then k else long1WidthFrom fuel (k + 1) n

def long1Width (n : Int) : Nat := long1WidthFrom (n.natAbs + 1) 1 n

/-- `repr(float)` (`float_repr_style = 'short'`). -/
def pyFloatRepr (f : F64) : Bytes :=
  if F64.isNaN f then sb "nan"
  else if F64.isInf f then (if F64.signBit f then sb "-inf" else sb "inf")
  else
    let sign : Bytes := if F64.signBit f then [45] else []
    if F64.isZero f then sign ++ sb "0.0"
    else
      let (ds, dp) := F64.shortest f
      let nd := ds.length
      let ex := dp - 1
      if ex < -4 || ex ≥ 16 then
        let frac := ds.drop 1
        let mantissa := ds.take 1 ++ (if frac.isEmpty then [] else 46 :: frac)
        let esign : UInt8 := if ex < 0 then 45 else 43
        sign ++ mantissa ++ [101, esign] ++ F64.pad2 ex.natAbs
      else
        let ip : Bytes :=
          if dp > 0 then ds.take dp.toNat ++ List.replicate (dp.toNat - nd) 48 else [48]
        let nfrac : Nat := ((nd : Int) - dp).toNat
        let fp : Bytes :=
          if nfrac == 0 then [46, 48]
          else 46 :: (List.replicate (-dp).toNat 48 ++ ds.drop dp.toNat)
        sign ++ ip ++ fp

/-- `raw_unicode_escape` of `_pickle.c` (3.8+): like the codec, and `\\`, LF, CR, NUL and 0x1a are
    written as `\u00XX` as well.  `none`: not valid UTF-8 (lone surrogates — not modelled). -/
def cpRueAux : Nat → Bytes → Option Bytes
  | 0, _ => some []
  | fuel + 1, s =>
    match decodeRune s with
    | (_, 0) => some []
    | (r, w) =>
      if r = runeError && w = 1 then none
      else
        let piece : Bytes :=
          if r = 92 || r = 10 || r = 13 || r = 0 || r = 26 then [92, 117, 48, 48, hexLower (r / 16), hexLower r]
          else if r ≥ 0x10000 then
            [92, 85] ++ (List.range 8).map fun i => hexLower (r / 16 ^ (7 - i))
          else if r ≥ 0x100 then
            [92, 117] ++ (List.range 4).map fun i => hexLower (r / 16 ^ (3 - i))
          else [UInt8.ofNat r]
        (piece ++ ·) <$> cpRueAux fuel (s.drop w)

def cpRue (s : Bytes) : Option Bytes := cpRueAux s.length s

/-- `memo_put`: the memo index is the number of objects memoized so far. -/
def cpPut (p n : Nat) : Bytes :=
  if p ≥ 4 then [0x94]
  else if p ≥ 1 then (if n < 256 then [113, UInt8.ofNat n] else 114 :: le4 n)
  else 112 :: natDigits n ++ [10]

def ecfg (p : Nat) : ECfg := ⟨(p : Int), true⟩

/-- `save_long`. `none`: LONG4 (more than 255 bytes; og-rek has no LONG4). -/
def cpInt (p : Nat) (i : Int) : Option Bytes :=
  if fits32 i then some (encodeInt (ecfg p) i).chunks.flatten
  else if p ≥ 2 then
    let k := long1Width i
    if k < 256 then some (0x8a :: UInt8.ofNat k :: twos k i) else none
  else some (encodeLong i).chunks.flatten

/-- `save_float`. -/
def cpFloat (p : Nat) (f : F64) : Bytes :=
  if p ≥ 1 then 71 :: natBE 8 f.toNat else 70 :: pyFloatRepr f ++ [10]

/-- `save_unicode`, without the memo. `none`: BINUNICODE8, or not UTF-8 at protocol 0. -/
def cpStr (p : Nat) (s : Bytes) : Option Bytes :=
  if p ≥ 1 then
    if s.length < 2 ^ 32 then some (encodeUnicode (ecfg p) s).chunks.flatten else none
  else match cpRue s with
    | some u => some (86 :: u ++ [10])
    | none => none

/-- `save_bytes` from protocol 3 on, without the memo. -/
def cpBytes (p : Nat) (s : Bytes) : Option Bytes :=
  if p ≥ 3 ∧ s.length < 2 ^ 32 then
    some ((if s.length < 256 then [67, UInt8.ofNat s.length] else 66 :: le4 s.length) ++ s)
  else none

/-- `save_bytearray` at protocol 5, without the memo. -/
def cpBytearray (p : Nat) (s : Bytes) : Option Bytes :=
  if p ≥ 5 then some (0x96 :: le8 s.length ++ s) else none

/-- `batch_list_exact` over the already pickled items. -/
def cpBatchListLoop : Nat → List Bytes → Bytes
  | 0, _ => []
  | fuel + 1, fs =>
    if fs.isEmpty then []
    else 40 :: (fs.take batchSize).flatten ++ 101 :: cpBatchListLoop fuel (fs.drop batchSize)

/-- `_batch_appends` of the pure-Python pickler: batches of 1000; a batch of one item is written with APPEND;
    a batch shorter than 1000 ends the loop. -/
def pyBatchLoop (c1 cn : UInt8) : Nat → List Bytes → Bytes
  | 0, _ => []
  | fuel + 1, fs =>
    (if (fs.take batchSize).length > 1 then 40 :: (fs.take batchSize).flatten ++ [cn]
     else if (fs.take batchSize).length = 1 then (fs.take batchSize).flatten ++ [c1] else []) ++
    (if (fs.take batchSize).length < batchSize then [] else pyBatchLoop c1 cn fuel (fs.drop batchSize))

/-- `py`: the pure-Python pickler (`pickle._Pickler`) instead of the C one — they differ in how the last batch is written. -/
def cpBatchList (py : Bool) (p : Nat) (fs : List Bytes) : Bytes :=
  if p = 0 then (fs.map (· ++ [97])).flatten
  else if py then pyBatchLoop 97 101 (fs.length + 1) fs
  else match fs with
    | [] => []
    | [f] => f ++ [97]
    | _ => cpBatchListLoop fs.length fs

/-- `batch_dict_exact` over the already pickled `key value` pairs: after a full batch the loop goes
    round once more, even with nothing left. -/
def cpBatchDictLoop : Nat → List Bytes → Bytes
  | 0, _ => []
  | fuel + 1, fs =>
    40 :: (fs.take batchSize).flatten ++ 117 ::
      (if fs.length ≥ batchSize then cpBatchDictLoop fuel (fs.drop batchSize) else [])

def cpBatchDict (py : Bool) (p : Nat) (fs : List Bytes) : Bytes :=
  if p = 0 then (fs.map (· ++ [115])).flatten
  else if py then pyBatchLoop 115 117 (fs.length + 1) fs
  else match fs with
    | [] => []
    | [f] => f ++ [115]
    | _ => cpBatchDictLoop (fs.length + 1) fs

/-- Emit after the items of a tuple. -/
def cpTupleClose (p l n : Nat) : Bytes :=
  (if p ≥ 2 ∧ l ≤ 3 then [if l = 1 then 0x85 else if l = 2 then 0x86 else 0x87] else [116]) ++ cpPut p n

mutual
/-- `save(obj)`: the bytes written and the memo counter afterwards; `none` = outside the model. -/
def cpSave (py : Bool) (p : Nat) : PyObj → Nat → Option (Bytes × Nat)
  | .none, n => some ([78], n)
  | .bool b, n => some ((encodeBool (ecfg p) b).chunks.flatten, n)
  | .int i, n => (cpInt p i).map (·, n)
  | .float f, n => some (cpFloat p f, n)
  | .str s, n => (cpStr p s).map fun b => (b ++ cpPut p n, n + 1)
  | .bytes s, n => (cpBytes p s).map fun b => (b ++ cpPut p n, n + 1)
  | .bytearray s, n => (cpBytearray p s).map fun b => (b ++ cpPut p n, n + 1)
  | .tuple xs, n =>
    if xs.isEmpty then some (if p ≥ 1 then [41] else [40, 116], n)
    else match cpSaveList py p xs n with
      | some (fs, n') =>
        some ((if p ≥ 2 ∧ xs.length ≤ 3 then [] else [40]) ++ fs.flatten ++ cpTupleClose p xs.length n', n' + 1)
      | none => none
  | .list xs, n =>
    match cpSaveList py p xs (n + 1) with
    | some (fs, n') => some ((if p ≥ 1 then [93] else [40, 108]) ++ cpPut p n ++ cpBatchList py p fs, n')
    | none => none
  | .dict kvs, n =>
    match cpSavePairs py p kvs (n + 1) with
    | some (fs, n') => some ((if p ≥ 1 then [125] else [40, 100]) ++ cpPut p n ++ cpBatchDict py p fs, n')
    | none => none
def cpSaveList (py : Bool) (p : Nat) : List PyObj → Nat → Option (List Bytes × Nat)
  | [], n => some ([], n)
  | x :: xs, n =>
    match cpSave py p x n with
    | some (b, n1) =>
      match cpSaveList py p xs n1 with
      | some (fs, n2) => some (b :: fs, n2)
      | none => none
    | none => none
def cpSavePairs (py : Bool) (p : Nat) : List (PyObj × PyObj) → Nat → Option (List Bytes × Nat)
  | [], n => some ([], n)
  | (k, v) :: r, n =>
    match cpSave py p k n with
    | some (bk, n1) =>
      match cpSave py p v n1 with
      | some (bv, n2) =>
        match cpSavePairs py p r n2 with
        | some (fs, n3) => some ((bk ++ bv) :: fs, n3)
        | none => none
      | none => none
    | none => none
end

/-- `dumps(obj, p)` without framing: PROTO (from 2 on), the object, STOP. -/
def cpDumpsBody (py : Bool) (p : Nat) (v : PyObj) : Option Bytes :=
  (cpSave py p v 0).map fun (b, _) => b ++ [46]

def cpDumps (py : Bool) (p : Nat) (v : PyObj) : Option Bytes :=
  (cpDumpsBody py p v).map fun b => (if p ≥ 2 then [0x80, UInt8.ofNat p] else []) ++ b

/-- `dumps(obj, p)` as CPython frames it when everything fits one frame (protocol 4+: a FRAME
    with the length of what follows, when that is at least 4 bytes). -/
def cpDumpsFramed (py : Bool) (p : Nat) (v : PyObj) : Option Bytes :=
  (cpDumpsBody py p v).map fun b =>
    (if p ≥ 2 then [0x80, UInt8.ofNat p] else []) ++
      (if p ≥ 4 ∧ b.length ≥ 4 then 0x95 :: le8 b.length else []) ++ b

/-! ### what og-rek is documented to return for such an object -/

mutual
def goOf : PyObj → GoVal
  | .none => .none
  | .bool b => .bool b
  | .int i => if fits32 i then .int i else .big 0 i
  | .float f => .float f
  | .str s => .str s
  | .bytes s => .bytes s
  | .bytearray s => .bytearray s
  | .tuple xs => .tuple (goOfList xs)
  | .list xs => .list (goOfList xs)
  | .dict kvs => .dict (goOfPairs kvs)
def goOfList : List PyObj → List GoVal
  | [] => []
  | x :: xs => goOf x :: goOfList xs
def goOfPairs : List (PyObj × PyObj) → List (GoVal × GoVal)
  | [] => []
  | (k, v) :: r => (goOf k, goOf v) :: goOfPairs r
end

end Ogorek
