import Ogorek.CPickle
import Ogorek.Lemmas.Latin1

/-!
  The model of CPython's pickler with its memo *read* as well: objects in which str, bytes and
  bytearray objects may occur any number of times (CPython interns short strings; the keys of
  records repeat), and bytes / bytearray at the protocols that have no opcode for them — written as
  `_codecs.encode(text, 'latin1')` / `bytearray(bytes)` / `bytes()` through globals that are memoized
  the first time and fetched with GET afterwards, as is the string `'latin1'`.

  Identity is part of the object: every str / bytes / bytearray node carries an object id; the memo is
  looked up by (id, content), which for a real object graph — same id, same content — is lookup by id.
  Containers are still tree-shaped (a container that occurs twice makes the pickler fetch a list or a
  dict, which is finding K1's subject).
-/
namespace Ogorek

inductive PyObjS where
  | none
  | bool (b : Bool)
  | int (i : Int)
  | float (f : F64)
  | str (oid : Nat) (s : Bytes)
  | bytes (oid : Nat) (s : Bytes)
  | bytearray (oid : Nat) (s : Bytes)
  | tuple (xs : List PyObjS)
  | list (xs : List PyObjS)
  | dict (kvs : List (PyObjS × PyObjS))
  deriving Inhabited

mutual
/-- Forget the identities. -/
def erase : PyObjS → PyObj
  | .none => .none
  | .bool b => .bool b
  | .int i => .int i
  | .float f => .float f
  | .str _ s => .str s
  | .bytes _ s => .bytes s
  | .bytearray _ s => .bytearray s
  | .tuple xs => .tuple (eraseList xs)
  | .list xs => .list (eraseList xs)
  | .dict kvs => .dict (erasePairs kvs)
def eraseList : List PyObjS → List PyObj
  | [] => []
  | x :: xs => erase x :: eraseList xs
def erasePairs : List (PyObjS × PyObjS) → List (PyObj × PyObj)
  | [] => []
  | (k, v) :: r => (erase k, erase v) :: erasePairs r
end

/-- What the pickler's memo is keyed by. -/
inductive PKey where
  | str (oid : Nat) (s : Bytes)
  | bytes (oid : Nat) (s : Bytes)
  | bytearray (oid : Nat) (s : Bytes)
  | gEncode        -- the global `_codecs.encode`
  | sLatin1        -- the string 'latin1'
  | gBytes         -- the global `bytes`
  | gBytearray     -- the global `bytearray`
  deriving DecidableEq

/-- The pickler's memo: number of entries, and index by key for what may be fetched again. -/
structure PSt where
  n : Nat
  tab : List (PKey × Nat)

def PSt.find (s : PSt) (k : PKey) : Option Nat := (s.tab.find? fun e => decide (e.1 = k)).map (·.2)

/-- `memo_get`. -/
def cpGet (p idx : Nat) : Bytes :=
  if p ≥ 1 then (if idx < 256 then [104, UInt8.ofNat idx] else 106 :: le4 idx)
  else 103 :: natDigits idx ++ [10]

/-- `memo_put` under `key` (or for an object that is never fetched again). -/
def PSt.put (s : PSt) (key : Option PKey) : PSt :=
  ⟨s.n + 1, match key with | some k => (k, s.n) :: s.tab | none => s.tab⟩

def putS1 (p : Nat) (s : PSt) (key : Option PKey) : Option (Bytes × PSt) :=
  if s.n < 2 ^ 32 then some (cpPut p s.n, s.put key) else none

/-- `mz key`: is this object memoized at all?  Always, for the picklers; `pickletools.optimize` keeps only the PUTs whose
    object is fetched again (and renumbers them, which the running index `s.n` does by itself). -/
def putS (mz : Option PKey → Bool) (p : Nat) (s : PSt) (key : Option PKey) : Option (Bytes × PSt) :=
  if mz key then putS1 p s key else some ([], s)

/-- `save_unicode`: looked up under `key`, memoized under `putKey` (the same, except where the pure-Python pickler
    memoizes a copy — see `strCopied`). -/
def saveStrS (mz : Option PKey → Bool) (p : Nat) (s : PSt) (key putKey : Option PKey) (txt : Bytes) : Option (Bytes × PSt) :=
  match key.bind s.find with
  | some idx => some (cpGet p idx, s)
  | none =>
    match cpStr p txt with
    | some b =>
      match putS mz p s putKey with
      | some (pb, s') => some (b ++ pb, s')
      | none => none
    | none => none

/-- At protocol 0 the pure-Python pickler of CPython 3.11 escapes backslash, NUL, LF, CR and 0x1a with `str.replace` and then
    memoizes the RESULT: when something was replaced that is a new object, so the original is never found in the memo and a
    repeated string is written again in full. -/
def strCopied (py : Bool) (p : Nat) (txt : Bytes) : Bool :=
  py && p == 0 && txt.any fun b => b == 92 || b == 0 || b == 10 || b == 13 || b == 26

/-- `save_global` of one of the three builtins. -/
def saveGlobalS (mz : Option PKey → Bool) (p : Nat) (s : PSt) (key : PKey) (m n : Bytes) : Option (Bytes × PSt) :=
  match s.find key with
  | some idx => some (cpGet p idx, s)
  | none =>
    if p ≥ 4 then
      match saveStrS mz p s none none m with
      | some (b1, s1) =>
        match saveStrS mz p s1 none none n with
        | some (b2, s2) =>
          match putS mz p s2 (some key) with
          | some (pb, s3) => some (b1 ++ b2 ++ [0x93] ++ pb, s3)
          | none => none
        | none => none
      | none => none
    else
      match putS mz p s (some key) with
      | some (pb, s1) => some (99 :: m ++ [10] ++ n ++ [10] ++ pb, s1)
      | none => none

def emptyTupleBytes (p : Nat) : Bytes := if p ≥ 1 then [41] else [40, 116]

/-- `save_bytes`. -/
def saveBytesS (mz : Option PKey → Bool) (p : Nat) (s : PSt) (key : Option PKey) (d : Bytes) : Option (Bytes × PSt) :=
  match key.bind s.find with
  | some idx => some (cpGet p idx, s)
  | none =>
    if p ≥ 3 then
      match cpBytes p d with
      | some b =>
        match putS mz p s key with
        | some (pb, s') => some (b ++ pb, s')
        | none => none
      | none => none
    else if d.isEmpty then
      match saveGlobalS mz p s .gBytes (pybuiltinModuleE p) (sb "bytes") with
      | some (g, s1) =>
        match putS mz p s1 key with
        | some (pb, s2) => some (g ++ emptyTupleBytes p ++ [82] ++ pb, s2)
        | none => none
      | none => none
    else
      match saveGlobalS mz p s .gEncode (sb "_codecs") (sb "encode") with
      | some (g, s1) =>
        match saveStrS mz p s1 none none (latin1ToUtf8 d) with
        | some (b1, s2) =>
          match saveStrS mz p s2 (some .sLatin1) (some .sLatin1) (sb "latin1") with
          | some (b2, s3) =>
            match putS mz p s3 none with
            | some (pt, s4) =>
              match putS mz p s4 key with
              | some (pb, s5) =>
                some (g ++ ((if p ≥ 2 then [] else [40]) ++ (b1 ++ b2) ++ [if p ≥ 2 then 0x86 else 116] ++ pt) ++ [82] ++ pb, s5)
              | none => none
            | none => none
          | none => none
        | none => none
      | none => none

/-- `save_bytearray`. -/
def saveBytearrayS (mz : Option PKey → Bool) (p : Nat) (s : PSt) (key : Option PKey) (d : Bytes) : Option (Bytes × PSt) :=
  match key.bind s.find with
  | some idx => some (cpGet p idx, s)
  | none =>
    if p ≥ 5 then
      match cpBytearray p d with
      | some b =>
        match putS mz p s key with
        | some (pb, s') => some (b ++ pb, s')
        | none => none
      | none => none
    else
      match saveGlobalS mz p s .gBytearray (pybuiltinModuleE p) (sb "bytearray") with
      | some (g, s1) =>
        if d.isEmpty then
          match putS mz p s1 key with
          | some (pb, s2) => some (g ++ emptyTupleBytes p ++ [82] ++ pb, s2)
          | none => none
        else
          match saveBytesS mz p s1 none d with
          | some (bb, s2) =>
            match putS mz p s2 none with
            | some (pt, s3) =>
              match putS mz p s3 key with
              | some (pb, s4) =>
                some (g ++ ((if p ≥ 2 then [] else [40]) ++ bb ++ [if p ≥ 2 then 0x85 else 116] ++ pt) ++ [82] ++ pb, s4)
              | none => none
            | none => none
          | none => none
      | none => none

mutual
/-- `save(obj)` with the memo. -/
def cpSaveS (mz : Option PKey → Bool) (py : Bool) (p : Nat) : PyObjS → PSt → Option (Bytes × PSt)
  | .none, s => some ([78], s)
  | .bool b, s => some ((encodeBool (ecfg p) b).chunks.flatten, s)
  | .int i, s => (cpInt p i).map (·, s)
  | .float f, s => some (cpFloat p f, s)
  | .str oid t, s => saveStrS mz p s (some (.str oid t)) (if strCopied py p t then none else some (.str oid t)) t
  | .bytes oid d, s => saveBytesS mz p s (some (.bytes oid d)) d
  | .bytearray oid d, s => saveBytearrayS mz p s (some (.bytearray oid d)) d
  | .tuple xs, s =>
    if xs.isEmpty then some (emptyTupleBytes p, s)
    else match cpSaveListS mz py p xs s with
      | some (fs, s1) =>
        match putS mz p s1 none with
        | some (pb, s2) =>
          some ((if p ≥ 2 ∧ xs.length ≤ 3 then [] else [40]) ++ fs.flatten ++
            (if p ≥ 2 ∧ xs.length ≤ 3 then [if xs.length = 1 then 0x85 else if xs.length = 2 then 0x86 else 0x87] else [116]) ++ pb, s2)
        | none => none
      | none => none
  | .list xs, s =>
    match putS mz p s none with
    | some (pb, s1) =>
      match cpSaveListS mz py p xs s1 with
      | some (fs, s2) => some ((if p ≥ 1 then [93] else [40, 108]) ++ pb ++ cpBatchList py p fs, s2)
      | none => none
    | none => none
  | .dict kvs, s =>
    match putS mz p s none with
    | some (pb, s1) =>
      match cpSavePairsS mz py p kvs s1 with
      | some (fs, s2) => some ((if p ≥ 1 then [125] else [40, 100]) ++ pb ++ cpBatchDict py p fs, s2)
      | none => none
    | none => none
def cpSaveListS (mz : Option PKey → Bool) (py : Bool) (p : Nat) : List PyObjS → PSt → Option (List Bytes × PSt)
  | [], s => some ([], s)
  | x :: xs, s =>
    match cpSaveS mz py p x s with
    | some (b, s1) =>
      match cpSaveListS mz py p xs s1 with
      | some (fs, s2) => some (b :: fs, s2)
      | none => none
    | none => none
def cpSavePairsS (mz : Option PKey → Bool) (py : Bool) (p : Nat) : List (PyObjS × PyObjS) → PSt → Option (List Bytes × PSt)
  | [], s => some ([], s)
  | (k, v) :: r, s =>
    match cpSaveS mz py p k s with
    | some (bk, s1) =>
      match cpSaveS mz py p v s1 with
      | some (bv, s2) =>
        match cpSavePairsS mz py p r s2 with
        | some (fs, s3) => some ((bk ++ bv) :: fs, s3)
        | none => none
      | none => none
    | none => none
end

def cpDumpsBodyS (mz : Option PKey → Bool) (py : Bool) (p : Nat) (v : PyObjS) : Option Bytes :=
  (cpSaveS mz py p v ⟨0, []⟩).map fun (b, _) => b ++ [46]

def cpDumpsS (mz : Option PKey → Bool) (py : Bool) (p : Nat) (v : PyObjS) : Option Bytes :=
  (cpDumpsBodyS mz py p v).map fun b => (if p ≥ 2 then [0x80, UInt8.ofNat p] else []) ++ b

def cpDumpsFramedS (mz : Option PKey → Bool) (py : Bool) (p : Nat) (v : PyObjS) : Option Bytes :=
  (cpDumpsBodyS mz py p v).map fun b =>
    (if p ≥ 2 then [0x80, UInt8.ofNat p] else []) ++
      (if p ≥ 4 ∧ b.length ≥ 4 then 0x95 :: le8 b.length else []) ++ b

end Ogorek
