import Ogorek.CPickle
import Ogorek.Lemmas.Latin1

/-!
  The model of CPython's pickler with its memo *read* as well: objects in which str, bytes and
  bytearray objects may occur any number of times (CPython interns short strings; the keys of
  records repeat), and bytes / bytearray at the protocols that have no opcode for them — written as
  `_codecs.encode(text, 'latin1')` / `bytearray(bytes)` / `bytes()` through globals that are memoized
  the first time and fetched with GET afterwards, as is the string `'latin1'`.

  Identity is part of the object: every str / bytes / bytearray node carries an object id; the memo is
  looked up by (id, content), which for a real object graph — same id, same content — is lookup by id.
  Containers are still tree-shaped (a container that occurs twice makes the pickler fetch a list or a
  dict, which is finding K1's subject).
-/
namespace Ogorek

inductive PyObjS where
  | none
  | bool (b : Bool)
  | int (i : Int)
  | float (f : F64)
  | str (oid : Nat) (s : Bytes)
  | bytes (oid : Nat) (s : Bytes)
  | bytearray (oid : Nat) (s : Bytes)
  | tuple (xs : List PyObjS)
  | list (xs : List PyObjS)
  | dict (kvs : List (PyObjS × PyObjS))
  deriving Inhabited

mutual
/-- Forget the identities. -/
def erase : PyObjS → PyObj
  | .none => .none
  | .bool b => .bool b
  | .int i => .int i
  | .float f => .float f
  | .str _ s => .str s
  | .bytes _ s => .bytes s
  | .bytearray _ s => .bytearray s
  | .tuple xs => .tuple (eraseList xs)
  | .list xs => .list (eraseList xs)
  | .dict kvs => .dict (erasePairs kvs)
def eraseList : List PyObjS → List PyObj
  | [] => []
  | x :: xs => erase x :: eraseList xs
def erasePairs : List (PyObjS × PyObjS) → List (PyObj × PyObj)
  | [] => []
  | (k, v) :: r => (erase k, erase v) :: erasePairs r
end

/-- What the pickler's memo is keyed by. -/
inductive PKey where
  | str (oid : Nat) (s : Bytes)
  | bytes (oid : Nat) (s : Bytes)
  | bytearray (oid : Nat) (s : Bytes)
  | gEncode        -- the global `_codecs.encode`
  | sLatin1        -- the string 'latin1'
  | gBytes         -- the global `bytes`
  | gBytearray     -- the global `bytearray`
  deriving DecidableEq

/-- The pickler's memo: number of entries, and index by key for what may be fetched again. -/
structure PSt where
  n : Nat
  tab : List (PKey × Nat)

def PSt.find (s : PSt) (k : PKey) : Option Nat := (s.tab.find? fun e => decide (e.1 = k)).map (·.2)

/-- `memo_get`. -/
def cpGet (p idx : Nat) : Bytes :=
  if p ≥ 1 then (if idx < 256 then [104, UInt8.ofNat idx] else 106 :: le4 idx)
  else 103 :: natDigits idx ++ [10]

/-- `memo_put` under `key` (or for an object that is never fetched again). -/
def PSt.put (s : PSt) (key : Option PKey) : PSt :=
  ⟨s.n + 1, match key with | some k => (k, s.n) :: s.tab | none => s.tab⟩

def putS (p : Nat) (s : PSt) (key : Option PKey) : Option (Bytes × PSt) :=
  if s.n < 2 ^ 32 then some (cpPut p s.n, s.put key) else none

/-- `save_unicode`. -/
def saveStrS (p : Nat) (s : PSt) (key : Option PKey) (txt : Bytes) : Option (Bytes × PSt) :=
  match key.bind s.find with
  | some idx => some (cpGet p idx, s)
  | none =>
    match cpStr p txt with
    | some b =>
      match putS p s key with
      | some (pb, s') => some (b ++ pb, s')
      | none => none
    | none => none

/-- `save_global` of one of the three builtins. -/
def saveGlobalS (p : Nat) (s : PSt) (key : PKey) (m n : Bytes) : Option (Bytes × PSt) :=
  match s.find key with
  | some idx => some (cpGet p idx, s)
  | none =>
    if p ≥ 4 then
      match saveStrS p s none m with
      | some (b1, s1) =>
        match saveStrS p s1 none n with
        | some (b2, s2) =>
          match putS p s2 (some key) with
          | some (pb, s3) => some (b1 ++ b2 ++ [0x93] ++ pb, s3)
          | none => none
        | none => none
      | none => none
    else
      match putS p s (some key) with
      | some (pb, s1) => some (99 :: m ++ [10] ++ n ++ [10] ++ pb, s1)
      | none => none

def emptyTupleBytes (p : Nat) : Bytes := if p ≥ 1 then [41] else [40, 116]

/-- `save_bytes`. -/
def saveBytesS (p : Nat) (s : PSt) (key : Option PKey) (d : Bytes) : Option (Bytes × PSt) :=
  match key.bind s.find with
  | some idx => some (cpGet p idx, s)
  | none =>
    if p ≥ 3 then
      match cpBytes p d with
      | some b =>
        match putS p s key with
        | some (pb, s') => some (b ++ pb, s')
        | none => none
      | none => none
    else if d.isEmpty then
      match saveGlobalS p s .gBytes (pybuiltinModuleE p) (sb "bytes") with
      | some (g, s1) =>
        match putS p s1 key with
        | some (pb, s2) => some (g ++ emptyTupleBytes p ++ [82] ++ pb, s2)
        | none => none
      | none => none
    else
      match saveGlobalS p s .gEncode (sb "_codecs") (sb "encode") with
      | some (g, s1) =>
        match saveStrS p s1 none (latin1ToUtf8 d) with
        | some (b1, s2) =>
          match saveStrS p s2 (some .sLatin1) (sb "latin1") with
          | some (b2, s3) =>
            match putS p s3 none with
            | some (pt, s4) =>
              match putS p s4 key with
              | some (pb, s5) =>
                some (g ++ ((if p ≥ 2 then [] else [40]) ++ (b1 ++ b2) ++ [if p ≥ 2 then 0x86 else 116] ++ pt) ++ [82] ++ pb, s5)
              | none => none
            | none => none
          | none => none
        | none => none
      | none => none

/-- `save_bytearray`. -/
def saveBytearrayS (p : Nat) (s : PSt) (key : Option PKey) (d : Bytes) : Option (Bytes × PSt) :=
  match key.bind s.find with
  | some idx => some (cpGet p idx, s)
  | none =>
    if p ≥ 5 then
      match cpBytearray p d with
      | some b =>
        match putS p s key with
        | some (pb, s') => some (b ++ pb, s')
        | none => none
      | none => none
    else
      match saveGlobalS p s .gBytearray (pybuiltinModuleE p) (sb "bytearray") with
      | some (g, s1) =>
        if d.isEmpty then
          match putS p s1 key with
          | some (pb, s2) => some (g ++ emptyTupleBytes p ++ [82] ++ pb, s2)
          | none => none
        else
          match saveBytesS p s1 none d with
          | some (bb, s2) =>
            match putS p s2 none with
            | some (pt, s3) =>
              match putS p s3 key with
              | some (pb, s4) =>
                some (g ++ ((if p ≥ 2 then [] else [40]) ++ bb ++ [if p ≥ 2 then 0x85 else 116] ++ pt) ++ [82] ++ pb, s4)
              | none => none
            | none => none
          | none => none
      | none => none

mutual
/-- `save(obj)` with the memo. -/
def cpSaveS (p : Nat) : PyObjS → PSt → Option (Bytes × PSt)
  | .none, s => some ([78], s)
  | .bool b, s => some ((encodeBool (ecfg p) b).chunks.flatten, s)
  | .int i, s => (cpInt p i).map (·, s)
  | .float f, s => some (cpFloat p f, s)
  | .str oid t, s => saveStrS p s (some (.str oid t)) t
  | .bytes oid d, s => saveBytesS p s (some (.bytes oid d)) d
  | .bytearray oid d, s => saveBytearrayS p s (some (.bytearray oid d)) d
  | .tuple xs, s =>
    if xs.isEmpty then some (emptyTupleBytes p, s)
    else match cpSaveListS p xs s with
      | some (fs, s1) =>
        match putS p s1 none with
        | some (pb, s2) =>
          some ((if p ≥ 2 ∧ xs.length ≤ 3 then [] else [40]) ++ fs.flatten ++
            (if p ≥ 2 ∧ xs.length ≤ 3 then [if xs.length = 1 then 0x85 else if xs.length = 2 then 0x86 else 0x87] else [116]) ++ pb, s2)
        | none => none
      | none => none
  | .list xs, s =>
    match putS p s none with
    | some (pb, s1) =>
      match cpSaveListS p xs s1 with
      | some (fs, s2) => some ((if p ≥ 1 then [93] else [40, 108]) ++ pb ++ cpBatchList p fs, s2)
      | none => none
    | none => none
  | .dict kvs, s =>
    match putS p s none with
    | some (pb, s1) =>
      match cpSavePairsS p kvs s1 with
      | some (fs, s2) => some ((if p ≥ 1 then [125] else [40, 100]) ++ pb ++ cpBatchDict p fs, s2)
      | none => none
    | none => none
def cpSaveListS (p : Nat) : List PyObjS → PSt → Option (List Bytes × PSt)
  | [], s => some ([], s)
  | x :: xs, s =>
    match cpSaveS p x s with
    | some (b, s1) =>
      match cpSaveListS p xs s1 with
      | some (fs, s2) => some (b :: fs, s2)
      | none => none
    | none => none
def cpSavePairsS (p : Nat) : List (PyObjS × PyObjS) → PSt → Option (List Bytes × PSt)
  | [], s => some ([], s)
  | (k, v) :: r, s =>
    match cpSaveS p k s with
    | some (bk, s1) =>
      match cpSaveS p v s1 with
      | some (bv, s2) =>
        match cpSavePairsS p r s2 with
        | some (fs, s3) => some ((bk ++ bv) :: fs, s3)
        | none => none
      | none => none
    | none => none
end

def cpDumpsBodyS (p : Nat) (v : PyObjS) : Option Bytes :=
  (cpSaveS p v ⟨0, []⟩).map fun (b, _) => b ++ [46]

def cpDumpsS (p : Nat) (v : PyObjS) : Option Bytes :=
  (cpDumpsBodyS p v).map fun b => (if p ≥ 2 then [0x80, UInt8.ofNat p] else []) ++ b

def cpDumpsFramedS (p : Nat) (v : PyObjS) : Option Bytes :=
  (cpDumpsBodyS p v).map fun b =>
    (if p ≥ 2 then [0x80, UInt8.ofNat p] else []) ++
      (if p ≥ 4 ∧ b.length ≥ 4 then 0x95 :: le8 b.length else []) ++ b

end Ogorek
