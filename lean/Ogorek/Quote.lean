import Ogorek.Utf8

/-!
  The four text codecs of `pyquote.go`, line by line, plus the part of
  `strconv.UnquoteChar` / `strconv.QuoteRune` they rely on.
-/
namespace Ogorek

def hexLower (n : Nat) : UInt8 :=
  if n % 16 < 10 then UInt8.ofNat (48 + n % 16) else UInt8.ofNat (87 + n % 16)

/-- strconv's `unhex`. -/
def unhex? (b : UInt8) : Option Nat :=
  if 48 ≤ b && b ≤ 57 then some (b.toNat - 48)
  else if 97 ≤ b && b ≤ 102 then some (b.toNat - 87)
  else if 65 ≤ b && b ≤ 70 then some (b.toNat - 55)
  else none

/-- Value of `n` hex digits at the front of `s` (strconv.UnquoteChar's inner loop). -/
def hexN : Nat → Bytes → Nat → Option (Nat × Bytes)
  | 0, s, acc => some (acc, s)
  | _ + 1, [], _ => none
  | n + 1, b :: s, acc =>
    match unhex? b with
    | some x => hexN n s (acc * 16 + x)
    | none => none

def isOctal (b : UInt8) : Bool := 48 ≤ b && b ≤ 55

/-- The single-character escapes `\a \b \f \n \r \t \v`. -/
def ctrlEscape? (b : UInt8) : Option UInt8 :=
  if b = 97 then some 7 else if b = 98 then some 8 else if b = 102 then some 12
  else if b = 110 then some 10 else if b = 114 then some 13 else if b = 116 then some 9
  else if b = 118 then some 11 else none

/-- `hexdigits[b>>4], hexdigits[b&0xf]` preceded by `\x`. -/
def hexEscape (b : UInt8) : Bytes := [92, 120, hexLower (b.toNat / 16), hexLower (b.toNat % 16)]

/-- `strconv.QuoteRune(r)` without the quotes, for `r < ' '`. -/
def quoteCtrl (r : Nat) : Bytes :=
  if r = 7 then [92, 97] else if r = 8 then [92, 98] else if r = 12 then [92, 102]
  else if r = 10 then [92, 110] else if r = 13 then [92, 114] else if r = 9 then [92, 116]
  else if r = 11 then [92, 118] else hexEscape (UInt8.ofNat r)

/-- Body of `pyquote` (without the surrounding quotes); `fuel` bounds the number of runes. -/
def pyquoteAux (isPrint : Nat → Bool) : Nat → Bytes → Bytes
  | 0, _ => []
  | fuel + 1, s =>
    match decodeRune s with
    | (_, 0) => []
    | (r, w) =>
      let piece : Bytes :=
        if r = runeError then (s.take w).flatMap hexEscape
        else if r = 92 || r = 34 then [92, UInt8.ofNat r]
        else if isPrint r then s.take w
        else if r < 32 then quoteCtrl r
        else (s.take w).flatMap hexEscape
      piece ++ pyquoteAux isPrint fuel (s.drop w)

/-- `pyquote`: Python string literal in double quotes, no `\u`. -/
def pyquote (isPrint : Nat → Bool) (s : Bytes) : Bytes :=
  34 :: (pyquoteAux isPrint s.length s ++ [34])

inductive QErr where
  | syntax        -- strconv.ErrSyntax
  | panic         -- the explicit panic in pydecodeStringEscape
  deriving DecidableEq, Repr

/-- `pydecodeStringEscape` (Python's "string-escape" codec).
    The Go loop decodes runes only to spot the backslash and copies the rune's bytes
    unchanged, which is the byte-wise loop below (a backslash is never part of a
    multi-byte sequence). -/
def pydecodeStringEscape : Bytes → Except QErr Bytes
  | [] => .ok []
  | c :: rest =>
    if c ≠ 92 then (c :: ·) <$> pydecodeStringEscape rest
    else match rest with
      | [] => .error .syntax                       -- len(s) < 2
      | e :: r2 =>
        if e = 10 then pydecodeStringEscape r2      -- \ LF: skipped
        else if e = 92 then (92 :: ·) <$> pydecodeStringEscape r2
        else if e = 39 || e = 34 then (e :: ·) <$> pydecodeStringEscape r2
        else match ctrlEscape? e with
          | some v => (v :: ·) <$> pydecodeStringEscape r2
          | none =>
            if e = 120 then                          -- \xHH via strconv.UnquoteChar
              match r2 with
              | a :: b :: r3 =>
                match unhex? a, unhex? b with
                | some x, some y =>
                  let v := x * 16 + y
                  if v > 255 then .error .panic else (UInt8.ofNat v :: ·) <$> pydecodeStringEscape r3
                | _, _ => .error .syntax
              | _ => .error .syntax
            else if isOctal e then                   -- \ooo: exactly three digits, ≤ 255
              match r2 with
              | a :: b :: r3 =>
                if isOctal a && isOctal b then
                  let v := (e.toNat - 48) * 64 + (a.toNat - 48) * 8 + (b.toNat - 48)
                  if v > 255 then .error .syntax else (UInt8.ofNat v :: ·) <$> pydecodeStringEscape r3
                else .error .syntax
              | _ => .error .syntax
            -- \c: keep the backslash and go on with c; c is not a backslash here, so the
            -- next iteration copies it unchanged
            else (fun t => 92 :: e :: t) <$> pydecodeStringEscape r2

/-- `pyencodeRawUnicodeEscape` on runes (after the F9 repair: only width-1 RuneError is invalid). -/
def pyencodeRawUnicodeEscapeAux : Nat → Bytes → Option Bytes
  | 0, _ => some []
  | fuel + 1, s =>
    match decodeRune s with
    | (_, 0) => some []
    | (r, w) =>
      if r = runeError && w = 1 then none
      else
        let piece : Bytes :=
          if r = 92 || r = 10 then [92, 117, 48, 48, hexLower (r / 16), hexLower r]
          else if r ≥ 0x10000 then
            [92, 85] ++ (List.range 8).map fun i => hexLower (r / 16 ^ (7 - i))
          else if r ≥ 0x100 then
            [92, 117] ++ (List.range 4).map fun i => hexLower (r / 16 ^ (3 - i))
          else [UInt8.ofNat r]
        (piece ++ ·) <$> pyencodeRawUnicodeEscapeAux fuel (s.drop w)

/-- `none` = errPyRawUnicodeEscapeInvalidUTF8. -/
def pyencodeRawUnicodeEscape (s : Bytes) : Option Bytes := pyencodeRawUnicodeEscapeAux s.length s

/-- `pydecodeRawUnicodeEscape`, producing runes. -/
def pydecodeRawUnicodeEscapeRunes : Nat → Bytes → Except QErr (List Nat)
  | _, [] => .ok []
  | nescape, c :: rest =>
    if c ≠ 92 then (c.toNat :: ·) <$> pydecodeRawUnicodeEscapeRunes 0 rest
    else
      let nescape := nescape + 1
      -- `\u` is only interpreted if the number of leading backslashes is odd
      if nescape % 2 = 0 then (92 :: ·) <$> pydecodeRawUnicodeEscapeRunes nescape rest
      else if rest.head? = some 117 then             -- \uXXXX via strconv.UnquoteChar
        match hexN 4 (rest.drop 1) 0 with
        | some (v, _) =>
          if validRune v then (v :: ·) <$> pydecodeRawUnicodeEscapeRunes 0 (rest.drop 5) else .error .syntax
        | none => .error .syntax
      else if rest.head? = some 85 then              -- \UXXXXXXXX
        match hexN 8 (rest.drop 1) 0 with
        | some (v, _) =>
          if validRune v then (v :: ·) <$> pydecodeRawUnicodeEscapeRunes 0 (rest.drop 9) else .error .syntax
        | none => .error .syntax
      else (92 :: ·) <$> pydecodeRawUnicodeEscapeRunes nescape rest
termination_by _ s => s.length
decreasing_by
  all_goals simp_wf
  all_goals omega

/-- `pydecodeRawUnicodeEscape`: runes re-encoded as UTF-8 (`string([]rune)`). -/
def pydecodeRawUnicodeEscape (s : Bytes) : Except QErr Bytes :=
  (fun rs => rs.flatMap encodeRune) <$> pydecodeRawUnicodeEscapeRunes 0 s

end Ogorek
