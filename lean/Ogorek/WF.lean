import Ogorek.Decoder

/-!
  Well-formedness of decoder values: the documented type table of doc.go as a predicate,
  on machine values (with heap references) and on resolved results.
-/
namespace Ogorek

/-- A machine value is one of the documented types for configuration `c`
    (`u`: application objects from `PersistentLoad` are possible; `hl`: heap size). -/
def wfVal (c : Cfg) (u : Bool) (hl : Nat) : GoVal → Bool
  | .none | .bool _ | .float _ | .str _ | .bytes _ | .bytearray _ | .cls _ _ | .big _ _ => true
  | .int i => inInt64 i
  | .bytestr _ => c.su
  | .list xs => xs.attach.all fun ⟨x, _⟩ => wfVal c u hl x
  | .tuple xs => xs.attach.all fun ⟨x, _⟩ => wfVal c u hl x
  | .call _ _ args => args.attach.all fun ⟨x, _⟩ => wfVal c u hl x
  | .ref p => wfVal c u hl p
  | .href id => decide (id < hl)
  | .user _ => u
  | .mark | .uint _ | .complex _ _ | .map _ | .dict _ | .cycle | .nil => false

/-- Stack entries: the mark, or a well-formed value. -/
def wfItem (c : Cfg) (u : Bool) (hl : Nat) (v : GoVal) : Bool := isMark v || wfVal c u hl v

/-- Heap objects are of the kind the configuration asks for and hold well-formed values. -/
def wfObj (mc : MCfg) (u : Bool) (hl : Nat) (o : HObj) : Bool :=
  (o.kind == dictKind mc.cfg || (o.kind == .list && mc.listRef)) &&
  o.kvs.all (fun kv => wfVal mc.cfg u hl kv.1 && wfVal mc.cfg u hl kv.2) &&
  o.xs.all (wfVal mc.cfg u hl)

/-- The decoder invariant. -/
structure Inv (mc : MCfg) (u : Bool) (st : DState) : Prop where
  stack : ∀ v ∈ st.stack, wfItem mc.cfg u st.heap.length v = true
  memo : ∀ kv ∈ st.memo, wfVal mc.cfg u st.heap.length kv.2 = true
  heap : ∀ o ∈ st.heap, wfObj mc u st.heap.length o = true
  calls : ∀ r ∈ st.calls, wfVal mc.cfg u st.heap.length r = true

/-- Resolve heap references down to `fuel` levels (deeper levels and dangling references are
    cut with the `cycle` marker). -/
def resolveV (heap : List HObj) : Nat → GoVal → GoVal
  | 0, _ => .cycle
  | f + 1, v =>
    match v with
    | .list xs => .list (xs.map (resolveV heap f))
    | .tuple xs => .tuple (xs.map (resolveV heap f))
    | .call m n args => .call m n (args.map (resolveV heap f))
    | .ref p => .ref (resolveV heap f p)
    | .href id =>
      match heap[id]? with
      | none => .cycle
      | some o =>
        match o.kind with
        | .list => .list (o.xs.map (resolveV heap f))
        | .dict => .dict (o.kvs.map fun kv => (resolveV heap f kv.1, resolveV heap f kv.2))
        | .map => .map (o.kvs.map fun kv => (resolveV heap f kv.1, resolveV heap f kv.2))
    | v => v

mutual
/-- A resolved result contains only documented types, consistent with the mode. -/
def wfRes (c : Cfg) (u : Bool) : GoVal → Bool
  | .none | .bool _ | .float _ | .str _ | .bytes _ | .bytearray _ | .cls _ _ | .big _ _ => true
  | .int i => inInt64 i
  | .bytestr _ => c.su
  | .list xs => wfResList c u xs
  | .tuple xs => wfResList c u xs
  | .call _ _ args => wfResList c u args
  | .ref p => wfRes c u p
  | .map kvs => !c.pyDict && wfResPairs c u kvs
  | .dict kvs => c.pyDict && wfResPairs c u kvs
  | .user _ => u
  | .cycle => true
  | .mark | .uint _ | .complex _ _ | .href _ | .nil => false
def wfResList (c : Cfg) (u : Bool) : List GoVal → Bool
  | [] => true
  | x :: xs => wfRes c u x && wfResList c u xs
def wfResPairs (c : Cfg) (u : Bool) : List (GoVal × GoVal) → Bool
  | [] => true
  | (k, v) :: r => wfRes c u k && wfRes c u v && wfResPairs c u r
end

end Ogorek
