import Ogorek.CPickle
import Ogorek.Lemmas.RoundTrip

/-!
  The decidable part of the hypothesis of `C02_pickler` (everything but the protocol-0 float text):
  evaluated by the driver for every object of the correspondence run, so that the evidence says how
  many compared cases the theorem covers.
-/
namespace Ogorek

mutual
def pkOKb (cfg : Cfg) : PyObj → Bool
  | .none => true
  | .bool _ => true
  | .int _ => true
  | .float _ => true
  | .str _ => true
  | .bytes _ => true
  | .bytearray s => decide (s.length < 2 ^ 32)
  | .tuple xs => pkOKbList cfg xs
  | .list xs => pkOKbList cfg xs
  | .dict kvs => pkOKbPairs cfg kvs && keysOK cfg false (goOfPairs kvs)
def pkOKbList (cfg : Cfg) : List PyObj → Bool
  | [] => true
  | x :: xs => pkOKb cfg x && pkOKbList cfg xs
def pkOKbPairs (cfg : Cfg) : List (PyObj × PyObj) → Bool
  | [] => true
  | (k, v) :: r => pkOKb cfg k && pkOKb cfg v && pkOKbPairs cfg r
end

end Ogorek
