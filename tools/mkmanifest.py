#!/usr/bin/env python3
"""Regenerates /verif/MANIFEST.json from the check registry."""
import json
import os
import sys

ROOT = os.path.dirname(os.path.dirname(os.path.abspath(__file__)))
sys.path.insert(0, ROOT)
from vlib import registry  # noqa: E402

ALL = [f"C{i:02d}" for i in range(1, 21)]
PENDING_REASON = "no check registered yet: the model, theorems and correspondence for this property are still being built (see DESIGN.md §6)"


def main():
    checks = registry.all_checks()
    hooks_commit = os.popen("git -C /repo log --format=%H -n 1 -- verif_hooks.go").read().strip()
    m = {
        "version": 1,
        "setup_cmd": "./setup.sh",
        "hooks": {
            "guard": "verif",
            "enable": "go build -tags verif (the harness in /verif/harness is always built with the tag; /repo/verif_hooks.go is the only guarded file)",
            "baseline_off_cmd": "cd /repo && GOFLAGS=-mod=mod GOPROXY=off GOSUMDB=off GOTOOLCHAIN=local go test -vet=off -count=1 -json ./...",
            "source_commits": [hooks_commit] if hooks_commit else [],
            "add_only": True,
        },
        "engines": [
            {"name": "lean-model", "path": "lean/", "serves_properties": sorted(checks),
             "kind_free_text": "Lean 4 model of og-rek (decoder, encoder, codecs, Dict) with kernel-checked theorems; compiled line-protocol driver"},
            {"name": "go-harness", "path": "harness/", "serves_properties": sorted(checks),
             "kind_free_text": "runs the real package in-process on the same case lines as the Lean driver (build tag verif)"},
            {"name": "fact-extractor", "path": "extract/", "serves_properties": sorted(checks),
             "kind_free_text": "go/ast extraction of constants, package-level variables, dropped errors into Lean (regenerated every run)"},
            {"name": "py-oracle", "path": "pyoracle/", "serves_properties": ["C01", "C02", "C06", "C09", "C12"],
             "kind_free_text": "CPython 3.11 (and 2.7) as the reference unpickler / pickler / equality"},
        ],
        "checks": [],
        "notes": "All checks: ./check <id> quick|thorough. Level `proof`: Lean theorems about a hand-written model, tied to /repo on every run by "
                 "a correspondence run (model vs implementation on the same inputs) and by facts regenerated from the source. See DESIGN.md.",
        "not_applicable": [],
    }
    for pid in ALL:
        c = checks.get(pid)
        if c is None:
            m["not_applicable"].append({"property_id": pid, "reason": PENDING_REASON})
            continue
        m["checks"].append({
            "property_id": pid,
            "quick_cmd": f"./check {pid} quick",
            "thorough_cmd": f"./check {pid} thorough",
            "evidence_file": f"/verif/evidence/{pid}.json",
            "replay_cmd_template": f"./check {pid} --replay {{path}}",
            "engine": "lean-model",
            "level_claimed": {
                "category": "proof",
                "text": c.level_text,
                "design_ref": f"DESIGN.md §6 {pid}",
            },
            "level_note": c.level_note,
            "technique": c.technique,
        })
    with open(os.path.join(ROOT, "MANIFEST.json"), "w") as f:
        json.dump(m, f, indent=1)
        f.write("\n")
    print("claimed:", [c["property_id"] for c in m["checks"]])


if __name__ == "__main__":
    main()
