#!/bin/bash
# usage: tools/try_seeded.sh <out-dir e.g. /tmp/wt/C07_out> <A|B> <props to check...>
# 1) confirms the seeded change in a scratch worktree (suite passes, demo fails with it, passes without)
# 2) applies it to /repo, runs the given checks (quick), reverts /repo.
set -u
export GOFLAGS=-mod=mod GOPROXY=off GOSUMDB=off GOTOOLCHAIN=local
OUT=$1; X=$2; shift 2
PATCH=$OUT/${X}_patch.diff; DEMO=$OUT/${X}_demo_test.go
W=/tmp/wt/verify_$$
git -C /repo worktree add -q --detach $W HEAD || exit 2
cd $W
echo "== confirm in scratch worktree"
git apply $PATCH || { echo "PATCH DOES NOT APPLY"; git -C /repo worktree remove --force $W; exit 2; }
go build ./... && go test -vet=off -count=1 ./... 2>&1 | tail -1
cp $DEMO $W/zz_seeded_demo_test.go
go test -vet=off -count=1 -run 'TestSeeded' . 2>&1 | tail -3 | sed 's/^/   with change: /'
git checkout -q -- . ; 
go test -vet=off -count=1 -run 'TestSeeded' . 2>&1 | tail -1 | sed 's/^/   without change: /'
cd /verif; git -C /repo worktree remove --force $W
echo "== run checks against the change"
git -C /repo apply $PATCH || exit 2
for p in "$@"; do
  ./check $p quick > /tmp/seeded_$p.log 2>&1; rc=$?
  echo "   $p: exit $rc  $(grep -E '^VIOLATION|^KNOWN' /tmp/seeded_$p.log | cut -c1-160 | head -3 | tr '\n' ' ')"
done
git -C /repo checkout -- .
git -C /repo status --short | head -3
