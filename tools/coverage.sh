#!/bin/bash
# Diagnostic (not a check): statement coverage of /repo reached by the quick checks' inputs through the harness.
# usage: tools/coverage.sh [props...]   -> work/cover/uncovered.txt
cd /verif
D=/verif/work/cover/data; rm -rf /verif/work/cover; mkdir -p $D
props=${@:-C01 C02 C03 C04 C05 C06 C07 C08 C09 C10 C11 C12 C13 C14 C15 C16 C17 C18 C19}
for p in $props; do VERIF_COVER=$D ./check $p quick > /dev/null 2>&1; echo "$p done"; done
export GOFLAGS=-mod=mod GOPROXY=off GOSUMDB=off GOTOOLCHAIN=local
go tool covdata percent -i=$D | tail -3
go tool covdata textfmt -i=$D -o /verif/work/cover/profile.txt
awk -F'[: ,]' 'NR>1 && $NF==0 {print $1":"$2}' /verif/work/cover/profile.txt | sort -u > /verif/work/cover/uncovered.txt
wc -l /verif/work/cover/uncovered.txt
# leave a normal harness behind
python3 -c "import sys; sys.path.insert(0,'/verif'); from vlib import common as C; C.build_tools()"
