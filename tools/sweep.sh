#!/bin/bash
# tools/sweep.sh <tier> <seed>...   run every check with the given seeds on the current tree; summary on stdout
tier=$1; shift
cd /verif
for seed in "$@"; do
  for p in C01 C02 C03 C04 C05 C06 C07 C08 C09 C10 C11 C12 C13 C14 C15 C16 C17 C18 C19 C20; do
    VERIF_SEED=$seed ./check $p $tier > work/sweep/$p.$tier.$seed.log 2>&1
    echo "$p seed=$seed tier=$tier exit=$? $(grep -c '^VIOLATION' work/sweep/$p.$tier.$seed.log) viol"
  done
done
